//! C12 — Bookmark target merges resolve only when safe.
//!
//! Exhaustive over every ancestry relation on n topologically numbered commits (every DAG,
//! deduplicated by its reflexive-transitive closure, behind a fake `Index` that only answers
//! `is_ancestor`) x every triple (left, base, right) of targets from
//! {absent, normal(c), every 3-term conflict over {None, c0..c(n-1)}}, through the real
//! `refs::merge_ref_targets`. A second pass binds the fake to the real default index
//! (readonly and mutable) of a `TestRepo` holding the same DAG.
//!
//! Reference (never calls jj): multiset arithmetic on (adds, removes) + an explicit ancestor
//! bit matrix + an exhaustive search of the rewrite system whose only rule is "delete a pair
//! (remove r, add a) when another add a' has a <= a' and r is absent or r <= a".

use std::collections::BTreeSet;
use std::collections::HashMap;
use std::sync::Arc;

use async_trait::async_trait;
use jj_lib::backend::CommitId;
use jj_lib::backend::MillisSinceEpoch;
use jj_lib::backend::Signature;
use jj_lib::backend::Timestamp;
use jj_lib::index::Index;
use jj_lib::index::IndexResult;
use jj_lib::merge::Merge;
use jj_lib::object_id::HexPrefix;
use jj_lib::object_id::ObjectId as _;
use jj_lib::object_id::PrefixResolution;
use jj_lib::op_store::RefTarget;
use jj_lib::refs::merge_ref_targets;
use jj_lib::repo::Repo as _;
use jj_lib::repo_path::RepoPathBuf;
use jj_lib::revset::ResolvedExpression;
use jj_lib::revset::Revset;
use jj_lib::revset::RevsetEvaluationError;
use jj_lib::store::Store;
use pollster::FutureExt as _;
use rayon::prelude::*;
use serde_json::Value;
use serde_json::json;
use testutils::TestRepo;
use vcommon::Counter;
use vcommon::Coverage;
use vcommon::Ctx;
use vcommon::Level;
use vcommon::Samples;
use vcommon::catch;
use vcommon::enumerate::Dag;
use vcommon::enumerate::all_dags;
use vcommon::machinery_failure;

type Term = Option<u8>;
/// A target as its term list (odd length; even positions are adds, odd positions removes).
type Tgt = Vec<Term>;

// ---------------------------------------------------------------------------------------
// Fake index: only `is_ancestor` is implemented, from the bit matrix.

struct FakeIndex {
    /// anc[i] = bitmask of the ancestors of i, including i
    anc: Vec<u64>,
}

fn fake_id(i: u8) -> CommitId {
    CommitId::new(vec![0xc0, i])
}

fn fake_index_of(id: &CommitId) -> Option<u8> {
    match id.as_bytes() {
        [0xc0, i] => Some(*i),
        _ => None,
    }
}

#[async_trait]
impl Index for FakeIndex {
    async fn shortest_unique_commit_id_prefix_len(&self, _commit_id: &CommitId) -> IndexResult<usize> {
        unimplemented!("fake index")
    }

    async fn resolve_commit_id_prefix(
        &self,
        _prefix: &HexPrefix,
    ) -> IndexResult<PrefixResolution<CommitId>> {
        unimplemented!("fake index")
    }

    async fn has_id(&self, commit_id: &CommitId) -> IndexResult<bool> {
        Ok(fake_index_of(commit_id).is_some_and(|i| (i as usize) < self.anc.len()))
    }

    async fn is_ancestor(&self, ancestor_id: &CommitId, descendant_id: &CommitId) -> IndexResult<bool> {
        let a = fake_index_of(ancestor_id).expect("foreign id asked of the fake index");
        let d = fake_index_of(descendant_id).expect("foreign id asked of the fake index");
        Ok(self.anc[d as usize] >> a & 1 == 1)
    }

    async fn common_ancestors(&self, _set1: &[CommitId], _set2: &[CommitId]) -> IndexResult<Vec<CommitId>> {
        unimplemented!("fake index")
    }

    fn all_heads_for_gc(&self) -> IndexResult<Box<dyn Iterator<Item = CommitId> + '_>> {
        unimplemented!("fake index")
    }

    async fn heads(
        &self,
        _candidates: &mut (dyn Iterator<Item = &CommitId> + Send),
    ) -> IndexResult<Vec<CommitId>> {
        unimplemented!("fake index")
    }

    async fn changed_paths_in_commit(
        &self,
        _commit_id: &CommitId,
    ) -> IndexResult<Option<Box<dyn Iterator<Item = RepoPathBuf> + '_>>> {
        unimplemented!("fake index")
    }

    fn evaluate_revset(
        &self,
        _expression: &ResolvedExpression,
        _store: &Arc<Store>,
    ) -> Result<Box<dyn Revset + '_>, RevsetEvaluationError> {
        unimplemented!("fake index")
    }
}

// ---------------------------------------------------------------------------------------
// Input alphabet

/// absent, normal(c) for every c, every 3-term list over {None, c0..}.
fn target_alphabet(n: usize) -> Vec<Tgt> {
    let mut out: Vec<Tgt> = vec![vec![None]];
    for c in 0..n {
        out.push(vec![Some(c as u8)]);
    }
    let vals: Vec<Term> = std::iter::once(None).chain((0..n).map(|c| Some(c as u8))).collect();
    for a in &vals {
        for r in &vals {
            for b in &vals {
                out.push(vec![*a, *r, *b]);
            }
        }
    }
    out
}

fn to_ref_target(t: &Tgt, ids: &[CommitId]) -> RefTarget {
    RefTarget::from_merge(Merge::from_vec(
        t.iter().map(|x| x.map(|i| ids[i as usize].clone())).collect::<Vec<_>>(),
    ))
}

// ---------------------------------------------------------------------------------------
// Reference model

fn le(anc: &[u64], a: u8, b: u8) -> bool {
    anc[b as usize] >> a & 1 == 1
}

fn adds_of(t: &[Term]) -> Vec<Term> {
    t.iter().step_by(2).copied().collect()
}

fn removes_of(t: &[Term]) -> Vec<Term> {
    t.iter().skip(1).step_by(2).copied().collect()
}

/// Signed multiset as (sorted adds, sorted removes).
type Form = (Vec<Term>, Vec<Term>);

fn form_of(t: &[Term]) -> Form {
    let mut a = adds_of(t);
    let mut r = removes_of(t);
    a.sort();
    r.sort();
    (a, r)
}

/// left - base + right with nested conflicts expanded, then equal add/remove pairs cancelled.
fn flatten_simplify(l: &[Term], b: &[Term], r: &[Term]) -> Form {
    let mut adds: Vec<Term> = vec![];
    let mut removes: Vec<Term> = vec![];
    adds.extend(adds_of(l));
    removes.extend(removes_of(l));
    adds.extend(removes_of(b));
    removes.extend(adds_of(b));
    adds.extend(adds_of(r));
    removes.extend(removes_of(r));
    let mut kept_removes = vec![];
    for rm in removes {
        if let Some(pos) = adds.iter().position(|a| *a == rm) {
            adds.remove(pos);
        } else {
            kept_removes.push(rm);
        }
    }
    adds.sort();
    kept_removes.sort();
    if adds.len() != kept_removes.len() + 1 {
        machinery_failure("reference: flatten_simplify lost the adds = removes + 1 invariant");
    }
    (adds, kept_removes)
}

/// All forms reachable from `start` by the deletion rule, and the subset that are normal
/// forms (no rule applies). Returns (normal forms, number of reachable forms).
fn normal_forms(anc: &[u64], start: &Form) -> (BTreeSet<Form>, usize) {
    let mut seen: BTreeSet<Form> = BTreeSet::new();
    let mut nfs: BTreeSet<Form> = BTreeSet::new();
    let mut stack = vec![start.clone()];
    seen.insert(start.clone());
    while let Some(f) = stack.pop() {
        let (adds, removes) = &f;
        let mut any = false;
        for i in 0..adds.len() {
            let Some(a) = adds[i] else { continue };
            // some *other* add a' with a <= a'
            let covered = (0..adds.len()).any(|j| j != i && adds[j].is_some_and(|a2| le(anc, a, a2)));
            if !covered {
                continue;
            }
            for k in 0..removes.len() {
                let ok = match removes[k] {
                    None => true,
                    Some(r) => le(anc, r, a),
                };
                if !ok {
                    continue;
                }
                any = true;
                let mut na = adds.clone();
                na.remove(i);
                let mut nr = removes.clone();
                nr.remove(k);
                let nf = (na, nr);
                if seen.insert(nf.clone()) {
                    stack.push(nf);
                }
            }
        }
        if !any {
            nfs.insert(f);
        }
    }
    (nfs, seen.len())
}

#[derive(Clone, Copy, PartialEq, Eq, Debug)]
enum Class {
    /// one side unchanged / both sides agree (whole-target equality)
    Trivial,
    /// resolved after flatten+simplify without any ancestry question
    TrivialAfterFlatten,
    /// the ancestry rule removed at least one pair and the result is resolved
    FastForward,
    /// the ancestry rule removed at least one pair, the result is still a conflict
    Reduced,
    /// nothing could be removed: conflict recorded as is
    Conflict,
}

struct Verdict {
    class: Class,
    conflicted_input: bool,
    order_dependent: bool,
}

fn show(t: &[Term]) -> String {
    let mut s = String::from("[");
    for (i, x) in t.iter().enumerate() {
        if i > 0 {
            s.push_str(if i % 2 == 1 { " - " } else { " + " });
        }
        match x {
            None => s.push('0'),
            Some(c) => s.push_str(&format!("c{c}")),
        }
    }
    s.push(']');
    s
}

/// The oracle. `result` is what jj returned (already translated to term lists).
fn judge(anc: &[u64], l: &Tgt, b: &Tgt, r: &Tgt, result: &Tgt) -> Result<Verdict, (String, String)> {
    let ctx_str = || format!("left {} base {} right {} -> {}", show(l), show(b), show(r), show(result));
    let conflicted_input = l.len() > 1 || b.len() > 1 || r.len() > 1;
    // (3) never names a commit none of the inputs named
    for x in result.iter().flatten() {
        if !l.iter().chain(b.iter()).chain(r.iter()).flatten().any(|y| y == x) {
            return Err(("C12/foreign-commit".into(), format!("{}: c{x} is in no input", ctx_str())));
        }
    }
    if result.len() % 2 != 1 {
        return Err(("C12/malformed-result".into(), ctx_str()));
    }
    // (1) one side unchanged -> the other side; both agree -> the common value
    let trivial_expect: Option<(&Tgt, &str)> = if l == b {
        Some((r, "unchanged-side"))
    } else if r == b {
        Some((l, "unchanged-side"))
    } else if l == r {
        Some((l, "both-agree"))
    } else {
        None
    };
    if let Some((want, which)) = trivial_expect {
        if result != want {
            return Err((
                format!("C12/{which}/wrong-result"),
                format!("{}: expected {}", ctx_str(), show(want)),
            ));
        }
        return Ok(Verdict { class: Class::Trivial, conflicted_input, order_dependent: false });
    }
    let start = flatten_simplify(l, b, r);
    let got = form_of(result);
    // (2) independent formulation for three resolved inputs
    let mut expect_resolved_inputs: Option<Form> = None;
    if !conflicted_input {
        let (lv, bv, rv) = (l[0], b[0], r[0]);
        let base_below = |x: u8| match bv {
            None => true,
            Some(bc) => le(anc, bc, x),
        };
        let want: Form = match (lv, rv) {
            (Some(lc), Some(rc)) if le(anc, lc, rc) && base_below(lc) => (vec![Some(rc)], vec![]),
            (Some(lc), Some(rc)) if le(anc, rc, lc) && base_below(rc) => (vec![Some(lc)], vec![]),
            _ => {
                let mut a = vec![lv, rv];
                a.sort();
                (a, vec![bv])
            }
        };
        if got != want {
            let sig = if want.0.len() == 1 {
                "C12/resolved-inputs/should-fast-forward"
            } else if got.0.len() == 1 {
                "C12/resolved-inputs/picked-a-side"
            } else {
                "C12/resolved-inputs/wrong-conflict"
            };
            return Err((
                sig.into(),
                format!("{}: expected adds {:?} removes {:?}", ctx_str(), want.0, want.1),
            ));
        }
        expect_resolved_inputs = Some(want);
    }
    // (4) general case: flatten, cancel, then only the ancestry rule
    if start.0.len() == 1 {
        if got != start {
            return Err((
                "C12/conflicted-inputs/trivial-not-resolved".into(),
                format!("{}: terms cancel to {:?}", ctx_str(), start.0[0]),
            ));
        }
        return Ok(Verdict { class: Class::TrivialAfterFlatten, conflicted_input, order_dependent: false });
    }
    let (nfs, reachable) = normal_forms(anc, &start);
    if let Some(want) = &expect_resolved_inputs {
        if nfs.len() != 1 || !nfs.contains(want) {
            machinery_failure(&format!(
                "oracle inconsistency: clause 2 says {want:?}, rewrite system says {nfs:?} for {}",
                ctx_str()
            ));
        }
    }
    // all remaining adds equal: "both sides agree" on the flattened form may be taken
    let all_adds_equal = start.0.iter().all(|a| *a == start.0[0]);
    let agreed: Form = (vec![start.0[0]], vec![]);
    let ok = nfs.contains(&got) || (all_adds_equal && got == agreed);
    if !ok {
        let sig = if got.0.len() == 1 {
            "C12/conflicted-inputs/picked-a-side"
        } else {
            "C12/conflicted-inputs/not-a-reachable-normal-form"
        };
        return Err((
            sig.into(),
            format!(
                "{}: flattened form adds {:?} removes {:?}; allowed normal forms {:?}",
                ctx_str(),
                start.0,
                start.1,
                nfs
            ),
        ));
    }
    let class = if all_adds_equal && got == agreed && !nfs.contains(&got) {
        Class::TrivialAfterFlatten
    } else if reachable == 1 {
        Class::Conflict
    } else if got.0.len() == 1 {
        Class::FastForward
    } else {
        Class::Reduced
    };
    Ok(Verdict { class, conflicted_input, order_dependent: nfs.len() > 1 })
}

// ---------------------------------------------------------------------------------------
// Running the real code

fn from_ref_target(t: &RefTarget, lookup: &dyn Fn(&CommitId) -> Option<u8>) -> Result<Tgt, String> {
    t.as_merge()
        .iter()
        .map(|x| match x {
            None => Ok(None),
            Some(id) => lookup(id).map(Some).ok_or_else(|| format!("unknown commit id {id:?}")),
        })
        .collect()
}

fn run_merge(
    index: &dyn Index,
    lookup: &dyn Fn(&CommitId) -> Option<u8>,
    l: &RefTarget,
    b: &RefTarget,
    r: &RefTarget,
) -> Result<Tgt, (String, String)> {
    let res = catch(|| merge_ref_targets(index, l, b, r).block_on())
        .map_err(|e| ("C12/panic".to_string(), e))?
        .map_err(|e| ("C12/error".to_string(), format!("{e:?}")))?;
    from_ref_target(&res, lookup).map_err(|e| ("C12/foreign-commit".to_string(), e))
}

fn case_json(kind: &str, dag: &Dag, l: &Tgt, b: &Tgt, r: &Tgt) -> Value {
    json!({"index": kind, "parents": dag.parents, "left": l, "base": b, "right": r})
}

#[derive(Default)]
struct Counters {
    evals: Counter,
    trivial: Counter,
    trivial_after_flatten: Counter,
    fast_forward: Counter,
    fast_forward_resolved_inputs: Counter,
    reduced: Counter,
    conflict: Counter,
    conflict_resolved_inputs: Counter,
    conflicted_input: Counter,
    order_dependent: Counter,
}

impl Counters {
    fn record(&self, v: &Verdict) {
        self.evals.inc();
        if v.conflicted_input {
            self.conflicted_input.inc();
        }
        if v.order_dependent {
            self.order_dependent.inc();
        }
        match v.class {
            Class::Trivial => self.trivial.inc(),
            Class::TrivialAfterFlatten => self.trivial_after_flatten.inc(),
            Class::FastForward => {
                self.fast_forward.inc();
                if !v.conflicted_input {
                    self.fast_forward_resolved_inputs.inc();
                }
            }
            Class::Reduced => self.reduced.inc(),
            Class::Conflict => {
                self.conflict.inc();
                if !v.conflicted_input {
                    self.conflict_resolved_inputs.inc();
                }
            }
        }
    }
}

fn fake_ids(n: usize) -> Vec<CommitId> {
    (0..n).map(|i| fake_id(i as u8)).collect()
}

fn check_fake(dag: &Dag, l: &Tgt, b: &Tgt, r: &Tgt) -> Result<Verdict, (String, String)> {
    let anc = dag.ancestors_masks();
    let ids = fake_ids(dag.n());
    let index = FakeIndex { anc: anc.clone() };
    let got = run_merge(
        &index,
        &|id| fake_index_of(id),
        &to_ref_target(l, &ids),
        &to_ref_target(b, &ids),
        &to_ref_target(r, &ids),
    )?;
    judge(&anc, l, b, r, &got)
}

/// A real repository holding the DAG; commits get explicit, distinct timestamps.
struct RealRepo {
    _test_repo: TestRepo,
    repo: Arc<jj_lib::repo::ReadonlyRepo>,
    ids: Vec<CommitId>,
}

fn build_real(dag: &Dag) -> RealRepo {
    let test_repo = TestRepo::init();
    let mut tx = test_repo.repo.start_transaction();
    let mut ids: Vec<CommitId> = vec![];
    let root = test_repo.repo.store().root_commit_id().clone();
    let empty_tree = test_repo.repo.store().empty_merged_tree();
    for (i, ps) in dag.parents.iter().enumerate() {
        let parents: Vec<CommitId> = if ps.is_empty() {
            vec![root.clone()]
        } else {
            ps.iter().map(|&p| ids[p].clone()).collect()
        };
        let sig = Signature {
            name: "C12".into(),
            email: "c12@example.com".into(),
            timestamp: Timestamp { timestamp: MillisSinceEpoch(1_000_000 + i as i64 * 1000), tz_offset: 0 },
        };
        let commit = tx
            .repo_mut()
            .new_commit(parents, empty_tree.clone())
            .set_description(format!("c{i}"))
            .set_author(sig.clone())
            .set_committer(sig)
            .write()
            .block_on()
            .unwrap_or_else(|e| machinery_failure(&format!("cannot write commit: {e}")));
        ids.push(commit.id().clone());
    }
    let repo = tx
        .commit("c12 dag")
        .block_on()
        .unwrap_or_else(|e| machinery_failure(&format!("cannot commit transaction: {e}")));
    RealRepo { _test_repo: test_repo, repo, ids }
}

fn check_real(
    index: &dyn Index,
    ids: &[CommitId],
    anc: &[u64],
    l: &Tgt,
    b: &Tgt,
    r: &Tgt,
) -> Result<Verdict, (String, String)> {
    let map: HashMap<&CommitId, u8> = ids.iter().enumerate().map(|(i, id)| (id, i as u8)).collect();
    let got = run_merge(
        index,
        &|id| map.get(id).copied(),
        &to_ref_target(l, ids),
        &to_ref_target(b, ids),
        &to_ref_target(r, ids),
    )?;
    // bind to the fake: identical answer on identical ancestry
    let fake = FakeIndex { anc: anc.to_vec() };
    let fids = fake_ids(ids.len());
    let got_fake = run_merge(
        &fake,
        &|id| fake_index_of(id),
        &to_ref_target(l, &fids),
        &to_ref_target(b, &fids),
        &to_ref_target(r, &fids),
    )?;
    if got != got_fake {
        return Err((
            "C12/real-index/differs-from-fake".into(),
            format!(
                "left {} base {} right {}: real index gives {}, bit matrix gives {}",
                show(l),
                show(b),
                show(r),
                show(&got),
                show(&got_fake)
            ),
        ));
    }
    judge(anc, l, b, r, &got)
}

fn check_is_ancestor(index: &dyn Index, ids: &[CommitId], anc: &[u64]) -> Result<(), (String, String)> {
    for a in 0..ids.len() {
        for d in 0..ids.len() {
            let real = index
                .is_ancestor(&ids[a], &ids[d])
                .block_on()
                .map_err(|e| ("C12/error".to_string(), format!("{e:?}")))?;
            if real != le(anc, a as u8, d as u8) {
                return Err((
                    "C12/real-index/is-ancestor-mismatch".into(),
                    format!("is_ancestor(c{a}, c{d}) = {real}, parent table says {}", !real),
                ));
            }
        }
    }
    Ok(())
}

fn parse_tgt(v: &Value) -> Tgt {
    serde_json::from_value(v.clone()).unwrap_or_else(|e| machinery_failure(&format!("bad replay target: {e}")))
}

fn main() {
    let ctx = Ctx::from_args("C12", Level::Exploration);
    vcommon::silence_panics();
    testutils::hermetic_git();

    if let Some((_sig, case)) = ctx.replay_case() {
        let dag: Dag = Dag {
            parents: serde_json::from_value(case["parents"].clone())
                .unwrap_or_else(|e| machinery_failure(&format!("bad replay dag: {e}"))),
        };
        let (l, b, r) = (parse_tgt(&case["left"]), parse_tgt(&case["base"]), parse_tgt(&case["right"]));
        let kind = case["index"].as_str().unwrap_or("fake").to_string();
        let anc = dag.ancestors_masks();
        let res = match kind.as_str() {
            "fake" => check_fake(&dag, &l, &b, &r).map(|_| ()),
            _ => {
                let real = build_real(&dag);
                let tx = real.repo.start_transaction();
                let index: &dyn Index =
                    if kind == "real-mutable" { tx.repo().index() } else { real.repo.index() };
                check_is_ancestor(index, &real.ids, &anc)
                    .and_then(|()| check_real(index, &real.ids, &anc, &l, &b, &r).map(|_| ()))
            }
        };
        if let Err((sig, msg)) = res {
            ctx.violation(&sig, msg, case);
        }
        ctx.finish(Coverage { evaluations: 1, ..Default::default() });
    }

    let n = ctx.pick(3usize, 4usize);
    let n_real = 3usize;
    let samples = Samples::new(8);

    // ---- pass 1: fake index, every ancestry relation on n commits ----
    let dags = all_dags(n, n);
    let mut by_closure: Vec<(Vec<u64>, Dag)> = vec![];
    for d in &dags {
        let anc = d.ancestors_masks();
        if !by_closure.iter().any(|(a, _)| *a == anc) {
            by_closure.push((anc, d.clone()));
        }
    }
    let alphabet = target_alphabet(n);
    let ids = fake_ids(n);
    let refs: Vec<RefTarget> = alphabet.iter().map(|t| to_ref_target(t, &ids)).collect();
    let fake_counts = Counters::default();
    for (anc, dag) in &by_closure {
        let index = FakeIndex { anc: anc.clone() };
        (0..alphabet.len()).into_par_iter().for_each(|li| {
            for bi in 0..alphabet.len() {
                for ri in 0..alphabet.len() {
                    let (l, b, r) = (&alphabet[li], &alphabet[bi], &alphabet[ri]);
                    let res = run_merge(&index, &|id| fake_index_of(id), &refs[li], &refs[bi], &refs[ri])
                        .and_then(|got| judge(anc, l, b, r, &got));
                    match res {
                        Ok(v) => {
                            fake_counts.record(&v);
                            if matches!(v.class, Class::FastForward | Class::Reduced)
                                && v.conflicted_input
                                && dag.parents.iter().map(|p| p.len()).sum::<usize>() >= 2
                                && l != r
                                && samples.wants_more()
                            {
                                samples.offer(|| case_json("fake", dag, l, b, r));
                            }
                        }
                        Err((sig, msg)) => {
                            fake_counts.evals.inc();
                            ctx.violation(&sig, msg, case_json("fake", dag, l, b, r));
                        }
                    }
                }
            }
        });
    }

    // ---- pass 2: the real default index (readonly + mutable) on every DAG of 3 commits ----
    let real_counts = Counters::default();
    let real_dags = all_dags(n_real, n_real);
    let real_alphabet = target_alphabet(n_real);
    let is_ancestor_pairs = Counter::new();
    for dag in &real_dags {
        let anc = dag.ancestors_masks();
        let real = build_real(dag);
        let tx = real.repo.start_transaction();
        for kind in ["real-readonly", "real-mutable"] {
            let index: &dyn Index =
                if kind == "real-mutable" { tx.repo().index() } else { real.repo.index() };
            if let Err((sig, msg)) = check_is_ancestor(index, &real.ids, &anc) {
                ctx.violation(&sig, msg, case_json(kind, dag, &vec![None], &vec![None], &vec![None]));
            }
            is_ancestor_pairs.add((n_real * n_real) as u64);
            (0..real_alphabet.len()).into_par_iter().for_each(|li| {
                for b in &real_alphabet {
                    for r in &real_alphabet {
                        let l = &real_alphabet[li];
                        match check_real(index, &real.ids, &anc, l, b, r) {
                            Ok(v) => real_counts.record(&v),
                            Err((sig, msg)) => {
                                real_counts.evals.inc();
                                ctx.violation(&sig, msg, case_json(kind, dag, l, b, r));
                            }
                        }
                    }
                }
            });
        }
        drop(tx);
    }

    // ---- pass 3: 5-term left targets (beyond the 3-term alphabet), n = 3, fake index ----
    let wide_counts = Counters::default();
    let n_wide = 3usize;
    let wide_alphabet = target_alphabet(n_wide);
    let narrow: Vec<Tgt> = if ctx.quick() {
        wide_alphabet.iter().filter(|t| t.len() == 1).cloned().collect()
    } else {
        wide_alphabet.clone()
    };
    let vals: Vec<Term> = std::iter::once(None).chain((0..n_wide).map(|c| Some(c as u8))).collect();
    let mut five: Vec<Tgt> = vec![];
    vcommon::enumerate::odometer(&[vals.len(); 5], |t| {
        five.push(t.iter().map(|&i| vals[i]).collect());
        true
    });
    let wide_ids = fake_ids(n_wide);
    let wide_dags = all_dags(n_wide, n_wide);
    let mut wide_closures: Vec<(Vec<u64>, Dag)> = vec![];
    for d in &wide_dags {
        let anc = d.ancestors_masks();
        if !wide_closures.iter().any(|(a, _)| *a == anc) {
            wide_closures.push((anc, d.clone()));
        }
    }
    for (anc, dag) in &wide_closures {
        let index = FakeIndex { anc: anc.clone() };
        five.par_iter().for_each(|l| {
            let lt = to_ref_target(l, &wide_ids);
            for b in &narrow {
                let bt = to_ref_target(b, &wide_ids);
                for r in &narrow {
                    let rt = to_ref_target(r, &wide_ids);
                    // the wide target is tried in each of the three positions
                    for pos in 0..3 {
                        let (tl, tb, tr, rl, rb, rr) = match pos {
                            0 => (l, b, r, &lt, &bt, &rt),
                            1 => (b, l, r, &bt, &lt, &rt),
                            _ => (b, r, l, &bt, &rt, &lt),
                        };
                        let res = run_merge(&index, &|id| fake_index_of(id), rl, rb, rr)
                            .and_then(|got| judge(anc, tl, tb, tr, &got));
                        match res {
                            Ok(v) => wide_counts.record(&v),
                            Err((sig, msg)) => {
                                wide_counts.evals.inc();
                                ctx.violation(&sig, msg, case_json("fake", dag, tl, tb, tr));
                            }
                        }
                    }
                }
            }
        });
    }

    // vacuity: every clause of the oracle must have been exercised
    for (name, c) in [
        ("one side unchanged / both agree", &fake_counts.trivial),
        ("fast-forward from resolved inputs", &fake_counts.fast_forward_resolved_inputs),
        ("conflict kept from resolved inputs", &fake_counts.conflict_resolved_inputs),
        ("conflicted input reduced by ancestry", &fake_counts.reduced),
        ("resolved after flattening", &fake_counts.trivial_after_flatten),
        ("real index fast-forward", &real_counts.fast_forward),
        ("5-term input reduced by ancestry", &wide_counts.reduced),
    ] {
        if c.get() == 0 && ctx.violation_count() == 0 {
            machinery_failure(&format!("vacuous: no case exercised '{name}'"));
        }
    }

    let nontrivial = fake_counts.fast_forward.get()
        + fake_counts.reduced.get()
        + fake_counts.conflict.get()
        + fake_counts.trivial_after_flatten.get();
    let mut extra = std::collections::BTreeMap::new();
    let dump = |c: &Counters| {
        json!({
            "evaluations": c.evals.get(),
            "trivial_whole_target": c.trivial.get(),
            "resolved_after_flatten": c.trivial_after_flatten.get(),
            "fast_forward_resolved": c.fast_forward.get(),
            "fast_forward_from_resolved_inputs": c.fast_forward_resolved_inputs.get(),
            "conflict_reduced_by_ancestry": c.reduced.get(),
            "conflict_kept": c.conflict.get(),
            "conflict_kept_from_resolved_inputs": c.conflict_resolved_inputs.get(),
            "with_conflicted_input": c.conflicted_input.get(),
            "order_dependent_allowed_sets": c.order_dependent.get(),
        })
    };
    extra.insert("commits".into(), json!(n));
    extra.insert("dags".into(), json!(dags.len()));
    extra.insert("distinct_ancestry_relations".into(), json!(by_closure.len()));
    extra.insert("targets_per_slot".into(), json!(alphabet.len()));
    extra.insert("fake_index_pass".into(), dump(&fake_counts));
    extra.insert("real_index_pass".into(), dump(&real_counts));
    extra.insert("five_term_pass".into(), dump(&wide_counts));
    extra.insert(
        "five_term_pass_shape".into(),
        json!(format!(
            "n = {n_wide}: every 5-term list ({}) in each of the three positions x every pair of {} other targets x {} ancestry relations",
            five.len(),
            narrow.len(),
            wide_closures.len()
        )),
    );
    extra.insert("real_index_commits".into(), json!(n_real));
    extra.insert("real_index_dags".into(), json!(real_dags.len()));
    extra.insert("real_is_ancestor_pairs_compared".into(), json!(is_ancestor_pairs.get()));
    let cov = Coverage {
        evaluations: fake_counts.evals.get() + real_counts.evals.get() + wide_counts.evals.get(),
        distinct_nontrivial: nontrivial,
        rule: format!(
            "every ancestry relation on {n} commits (all {} DAGs, {} distinct closures) x every ordered triple of \
             the {} targets {{absent, normal(c), every 3-term list over {{None, c0..c{}}}}}, each triple once per \
             relation; non-trivial (counted in the first pass only) = no side equals the base and the sides differ (the \
             flattened conflict is resolved by cancellation, fast-forwarded/reduced by ancestry, or kept). Second pass: the same \
             triples for n = {n_real} on the real readonly and mutable default index of a TestRepo. Third pass: one \
             5-term target in any of the three positions (n = 3).",
            dags.len(),
            by_closure.len(),
            alphabet.len(),
            n - 1
        ),
        samples: samples.take(),
        exhaustive: true,
        extra,
        assumptions: vec![
            "merge_ref_targets uses the index only through is_ancestor (the fake panics on any other call)".into(),
            "absent base counts as the root (design decision of jj, accepted by the oracle)".into(),
            "for conflicted inputs every normal form of the ancestry rewrite rule is accepted (order dependence \
             is documented in the code); when all remaining adds agree, resolving to them is also accepted"
                .into(),
            "input targets have at most 3 terms, except one 5-term target per triple in the third pass".into(),
        ],
        ..Default::default()
    };
    ctx.finish(cov);
}

//! C18 — The commit index answers exactly as the commit graph.
//!
//! Bounded-exhaustive exploration of the real `DefaultIndexStore` / `DefaultMutableIndex` /
//! `DefaultReadonlyIndex` through `ReadonlyRepo` / `Transaction`:
//!
//! every DAG on n <= N topologically numbered commits (<= 4 parents, so octopus merges use the
//! overflow parent encoding) x every composition of the creation sequence into consecutive
//! transactions (one index segment file per transaction; both sides of the squash threshold
//! `2 * new < parent` occur) x optionally one pair of consecutive transactions run
//! *concurrently* from the same base and merged by `load_at_head` (`merge_in`), in both merge
//! orders x change-id equality patterns x {no prefix, a 6-commit base segment below the DAG so
//! that three stacked segment files occur}.
//!
//! Every history is queried on the `MutableRepo` right before each commit, on the committed
//! `ReadonlyRepo` after each transaction / merge, after a fresh load from disk, and after
//! `reinit()` + full re-index. The reference is a parent table with a bit-mask transitive closure
//! (cross-checked against a DFS path search).

use std::collections::BTreeMap;
use std::collections::BTreeSet;
use std::collections::HashSet;
use std::sync::Arc;
use std::sync::Mutex;

use jj_lib::backend::ChangeId;
use jj_lib::backend::CommitId;
use jj_lib::backend::MillisSinceEpoch;
use jj_lib::backend::Signature;
use jj_lib::backend::Timestamp;
use jj_lib::config::ConfigLayer;
use jj_lib::config::ConfigSource;
use jj_lib::default_index::DefaultIndexStore;
use jj_lib::default_index::DefaultReadonlyIndex;
use jj_lib::index::ChangeIdIndex;
use jj_lib::index::Index;
use jj_lib::index::MutableIndex;
use jj_lib::index::ReadonlyIndex;
use jj_lib::index::ResolvedChangeState;
use jj_lib::object_id::HexPrefix;
use jj_lib::object_id::ObjectId as _;
use jj_lib::object_id::PrefixResolution;
use jj_lib::repo::MutableRepo;
use jj_lib::repo::ReadonlyRepo;
use jj_lib::repo::Repo as _;
use jj_lib::settings::UserSettings;
use jj_lib::transaction::Transaction;
use pollster::FutureExt as _;
use rayon::prelude::*;
use serde_json::Value;
use serde_json::json;
use testutils::TestRepo;
use vcommon::Counter;
use vcommon::Coverage;
use vcommon::Ctx;
use vcommon::Level;
use vcommon::Samples;
use vcommon::catch;
use vcommon::enumerate::all_dags;
use vcommon::enumerate::compositions;
use vcommon::enumerate::rgs;
use vcommon::machinery_failure;

// ---------------------------------------------------------------------------------------
// Case description
// ---------------------------------------------------------------------------------------

#[derive(Clone, Debug, serde::Serialize, serde::Deserialize)]
struct Case {
    /// Number of chain commits written in a first transaction below the DAG (0 or 6).
    prefix: usize,
    /// DAG parents (indices into the DAG; an empty list = child of the prefix tip / root).
    parents: Vec<Vec<usize>>,
    /// Sizes of consecutive transactions.
    chunks: Vec<usize>,
    /// `Some(j)`: transactions j and j+1 both start from the repo after transaction j-1.
    conc: Option<usize>,
    /// Concurrent pair only: the second transaction gets the earlier operation timestamp, so
    /// it becomes the base of the merge.
    swap: bool,
    /// Change-id class per DAG node (restricted growth string).
    change: Vec<u8>,
}

/// Reference model: parent table over model nodes. Node 0 is jj's root commit, nodes
/// 1..=prefix the prefix chain, the DAG nodes follow.
struct Model {
    parents: Vec<Vec<usize>>,
    /// change label per node (0 = root's all-zero change id)
    change: Vec<u16>,
}

impl Model {
    fn from_case(case: &Case) -> Model {
        let mut parents = vec![vec![]];
        let mut change = vec![0u16];
        // Prefix of 6 commits written in one transaction: three siblings 1, 2, 3 on the root, an
        // octopus merge 4 of them (overflow parent encoding inside a parent segment file), then
        // a chain 4 <- 5 <- 6.
        assert!(case.prefix == 0 || case.prefix == 6);
        if case.prefix == 6 {
            for pp in [vec![0], vec![0], vec![0], vec![1, 2, 3], vec![4], vec![5]] {
                parents.push(pp);
            }
            // the first prefix commit shares its change id with DAG class 0, the third and the
            // fifth share one (a change with two commits inside the base segment)
            change.extend([1u16, 102, 103, 104, 103, 106]);
        }
        let off = case.prefix + 1;
        for (j, ps) in case.parents.iter().enumerate() {
            if ps.is_empty() {
                parents.push(vec![case.prefix]);
            } else {
                parents.push(ps.iter().map(|p| p + off).collect());
            }
            change.push(1 + case.change[j] as u16);
        }
        Model { parents, change }
    }

    fn n(&self) -> usize {
        self.parents.len()
    }

    /// Reflexive ancestor masks by one topological pass.
    fn closure(&self) -> Vec<u64> {
        let mut anc = vec![0u64; self.n()];
        for i in 0..self.n() {
            let mut m = 1u64 << i;
            for &p in &self.parents[i] {
                assert!(p < i);
                m |= anc[p];
            }
            anc[i] = m;
        }
        anc
    }

    /// Second formulation: explicit path search.
    fn reaches(&self, from: usize, to: usize) -> bool {
        if from == to {
            return true;
        }
        self.parents[from].iter().any(|&p| self.reaches(p, to))
    }

    /// Longest path to the root.
    fn generation(&self) -> Vec<u32> {
        let mut g = vec![0u32; self.n()];
        for i in 0..self.n() {
            g[i] = self.parents[i].iter().map(|&p| g[p] + 1).max().unwrap_or(0);
        }
        g
    }
}

fn change_id_for(label: u16) -> ChangeId {
    // 16 bytes. Labels are spread so that some ids share the first hex digit / byte.
    if label == 0 {
        return ChangeId::new(vec![0; 16]);
    }
    let first = match label {
        1 => 0x11,
        2 => 0x12,
        3 => 0x21,
        4 => 0x2f,
        5 => 0x30,
        6 => 0xf0,
        l => 0x80 + (l % 64) as u8,
    };
    let mut v = vec![first];
    v.push((label >> 8) as u8);
    v.push((label & 0xff) as u8);
    v.resize(16, 0xab);
    ChangeId::new(v)
}

// ---------------------------------------------------------------------------------------
// Oracle
// ---------------------------------------------------------------------------------------

type Fail = (String, String);

struct ViewStats {
    queries: u64,
}

/// Subsets of `q` with 1..=2 elements.
fn small_subsets(q: &[usize]) -> Vec<Vec<usize>> {
    let mut out = vec![];
    for (i, &a) in q.iter().enumerate() {
        out.push(vec![a]);
        for &b in &q[i + 1..] {
            out.push(vec![a, b]);
        }
    }
    out
}

fn mask_of(nodes: &[usize]) -> u64 {
    nodes.iter().fold(0, |m, &x| m | 1u64 << x)
}

fn nodes_of(mask: u64) -> Vec<usize> {
    (0..64).filter(|&i| mask >> i & 1 == 1).collect()
}

/// Maximal elements (w.r.t. ancestry) of the node set `mask`.
fn ref_heads(anc: &[u64], mask: u64) -> u64 {
    let mut out = 0;
    for x in nodes_of(mask) {
        let dominated = nodes_of(mask).into_iter().any(|y| y != x && anc[y] >> x & 1 == 1);
        if !dominated {
            out |= 1 << x;
        }
    }
    out
}

/// Where change-id indexes come from (readonly or mutable index).
enum CixSource<'a> {
    Readonly(&'a dyn ReadonlyIndex),
    Mutable(&'a dyn MutableIndex),
}

impl<'a> CixSource<'a> {
    fn get(&self, heads: &[CommitId]) -> Box<dyn ChangeIdIndex + 'a> {
        match self {
            CixSource::Readonly(ix) => ix.change_id_index(&mut heads.iter()),
            CixSource::Mutable(ix) => ix.change_id_index(&mut heads.iter()),
        }
    }
}

struct Oracle<'a> {
    model: &'a Model,
    anc: &'a [u64],
    generation: &'a [u32],
    /// commit id per model node (None = not written yet)
    ids: &'a [Option<CommitId>],
    id_to_node: BTreeMap<CommitId, usize>,
}

impl<'a> Oracle<'a> {
    fn node_of(&self, id: &CommitId) -> Option<usize> {
        self.id_to_node.get(id).copied()
    }

    fn to_mask(&self, ids: &[CommitId], what: &str, view: &str) -> Result<u64, Fail> {
        let mut m = 0;
        for id in ids {
            match self.node_of(id) {
                Some(n) => m |= 1u64 << n,
                None => {
                    return Err((
                        format!("C18/{what}/unknown-commit"),
                        format!("{view}: {what} returned an id that is not in the graph: {}", id.hex()),
                    ));
                }
            }
        }
        Ok(m)
    }

    /// Checks one view of the index. `known` = model nodes this view must contain.
    fn check_view(
        &self,
        view: &str,
        known: &[usize],
        query_nodes: &[usize],
        index: &dyn Index,
        change_index: &CixSource<'_>,
        readonly: Option<&DefaultReadonlyIndex>,
        stats: &mut ViewStats,
    ) -> Result<(), Fail> {
        let anc = self.anc;
        let id = |n: usize| self.ids[n].clone().expect("known node has an id");
        let known_mask = mask_of(known);
        let vk = view_kind(view);

        // has_id
        for n in 0..self.model.n() {
            let Some(cid) = &self.ids[n] else { continue };
            let got = index.has_id(cid).block_on().map_err(|e| err_fail("has_id", view, e))?;
            stats.queries += 1;
            let want = known_mask >> n & 1 == 1;
            if got != want {
                return Err((
                    format!("C18/has_id/{vk}"),
                    format!("{view}: has_id(node {n}) = {got}, graph says {want}"),
                ));
            }
        }
        let absent = CommitId::new(vec![0xee; self.ids[0].as_ref().unwrap().as_bytes().len()]);
        if index.has_id(&absent).block_on().map_err(|e| err_fail("has_id", view, e))? {
            return Err((format!("C18/has_id/{vk}"), format!("{view}: has_id(absent id) = true")));
        }

        // is_ancestor, all ordered pairs of query nodes
        for &a in query_nodes {
            for &d in query_nodes {
                let got = index
                    .is_ancestor(&id(a), &id(d))
                    .block_on()
                    .map_err(|e| err_fail("is_ancestor", view, e))?;
                stats.queries += 1;
                let want = anc[d] >> a & 1 == 1;
                if got != want {
                    return Err((
                        format!("C18/is_ancestor/{vk}"),
                        format!("{view}: is_ancestor(node {a}, node {d}) = {got}, graph says {want}"),
                    ));
                }
            }
        }

        // common_ancestors for all pairs of 1..2-subsets (+ a duplicated element)
        let subsets = small_subsets(query_nodes);
        for s1 in &subsets {
            for s2 in &subsets {
                let mut ids1: Vec<CommitId> = s1.iter().map(|&n| id(n)).collect();
                let ids2: Vec<CommitId> = s2.iter().map(|&n| id(n)).collect();
                if s1.len() == 2 && s2.len() == 1 {
                    // also exercise duplicates in an input set
                    ids1.push(ids1[0].clone());
                }
                let got = index
                    .common_ancestors(&ids1, &ids2)
                    .block_on()
                    .map_err(|e| err_fail("common_ancestors", view, e))?;
                stats.queries += 1;
                let got_mask = self.to_mask(&got, "common_ancestors", view)?;
                let a1 = s1.iter().fold(0u64, |m, &n| m | anc[n]);
                let a2 = s2.iter().fold(0u64, |m, &n| m | anc[n]);
                let want = ref_heads(anc, a1 & a2);
                if got_mask != want {
                    return Err((
                        format!("C18/common_ancestors/{vk}"),
                        format!(
                            "{view}: common_ancestors({s1:?}, {s2:?}) = {:?}, graph says {:?}",
                            nodes_of(got_mask),
                            nodes_of(want)
                        ),
                    ));
                }
            }
        }

        // heads(S) for every subset S of the query nodes
        let q = query_nodes.len();
        for bits in 0u64..(1 << q) {
            let s: Vec<usize> = (0..q).filter(|&i| bits >> i & 1 == 1).map(|i| query_nodes[i]).collect();
            let mut cand: Vec<CommitId> = s.iter().map(|&n| id(n)).collect();
            if s.len() >= 2 {
                cand.push(cand[0].clone()); // duplicate candidate: must appear at most once
            }
            let got = index
                .heads(&mut cand.iter())
                .block_on()
                .map_err(|e| err_fail("heads", view, e))?;
            stats.queries += 1;
            let got_mask = self.to_mask(&got, "heads", view)?;
            let want = ref_heads(anc, mask_of(&s));
            let distinct: BTreeSet<&CommitId> = got.iter().collect();
            if got_mask != want || distinct.len() != got.len() {
                return Err((
                    format!("C18/heads/{vk}"),
                    format!(
                        "{view}: heads({s:?}) = {:?} ({} ids), graph says {:?}",
                        nodes_of(got_mask),
                        got.len(),
                        nodes_of(want)
                    ),
                ));
            }
        }

        // all_heads_for_gc = heads of everything indexed
        {
            let got: Vec<CommitId> = index
                .all_heads_for_gc()
                .map_err(|e| err_fail("all_heads_for_gc", view, e))?
                .collect();
            stats.queries += 1;
            let got_mask = self.to_mask(&got, "all_heads_for_gc", view)?;
            let want = ref_heads(anc, known_mask);
            if got_mask != want {
                return Err((
                    format!("C18/all_heads_for_gc/{vk}"),
                    format!(
                        "{view}: all_heads_for_gc = {:?}, graph heads are {:?}",
                        nodes_of(got_mask),
                        nodes_of(want)
                    ),
                ));
            }
        }

        // generation numbers and statistics (only offered by the readonly index)
        if let Some(ro) = readonly {
            for &n in known {
                let got = ro.generation_number(&id(n));
                stats.queries += 1;
                if got != Some(self.generation[n]) {
                    return Err((
                        format!("C18/generation_number/{vk}"),
                        format!(
                            "{view}: generation_number(node {n}) = {got:?}, longest path to root is {}",
                            self.generation[n]
                        ),
                    ));
                }
            }
            let st = ro.stats();
            stats.queries += 1;
            let want_merges = known.iter().filter(|&&n| self.model.parents[n].len() > 1).count() as u32;
            let want_maxgen = known.iter().map(|&n| self.generation[n]).max().unwrap_or(0);
            let want_heads = ref_heads(anc, known_mask).count_ones();
            let want_changes =
                known.iter().map(|&n| self.model.change[n]).collect::<BTreeSet<_>>().len() as u32;
            let got = (st.num_commits, st.num_merges, st.max_generation_number, st.num_heads, st.num_changes);
            let want = (known.len() as u32, want_merges, want_maxgen, want_heads, want_changes);
            if got != want {
                return Err((
                    format!("C18/stats/{vk}"),
                    format!(
                        "{view}: stats (commits, merges, max_generation, heads, changes) = {got:?}, graph says {want:?}"
                    ),
                ));
            }
            let level_sum: u32 = st.commit_levels.iter().map(|l| l.num_commits).sum();
            if level_sum != st.num_commits {
                return Err((
                    format!("C18/stats/{vk}"),
                    format!("{view}: segment sizes {:?} do not add up to {}", st.commit_levels, st.num_commits),
                ));
            }
        }

        // change ids: for several choices of visible heads
        let all_heads = nodes_of(ref_heads(anc, known_mask));
        let mut head_sets: Vec<Vec<usize>> = vec![all_heads];
        head_sets.extend(small_subsets(query_nodes));
        let labels: BTreeSet<u16> = known.iter().map(|&n| self.model.change[n]).collect();
        for (hi, hs) in head_sets.iter().enumerate() {
            let head_ids: Vec<CommitId> = hs.iter().map(|&n| id(n)).collect();
            let cix = change_index.get(&head_ids);
            let visible = hs.iter().fold(0u64, |m, &n| m | anc[n]);
            for &label in &labels {
                let cid = change_id_for(label);
                let hex = cid.hex();
                let members: Vec<usize> =
                    known.iter().copied().filter(|&n| self.model.change[n] == label).collect();
                // short (possibly ambiguous) prefixes only with the first head set
                let lens: &[usize] = if hi == 0 { &[32, 1, 2] } else { &[32] };
                for &len in lens {
                    let prefix = HexPrefix::try_from_hex(&hex[..len]).unwrap();
                    let got = cix
                        .resolve_prefix(&prefix)
                        .block_on()
                        .map_err(|e| err_fail("resolve_prefix", view, e))?;
                    stats.queries += 1;
                    let matching: BTreeSet<u16> = labels
                        .iter()
                        .copied()
                        .filter(|&l| change_id_for(l).hex().starts_with(&hex[..len]))
                        .collect();
                    match got {
                        PrefixResolution::NoMatch => {
                            return Err((
                                format!("C18/change_id/no-match/{vk}"),
                                format!("{view}: change-id prefix {} of an indexed change gives NoMatch", &hex[..len]),
                            ));
                        }
                        PrefixResolution::AmbiguousMatch => {
                            if matching.len() < 2 {
                                return Err((
                                    format!("C18/change_id/ambiguous/{vk}"),
                                    format!(
                                        "{view}: change-id prefix {} is ambiguous, but only change {label} has it",
                                        &hex[..len]
                                    ),
                                ));
                            }
                        }
                        PrefixResolution::SingleMatch(targets) => {
                            if matching.len() != 1 {
                                return Err((
                                    format!("C18/change_id/single/{vk}"),
                                    format!(
                                        "{view}: change-id prefix {} resolves uniquely, but {} changes have it",
                                        &hex[..len],
                                        matching.len()
                                    ),
                                ));
                            }
                            let mut seen = 0u64;
                            for (tid, state) in &targets.targets {
                                let Some(n) = self.node_of(tid) else {
                                    return Err((
                                        format!("C18/change_id/unknown-commit/{vk}"),
                                        format!("{view}: change {label} resolves to an unknown commit"),
                                    ));
                                };
                                if seen >> n & 1 == 1 || !members.contains(&n) {
                                    return Err((
                                        format!("C18/change_id/wrong-target/{vk}"),
                                        format!(
                                            "{view}: change {label} (commits {members:?}) resolves to node {n} \
                                             (duplicate or other change); heads {hs:?}"
                                        ),
                                    ));
                                }
                                seen |= 1 << n;
                                let want_visible = visible >> n & 1 == 1;
                                if (*state == ResolvedChangeState::Visible) != want_visible {
                                    return Err((
                                        format!("C18/change_id/visibility/{vk}"),
                                        format!(
                                            "{view}: change {label} target node {n} is reported {state:?} with \
                                             heads {hs:?}; reachable = {want_visible}"
                                        ),
                                    ));
                                }
                            }
                            // all visible commits of the change must be included
                            for &m in &members {
                                if visible >> m & 1 == 1 && seen >> m & 1 == 0 {
                                    return Err((
                                        format!("C18/change_id/missing-visible/{vk}"),
                                        format!(
                                            "{view}: change {label}: visible commit node {m} missing from \
                                             targets {:?}; heads {hs:?}",
                                            nodes_of(seen)
                                        ),
                                    ));
                                }
                            }
                        }
                    }
                }
            }
        }
        Ok(())
    }
}

fn view_kind(view: &str) -> &str {
    view.split(':').next().unwrap_or(view)
}

fn err_fail(what: &str, view: &str, e: impl std::fmt::Debug) -> Fail {
    (format!("C18/{what}/error"), format!("{view}: {what} returned an error: {e:?}"))
}

// ---------------------------------------------------------------------------------------
// Driver: builds the history with the real API
// ---------------------------------------------------------------------------------------

struct Env {
    /// settings with `debug.operation-timestamp` = logical time k
    settings: Vec<UserSettings>,
}

impl Env {
    fn new() -> Env {
        let mut settings = vec![];
        for k in 0..24 {
            let mut config = testutils::base_user_config();
            let text = format!("debug.operation-timestamp = \"2001-02-03T04:05:{:02}+00:00\"\n", k);
            config.add_layer(ConfigLayer::parse(ConfigSource::CommandArg, &text).unwrap());
            settings.push(UserSettings::from_config(config).unwrap());
        }
        Env { settings }
    }
}

#[derive(Default)]
struct CaseOutcome {
    views: u64,
    queries: u64,
    /// segment layout after every transaction / merge (sizes, oldest first)
    layouts: Vec<Vec<u32>>,
    squashes: u64,
    max_levels: usize,
    merged_ops: u64,
    /// canonical keys of the states visited (graph shape + layout)
    state_keys: Vec<u64>,
    /// number of transactions + merges executed
    transitions: u64,
    octopus_below_top: bool,
}

fn sig(ts: i64) -> Signature {
    Signature {
        name: "verif".into(),
        email: "verif@example.com".into(),
        timestamp: Timestamp { timestamp: MillisSinceEpoch(ts * 1000), tz_offset: 0 },
    }
}

fn write_node(
    mut_repo: &mut MutableRepo,
    model: &Model,
    ids: &mut [Option<CommitId>],
    node: usize,
) -> Result<(), Fail> {
    let parents: Vec<CommitId> = model.parents[node]
        .iter()
        .map(|&p| ids[p].clone().expect("parent written before child"))
        .collect();
    let tree = mut_repo.store().empty_merged_tree();
    let commit = mut_repo
        .new_commit(parents, tree)
        .set_change_id(change_id_for(model.change[node]))
        .set_description(format!("node {node}"))
        .set_author(sig(1_000_000 + node as i64))
        .set_committer(sig(1_000_000 + node as i64))
        .write()
        .block_on()
        .map_err(|e| ("C18/write/error".to_string(), format!("writing node {node}: {e:?}")))?;
    if let Some(old) = &ids[node] {
        if old != commit.id() {
            machinery_failure("commit ids are not a function of the history");
        }
    }
    ids[node] = Some(commit.id().clone());
    Ok(())
}

fn levels(repo: &Arc<ReadonlyRepo>) -> Vec<u32> {
    let ro: &DefaultReadonlyIndex = repo.readonly_index().downcast_ref().expect("default index");
    ro.stats().commit_levels.iter().map(|l| l.num_commits).collect()
}

/// Isomorphism-invariant hash of the sub-graph on `known`, plus layout.
fn state_key(model: &Model, known: &[usize], layout: &[u32], kind: u8) -> u64 {
    let mut h = vec![0u64; model.n()];
    let mut multiset = vec![];
    for &n in known {
        let mut ph: Vec<u64> = model.parents[n].iter().map(|&p| h[p]).collect();
        ph.sort();
        let mut bytes = vec![];
        // change class is part of the state only up to "shares with an ancestor / sibling":
        // we keep the raw label, which over-distinguishes (harmless for counting).
        bytes.extend(model.change[n].to_le_bytes());
        for x in ph {
            bytes.extend(x.to_le_bytes());
        }
        h[n] = vcommon::fnv(&bytes);
        multiset.push(h[n]);
    }
    multiset.sort();
    let mut bytes = vec![kind];
    for x in multiset {
        bytes.extend(x.to_le_bytes());
    }
    bytes.push(0xff);
    for l in layout {
        bytes.extend(l.to_le_bytes());
    }
    vcommon::fnv(&bytes)
}

fn run_case(env: &Env, case: &Case, extra_views: bool) -> Result<CaseOutcome, Fail> {
    let model = Model::from_case(case);
    let anc = model.closure();
    // self-check of the reference (second formulation)
    for a in 0..model.n() {
        for d in 0..model.n() {
            if (anc[d] >> a & 1 == 1) != model.reaches(d, a) {
                machinery_failure("reference closure and path search disagree");
            }
        }
    }
    let generation = model.generation();
    let mut out = CaseOutcome::default();
    let mut stats = ViewStats { queries: 0 };

    let test_repo = TestRepo::init_with_backend(testutils::TestRepoBackend::Simple);
    let mut ids: Vec<Option<CommitId>> = vec![None; model.n()];
    ids[0] = Some(test_repo.repo.store().root_commit_id().clone());
    let mut repo = test_repo.repo.clone();
    let mut known: Vec<usize> = vec![0];
    let off = case.prefix + 1;
    let dag_nodes: Vec<usize> = (off..model.n()).collect();
    // nodes used as query arguments: root, middle and tip of the prefix, all DAG nodes
    let mut query_pool: Vec<usize> = vec![0];
    if case.prefix > 0 {
        query_pool.extend([2, 4, case.prefix]);
    }
    query_pool.extend(dag_nodes.iter().copied());
    query_pool.sort();
    query_pool.dedup();

    let mut clock = 0usize;
    let mut next_settings = |env: &Env| -> UserSettings {
        clock += 1;
        env.settings[clock].clone()
    };

    macro_rules! check {
        ($view:expr, $known:expr, $index:expr, $cix:expr, $ro:expr) => {{
            let view: String = $view;
            let known: &[usize] = $known;
            let q: Vec<usize> = query_pool.iter().copied().filter(|n| known.contains(n)).collect();
            let oracle = Oracle {
                model: &model,
                anc: &anc,
                generation: &generation,
                ids: &ids,
                id_to_node: ids
                    .iter()
                    .enumerate()
                    .filter_map(|(n, id)| id.clone().map(|id| (id, n)))
                    .collect(),
            };
            out.views += 1;
            let r = catch(|| oracle.check_view(&view, known, &q, $index, $cix, $ro, &mut stats));
            match r {
                Ok(Ok(())) => {}
                Ok(Err(f)) => return Err(f),
                Err(p) => {
                    return Err((
                        format!("C18/panic/query/{}", view_kind(&view)),
                        format!("{view}: panic while querying: {p}"),
                    ));
                }
            }
        }};
    }

    // closure that checks a ReadonlyRepo view
    macro_rules! check_readonly {
        ($view:expr, $repo:expr, $known:expr) => {{
            let r: &Arc<ReadonlyRepo> = $repo;
            let ro: &DefaultReadonlyIndex =
                r.readonly_index().downcast_ref().expect("default readonly index");
            let cix = CixSource::Readonly(r.readonly_index());
            check!($view, $known, r.index(), &cix, Some(ro));
        }};
    }

    macro_rules! check_mutable {
        ($view:expr, $tx:expr, $known:expr) => {{
            let t: &Transaction = $tx;
            let cix = CixSource::Mutable(t.repo().mutable_index());
            check!($view, $known, t.repo().index(), &cix, None);
        }};
    }

    let mut record_state = |out: &mut CaseOutcome, repo: &Arc<ReadonlyRepo>, known: &[usize], model: &Model| {
        let layout = levels(repo);
        if let Some(prev) = out.layouts.last() {
            if layout.len() <= prev.len() && layout.iter().sum::<u32>() > prev.iter().sum::<u32>() {
                out.squashes += 1;
            }
        }
        out.max_levels = out.max_levels.max(layout.len());
        out.state_keys.push(state_key(model, known, &layout, 0));
        out.layouts.push(layout);
        out.transitions += 1;
    };

    // prefix transaction
    if case.prefix > 0 {
        let mut tx = Transaction::new(
            MutableRepo::new(repo.clone(), repo.readonly_index(), repo.view()),
            &next_settings(env),
        );
        for node in 1..=case.prefix {
            write_node(tx.repo_mut(), &model, &mut ids, node)?;
            known.push(node);
        }
        repo = tx
            .commit("prefix")
            .block_on()
            .map_err(|e| ("C18/commit/error".to_string(), format!("{e:?}")))?;
        record_state(&mut out, &repo, &known, &model);
    }

    // chunk boundaries
    let mut chunk_nodes: Vec<Vec<usize>> = vec![];
    let mut next = off;
    for &c in &case.chunks {
        chunk_nodes.push((next..next + c).collect());
        next += c;
    }
    if next != model.n() {
        machinery_failure("chunks do not cover the DAG");
    }

    let mut j = 0;
    while j < chunk_nodes.len() {
        if case.conc == Some(j) {
            // two concurrent transactions from the same base
            let s1 = next_settings(env);
            let s2 = next_settings(env);
            let (s1, s2) = if case.swap { (s2, s1) } else { (s1, s2) };
            let mut tx1 =
                Transaction::new(MutableRepo::new(repo.clone(), repo.readonly_index(), repo.view()), &s1);
            let mut tx2 =
                Transaction::new(MutableRepo::new(repo.clone(), repo.readonly_index(), repo.view()), &s2);
            let mut known1 = known.clone();
            let mut known2 = known.clone();
            for &node in &chunk_nodes[j] {
                write_node(tx1.repo_mut(), &model, &mut ids, node)?;
                known1.push(node);
            }
            for &node in &chunk_nodes[j + 1] {
                write_node(tx2.repo_mut(), &model, &mut ids, node)?;
                known2.push(node);
            }
            check_mutable!(format!("mutable:conc-a:tx{j}"), &tx1, &known1);
            check_mutable!(format!("mutable:conc-b:tx{}", j + 1), &tx2, &known2);
            let loader = repo.loader().clone();
            let r1 = tx1
                .commit("conc a")
                .block_on()
                .map_err(|e| ("C18/commit/error".to_string(), format!("{e:?}")))?;
            check_readonly!(format!("readonly:conc-a:tx{j}"), &r1, &known1);
            record_state(&mut out, &r1, &known1, &model);
            let r2 = tx2
                .commit("conc b")
                .block_on()
                .map_err(|e| ("C18/commit/error".to_string(), format!("{e:?}")))?;
            check_readonly!(format!("readonly:conc-b:tx{}", j + 1), &r2, &known2);
            record_state(&mut out, &r2, &known2, &model);
            known.extend(chunk_nodes[j].iter().copied());
            known.extend(chunk_nodes[j + 1].iter().copied());
            known.sort();
            let merged = catch(|| loader.load_at_head().block_on())
                .map_err(|p| ("C18/panic/merge".to_string(), format!("load_at_head (index merge) panicked: {p}")))?
                .map_err(|e| ("C18/merge/error".to_string(), format!("load_at_head failed: {e:?}")))?;
            if merged.operation().parent_ids().len() != 2 {
                machinery_failure("concurrent transactions did not produce a merge operation");
            }
            out.merged_ops += 1;
            repo = merged;
            check_readonly!(format!("merged:after-tx{}", j + 1), &repo, &known);
            record_state(&mut out, &repo, &known, &model);
            j += 2;
        } else {
            let mut tx = Transaction::new(
                MutableRepo::new(repo.clone(), repo.readonly_index(), repo.view()),
                &next_settings(env),
            );
            for &node in &chunk_nodes[j] {
                let r = catch(|| write_node(tx.repo_mut(), &model, &mut ids, node));
                match r {
                    Ok(r) => r?,
                    Err(p) => {
                        return Err(("C18/panic/write".to_string(), format!("writing node {node} panicked: {p}")));
                    }
                }
                known.push(node);
            }
            check_mutable!(format!("mutable:tx{j}"), &tx, &known);
            let committed = catch(|| tx.commit("tx").block_on())
                .map_err(|p| ("C18/panic/commit".to_string(), format!("commit of tx{j} panicked: {p}")))?
                .map_err(|e| ("C18/commit/error".to_string(), format!("{e:?}")))?;
            repo = committed;
            check_readonly!(format!("readonly:tx{j}"), &repo, &known);
            record_state(&mut out, &repo, &known, &model);
            j += 1;
        }
    }

    // is an octopus merge stored in a segment that is not the top one?
    {
        let layout = out.layouts.last().cloned().unwrap_or_default();
        let mut below: u32 = if layout.len() >= 2 { layout[..layout.len() - 1].iter().sum() } else { 0 };
        if case.conc.is_some() && case.prefix == 0 {
            below = 0; // positions after an index merge are not creation order
        }
        for (pos, &n) in known.iter().enumerate() {
            if (pos as u32) < below.min(if case.conc.is_some() { 7 } else { u32::MAX })
                && model.parents[n].len() > 2
            {
                out.octopus_below_top = true;
            }
        }
    }

    // fresh load from disk (new loader, new store objects, segment files parsed again)
    let settings = testutils::user_settings();
    let fresh = catch(|| test_repo.env.load_repo_at_head(&settings, test_repo.repo_path()))
        .map_err(|p| ("C18/panic/reload".to_string(), format!("loading the repo from disk panicked: {p}")))?;
    if fresh.op_id() != repo.op_id() {
        machinery_failure("fresh load is at a different operation");
    }
    check_readonly!("reloaded:final".to_string(), &fresh, &known);
    if levels(&fresh) != *out.layouts.last().unwrap() {
        return Err((
            "C18/reload/layout".to_string(),
            format!("segment layout after reload {:?} differs from {:?}", levels(&fresh), out.layouts.last()),
        ));
    }

    if extra_views {
        // drop all segment files and operation links, rebuild the index from the operation log
        let store: &DefaultIndexStore = fresh.index_store().downcast_ref().expect("default index store");
        store.reinit().map_err(|e| ("C18/reinit/error".to_string(), format!("{e:?}")))?;
        let rebuilt = catch(|| test_repo.env.load_repo_at_head(&settings, test_repo.repo_path()))
            .map_err(|p| ("C18/panic/reindex".to_string(), format!("re-indexing panicked: {p}")))?;
        check_readonly!("reindexed:final".to_string(), &rebuilt, &known);
    }

    out.queries = stats.queries;
    Ok(out)
}

// ---------------------------------------------------------------------------------------
// Enumeration
// ---------------------------------------------------------------------------------------

fn change_patterns(n: usize, all: bool) -> Vec<Vec<u8>> {
    let mut out = vec![];
    if all {
        rgs(n, |p| out.push(p.to_vec()));
        return out;
    }
    // all distinct, all equal, first = last, last two equal
    let mut set: BTreeSet<Vec<u8>> = BTreeSet::new();
    set.insert((0..n as u8).collect());
    set.insert(vec![0; n]);
    if n >= 3 {
        let mut v: Vec<u8> = (0..n as u8).collect();
        v[n - 1] = 0;
        set.insert(v);
        let mut v: Vec<u8> = (0..n as u8).collect();
        v[n - 1] = v[n - 2];
        set.insert(v);
    }
    out.extend(set);
    out
}

/// All transaction plans (composition x {sequential, each admissible concurrent pair}) x
/// prefixes x change patterns for one DAG.
fn cases_for_dag(
    parents: &[Vec<usize>],
    prefixes: &[usize],
    patterns: &[Vec<u8>],
    conc_swap: bool,
    cases: &mut Vec<Case>,
) {
    for chunks in &compositions(parents.len()) {
        // transaction plans: sequential, or one concurrent pair (j, j+1)
        let mut plans: Vec<(Option<usize>, bool)> = vec![(None, false)];
        let mut start = 0;
        let mut bounds = vec![];
        for &c in chunks {
            bounds.push((start, start + c));
            start += c;
        }
        for j in 0..chunks.len().saturating_sub(1) {
            let (a0, a1) = bounds[j];
            let (b0, b1) = bounds[j + 1];
            let independent = (b0..b1).all(|node| parents[node].iter().all(|&p| !(a0..a1).contains(&p)));
            if independent {
                plans.push((Some(j), false));
                if conc_swap {
                    plans.push((Some(j), true));
                }
            }
        }
        for &(conc, swap) in &plans {
            for &prefix in prefixes {
                for pat in patterns {
                    cases.push(Case {
                        prefix,
                        parents: parents.to_vec(),
                        chunks: chunks.clone(),
                        conc,
                        swap,
                        change: pat.clone(),
                    });
                }
            }
        }
    }
}

fn enumerate_cases(
    max_n: usize,
    max_parents: usize,
    prefixes: &[usize],
    all_patterns_up_to: usize,
    conc_swap: bool,
) -> Vec<Case> {
    let mut cases = vec![];
    for n in 1..=max_n {
        let patterns = change_patterns(n, n <= all_patterns_up_to);
        for dag in &all_dags(n, max_parents) {
            cases_for_dag(&dag.parents, prefixes, &patterns, conc_swap, &mut cases);
        }
    }
    cases
}

/// "Two chains" family: a chain of x commits off the root, then a chain of y commits that
/// forks from the root or from the first commit of the first chain, for every (x, y) that is
/// (a, b) or (b, a) with a in 1..=3, b in 2..=3, i.e. the long chain indexed before the short
/// one and the reverse. Later commits (higher index positions) then have *lower* generation
/// numbers than earlier ones. Every composition into transactions, every admissible concurrent
/// pair in both merge orders, all-distinct change ids. Only x + y >= 5 is generated here: the
/// smaller members are already part of the all-DAGs enumeration for n <= 4.
fn two_chain_cases() -> Vec<Case> {
    let mut cases = vec![];
    let mut seen: BTreeSet<(usize, usize)> = BTreeSet::new();
    for a in 1..=3usize {
        for b in 2..=3usize {
            for (x, y) in [(a, b), (b, a)] {
                if x + y < 5 || !seen.insert((x, y)) {
                    continue;
                }
                for fork_from_first in [false, true] {
                    let mut parents: Vec<Vec<usize>> = vec![];
                    for i in 0..x {
                        parents.push(if i == 0 { vec![] } else { vec![i - 1] });
                    }
                    for i in 0..y {
                        parents.push(if i == 0 {
                            if fork_from_first { vec![0] } else { vec![] }
                        } else {
                            vec![x + i - 1]
                        });
                    }
                    let pattern: Vec<u8> = (0..(x + y) as u8).collect();
                    cases_for_dag(&parents, &[0], &[pattern], true, &mut cases);
                }
            }
        }
    }
    cases
}

fn is_nontrivial(case: &Case, out: &CaseOutcome) -> bool {
    // more than one segment file was involved (stacked, squashed or merged) and the graph has
    // a merge commit or a shared change id
    let multi_segment = out.layouts.len() >= 2;
    let has_merge = case.parents.iter().any(|p| p.len() >= 2);
    let shared_change = {
        let s: BTreeSet<u8> = case.change.iter().copied().collect();
        s.len() < case.change.len() || case.prefix > 0
    };
    multi_segment && (has_merge || shared_change)
}

fn main() {
    // TestBackend creates a tokio runtime per repository; keep it to one worker thread.
    // SAFETY: single-threaded at this point.
    unsafe { std::env::set_var("TOKIO_WORKER_THREADS", "1") };
    let ctx = Ctx::from_args("C18", Level::ModelChecking);
    vcommon::silence_panics();
    let env = Env::new();

    if let Some((_sig, case)) = ctx.replay_case() {
        let case: Case = serde_json::from_value(case)
            .unwrap_or_else(|e| machinery_failure(&format!("bad replay case: {e}")));
        match catch(|| run_case(&env, &case, true)) {
            Ok(Ok(_)) => {}
            Ok(Err((sig, msg))) => ctx.violation(&sig, msg, serde_json::to_value(&case).unwrap()),
            Err(p) => ctx.violation("C18/panic/other", p, serde_json::to_value(&case).unwrap()),
        }
        ctx.finish(Coverage { evaluations: 1, ..Default::default() });
    }

    // determinism gate: the same case twice must give the same observations
    {
        let probe = Case {
            prefix: 0,
            parents: vec![vec![], vec![], vec![0, 1]],
            chunks: vec![1, 1, 1],
            conc: Some(0),
            swap: false,
            change: vec![0, 1, 0],
        };
        let a = run_case(&env, &probe, true);
        let b = run_case(&env, &probe, true);
        match (a, b) {
            (Ok(a), Ok(b)) => {
                if a.layouts != b.layouts || a.queries != b.queries || a.state_keys != b.state_keys {
                    machinery_failure("replaying the probe history twice gave different observations");
                }
            }
            (Err(a), Err(b)) if a.0 == b.0 => {}
            _ => machinery_failure("replaying the probe history twice gave different verdicts"),
        }
    }

    // bounds
    let cases: Vec<Case> = if ctx.quick() {
        let mut v = enumerate_cases(4, 4, &[0], 3, false);
        // with a 6-commit base segment (3 stacked files), all DAGs on <= 3 nodes, all plans
        v.extend(enumerate_cases(3, 3, &[6], 3, true));
        // and the N = 4 DAGs with the base segment for the all-distinct / all-equal patterns
        v.extend(
            enumerate_cases(4, 4, &[6], 0, false)
                .into_iter()
                .filter(|c| c.parents.len() == 4 && (c.change == vec![0, 1, 2, 3] || c.change == vec![0, 0, 0, 0])),
        );
        // two chains of 2..3 commits (5..6 commits in total), see two_chain_cases()
        v.extend(two_chain_cases());
        v
    } else {
        let mut v = enumerate_cases(4, 4, &[0, 6], 4, true);
        // N = 5, <= 4 parents, all compositions, all concurrent pairs in both merge orders,
        // 4 change patterns
        v.extend(enumerate_cases(5, 4, &[0], 0, true).into_iter().filter(|c| c.parents.len() == 5));
        // the 6-commit members of the two-chains family (the 5-commit ones are included above)
        v.extend(two_chain_cases().into_iter().filter(|c| c.parents.len() == 6));
        v
    };

    let evals = Counter::new();
    let nontrivial = Counter::new();
    let views = Counter::new();
    let queries = Counter::new();
    let transitions = Counter::new();
    let squashes = Counter::new();
    let merged_ops = Counter::new();
    let stacked2 = Counter::new();
    let stacked3 = Counter::new();
    let octopus = Counter::new();
    let octopus_below = Counter::new();
    let shared_across = Counter::new();
    let samples = Samples::new(6);
    let states: Mutex<HashSet<u64>> = Mutex::new(HashSet::new());
    let layouts_seen: Mutex<BTreeMap<String, u64>> = Mutex::new(BTreeMap::new());
    let extra_views = true;

    cases.par_iter().for_each(|case| {
        evals.inc();
        let case_json = || serde_json::to_value(case).unwrap();
        match catch(|| run_case(&env, case, extra_views)) {
            Ok(Ok(out)) => {
                views.add(out.views);
                queries.add(out.queries);
                transitions.add(out.transitions);
                squashes.add(out.squashes);
                merged_ops.add(out.merged_ops);
                if out.max_levels == 2 {
                    stacked2.inc();
                }
                if out.max_levels >= 3 {
                    stacked3.inc();
                }
                if case.parents.iter().any(|p| p.len() > 2) {
                    octopus.inc();
                }
                if out.octopus_below_top {
                    octopus_below.inc();
                }
                if case.prefix > 0 {
                    shared_across.inc();
                }
                if is_nontrivial(case, &out) {
                    nontrivial.inc();
                    if case.conc.is_some() && case.parents.len() >= 3 {
                        samples.offer(|| json!({"case": case_json(), "layouts": out.layouts}));
                    }
                }
                let mut st = states.lock().unwrap();
                st.extend(out.state_keys.iter().copied());
                drop(st);
                let mut ls = layouts_seen.lock().unwrap();
                if let Some(l) = out.layouts.last() {
                    *ls.entry(format!("{l:?}")).or_insert(0) += 1;
                }
            }
            Ok(Err((sig, msg))) => ctx.violation(&sig, msg, case_json()),
            Err(p) => ctx.violation("C18/panic/other", format!("panic: {p}"), case_json()),
        }
    });

    let states_n = states.lock().unwrap().len() as u64;
    let layouts: Value = json!(*layouts_seen.lock().unwrap());
    // vacuity gates
    if ctx.violation_count() == 0 {
        for (name, c) in [
            ("squashes", &squashes),
            ("merged_ops", &merged_ops),
            ("histories_with_2_stacked_segments", &stacked2),
            ("histories_with_3_stacked_segments", &stacked3),
            ("octopus_histories", &octopus),
        ] {
            if c.get() == 0 {
                machinery_failure(&format!("vacuous run: counter {name} is zero"));
            }
        }
    }
    let mut extra: BTreeMap<String, Value> = BTreeMap::new();
    extra.insert("views_checked".into(), json!(views.get()));
    extra.insert("index_queries".into(), json!(queries.get()));
    extra.insert("squashes_observed".into(), json!(squashes.get()));
    extra.insert("index_merges_of_concurrent_operations".into(), json!(merged_ops.get()));
    extra.insert("histories_with_2_stacked_segments".into(), json!(stacked2.get()));
    extra.insert("histories_with_3_or_more_stacked_segments".into(), json!(stacked3.get()));
    extra.insert("histories_with_octopus_merge".into(), json!(octopus.get()));
    extra.insert("histories_with_octopus_in_non_top_segment".into(), json!(octopus_below.get()));
    extra.insert("histories_with_change_id_spanning_segments".into(), json!(shared_across.get()));
    extra.insert("final_segment_layouts".into(), layouts);
    extra.insert(
        "bounds".into(),
        if ctx.quick() {
            json!("all DAGs n<=4 (<=4 parents) x all compositions x {sequential, every admissible concurrent pair} x change patterns (all for n<=3, 4 shapes for n=4), no prefix; + 6-commit base segment: all DAGs n<=3 x all plans x both merge orders x all patterns, and all DAGs n=4 x all plans x {all distinct, all equal}; + two-chains family: chains of x and y commits (x+y in 5..6, x,y in 2..3), second chain forking from the root or from the first commit of the first chain, all compositions x all concurrent pairs x both merge orders")
        } else {
            json!("all DAGs n<=4 (<=4 parents) x all compositions x all concurrent pairs x both merge orders x all change patterns x {no prefix, 6-commit base segment}; + all DAGs n=5 (<=4 parents) x all compositions x all concurrent pairs x both merge orders x 4 change patterns, no prefix; + the 6-commit two-chains family")
        },
    );
    let cov = Coverage {
        evaluations: evals.get(),
        distinct_nontrivial: nontrivial.get(),
        rule: "one evaluation = one history (prefix, DAG with topological numbering, transaction composition, \
               optional concurrent pair + merge order, change-id pattern), each generated once; every history \
               is checked on the mutable index before each commit, the readonly index after each transaction \
               and merge, after a fresh load from disk and after reinit + re-index. non-trivial = at least two \
               transactions (so segments were stacked, squashed or merged) and the graph has a merge commit or \
               a change id shared by several commits. states = distinct (isomorphism class of labelled graph, \
               segment layout) reached after a transaction or merge; transitions = transactions + merges executed"
            .into(),
        samples: samples.take(),
        exhaustive: true,
        states: Some(states_n),
        transitions: Some(transitions.get()),
        traces_validated_against_impl: Some(transitions.get()),
        extra,
        assumptions: vec![
            "TestBackend (in-memory commit store) is trusted; the index files are real files on tmpfs".into(),
            "target order of change-id resolution and order of returned id lists are not constrained".into(),
            "hidden commits may be omitted from change-id targets (allowed by the trait documentation)".into(),
        ],
    };
    ctx.finish(cov);
}

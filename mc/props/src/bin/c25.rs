//! C25 — Checkout never destroys files it does not own.
//!
//! Every history of the shape
//!   init -> check_out(T_old) [-> set_sparse_patterns(P)] -> user puts obstacles on disk
//!        [-> snapshot with everything new ignored] -> UPDATE_1 [[-> snapshot] -> UPDATE_2]
//! over a tree alphabet (files, executable, symlink, nested directories, file<->directory
//! replacement at the same name, a 3-sided conflict, the empty tree), every obstacle location
//! (every path either tree has and every parent directory of such a path, plus a sibling inside
//! a directory) and every obstacle kind (regular file, directory with a file in it, symlink to
//! a directory outside the workspace, symlink to a file outside, dangling symlink to the
//! outside), where an UPDATE is `check_out(T)` or `set_sparse_patterns(P)`, is executed on a
//! real `LocalWorkingCopy` (TestWorkspace, Simple backend, tmpfs).
//!
//! The oracle looks at each UPDATE as a transition (disk and jj's own tree before, disk
//! after) and does not predict what jj writes; it only says what jj must leave alone:
//!  * "tracked" = the path is in jj's working-copy tree (restricted to the sparse patterns)
//!    before the update; every file or symlink on disk at any other path is the user's
//!    (untracked or ignored) and must be the same inode with the same bytes, mode and mtime
//!    afterwards;
//!  * a file at a tracked path that the user changed since jj last wrote or snapshotted it must
//!    likewise survive if the update does not change that path's tree value;
//!  * if the new tree wants a path that is occupied by, or lies below, a user file, the update
//!    must succeed and report at least that many skipped paths;
//!  * the directory next to the workspace (the symlink targets) must be identical before and
//!    after, entry for entry.
//! Running as uid 0, permission-based obstacles cannot be produced and are left out.

use std::collections::BTreeMap;
use std::collections::BTreeSet;
use std::collections::HashSet;
use std::ffi::CString;
use std::os::unix::ffi::OsStrExt as _;
use std::os::unix::fs::MetadataExt as _;
use std::os::unix::fs::PermissionsExt as _;
use std::path::Path;
use std::path::PathBuf;
use std::sync::Mutex;

use jj_lib::backend::TreeValue;
use jj_lib::config::ConfigLayer;
use jj_lib::config::ConfigSource;
use jj_lib::conflict_labels::ConflictLabels;
use jj_lib::gitignore::GitIgnoreFile;
use jj_lib::matchers::EverythingMatcher;
use jj_lib::matchers::NothingMatcher;
use jj_lib::merge::Merge;
use jj_lib::merged_tree::MergedTree;
use jj_lib::repo::Repo as _;
use jj_lib::repo_path::RepoPath;
use jj_lib::repo_path::RepoPathBuf;
use jj_lib::settings::UserSettings;
use jj_lib::working_copy::CheckoutStats;
use jj_lib::working_copy::SnapshotOptions;
use pollster::FutureExt as _;
use rayon::prelude::*;
use serde_json::Value;
use serde_json::json;
use testutils::TestRepoBackend;
use testutils::TestTreeBuilder;
use testutils::TestWorkspace;
use testutils::commit_with_tree;
use testutils::repo_path;
use vcommon::Counter;
use vcommon::Coverage;
use vcommon::Ctx;
use vcommon::Level;
use vcommon::Samples;
use vcommon::catch;
use vcommon::fnv;
use vcommon::machinery_failure;

// ---------------------------------------------------------------------------------------
// trees

#[derive(Clone, Debug, PartialEq, Eq)]
enum Spec {
    File(&'static str, bool),
    Symlink(&'static str),
    /// side 1, base, side 2
    Conflict([&'static str; 3]),
}

type TreeSpec = BTreeMap<&'static str, Spec>;

const TREE_NAMES: [&str; 11] = ["T0", "T1", "T2", "T3", "T4", "T5", "T6", "T7", "T8", "T9", "T10"];

fn tree_spec(name: &str) -> TreeSpec {
    let mut t = TreeSpec::new();
    match name {
        "T0" => {}
        "T1" => {
            t.insert("f", Spec::File("1\n", false));
        }
        "T2" => {
            t.insert("f", Spec::File("22\n", false));
        }
        "T3" => {
            t.insert("d/c", Spec::File("1\n", false));
        }
        "T4" => {
            t.insert("d/c", Spec::File("22\n", false));
            t.insert("d/e", Spec::File("1\n", false));
        }
        "T5" => {
            t.insert("d", Spec::File("1\n", false));
        }
        "T6" => {
            t.insert("f", Spec::Symlink("tgt"));
        }
        "T7" => {
            t.insert("d/c/x", Spec::File("1\n", false));
        }
        "T8" => {
            t.insert("f", Spec::File("1\n", true));
        }
        "T9" => {
            t.insert("f", Spec::Conflict(["a\n", "b\n", "c\n"]));
        }
        // shares f with T1 and d/c with T3: updates between them leave a tracked path unchanged
        "T10" => {
            t.insert("f", Spec::File("1\n", false));
            t.insert("d/c", Spec::File("1\n", false));
        }
        // for the sparse family
        "S1" => {
            t.insert("f", Spec::File("1\n", false));
            t.insert("d/c", Spec::File("1\n", false));
            t.insert("d/e", Spec::File("1\n", false));
        }
        "S2" => {
            t.insert("f", Spec::File("22\n", false));
            t.insert("d/c", Spec::File("22\n", false));
        }
        // family E: conflicts at f and at d/c (each outside some pattern sets). L1 and L2 have
        // the same tree ids and differ only in their conflict labels (as after a rebase of
        // the conflicted commit), which makes check_out re-materialize the conflicted files.
        "L1" | "L2" => {
            t.insert("f", Spec::Conflict(["a\n", "b\n", "c\n"]));
            t.insert("d/c", Spec::Conflict(["a\n", "b\n", "c\n"]));
            t.insert("d/e", Spec::File("1\n", false));
        }
        other => machinery_failure(&format!("unknown tree {other}")),
    }
    t
}

fn tree_labels(name: &str) -> Option<[&'static str; 3]> {
    match name {
        "L1" => Some(["side one", "the base", "side two"]),
        "L2" => Some(["rebased side one", "rebased base", "rebased side two"]),
        _ => None,
    }
}

fn tree_spec_json(name: &str) -> Value {
    if let Some(labels) = tree_labels(name) {
        return json!({"paths": tree_spec_json_paths(name), "conflict_labels_side1_base_side2": labels});
    }
    tree_spec_json_paths(name)
}

fn tree_spec_json_paths(name: &str) -> Value {
    Value::Object(
        tree_spec(name)
            .iter()
            .map(|(p, s)| {
                (
                    p.to_string(),
                    match s {
                        Spec::File(c, x) => json!({"file": c, "executable": x}),
                        Spec::Symlink(t) => json!({"symlink": t}),
                        Spec::Conflict(t) => json!({"conflict_side1_base_side2": t}),
                    },
                )
            })
            .collect(),
    )
}

fn build_tree(ws: &TestWorkspace, name: &str) -> MergedTree {
    let store = ws.repo.store().clone();
    let spec = tree_spec(name);
    let has_conflict = spec.values().any(|s| matches!(s, Spec::Conflict(_)));
    let build_term = |term: usize| {
        let mut b = TestTreeBuilder::new(store.clone());
        for (p, s) in &spec {
            match s {
                Spec::File(c, x) => {
                    b.file(repo_path(p), c).executable(*x);
                }
                Spec::Symlink(t) => b.symlink(repo_path(p), t),
                Spec::Conflict(terms) => {
                    b.file(repo_path(p), terms[term]);
                }
            }
        }
        b.write_single_tree().id().clone()
    };
    if !has_conflict {
        return MergedTree::resolved(store.clone(), build_term(0));
    }
    let ids = vec![build_term(0), build_term(1), build_term(2)];
    let labels = match tree_labels(name) {
        Some(l) => ConflictLabels::from_vec(l.iter().map(|s| s.to_string()).collect()),
        None => ConflictLabels::unlabeled(),
    };
    let tree = MergedTree::new(store.clone(), Merge::from_vec(ids), labels.clone())
        .resolve()
        .block_on()
        .unwrap_or_else(|e| machinery_failure(&format!("resolve: {e}")));
    if tree.tree_ids().is_resolved() || tree.tree_ids().num_sides() != 2 {
        machinery_failure("the conflicted tree of the alphabet resolved");
    }
    if tree.labels() != &labels {
        machinery_failure(&format!("resolve() changed the conflict labels of {name}: {:?}", tree.labels()));
    }
    tree
}

/// path -> opaque value; two trees have the same value at a path iff the strings are equal
fn render_tree(tree: &MergedTree) -> BTreeMap<String, String> {
    let mut m = BTreeMap::new();
    for (path, value) in tree.entries() {
        let value = value.unwrap_or_else(|e| machinery_failure(&format!("tree entry: {e}")));
        let p = path.as_internal_file_string().to_string();
        let s = match value.as_resolved() {
            Some(Some(TreeValue::File { id, executable, .. })) => format!(
                "file{}:{:?}",
                if *executable { "(x)" } else { "" },
                String::from_utf8_lossy(&testutils::read_file(tree.store(), &path, id))
            ),
            Some(Some(TreeValue::Symlink(id))) => format!(
                "symlink:{}",
                tree.store()
                    .read_symlink(&path, id)
                    .block_on()
                    .unwrap_or_else(|e| machinery_failure(&format!("read_symlink: {e}")))
            ),
            // the materialized file shows the tree's conflict labels, so they are part of the value
            _ => format!("conflict:{value:?} labels:{:?}", tree.labels().as_slice()),
        };
        m.insert(p, s);
    }
    m
}

fn in_patterns(patterns: &[String], path: &str) -> bool {
    patterns.iter().any(|q| {
        q.is_empty() || path == q || (path.len() > q.len() && path.starts_with(q.as_str()) && path.as_bytes()[q.len()] == b'/')
    })
}

fn restrict(tree: &BTreeMap<String, String>, patterns: &[String]) -> BTreeMap<String, String> {
    tree.iter().filter(|(p, _)| in_patterns(patterns, p)).map(|(p, v)| (p.clone(), v.clone())).collect()
}

// ---------------------------------------------------------------------------------------
// the case

#[derive(Clone, Copy, Debug, PartialEq, Eq, PartialOrd, Ord)]
enum Kind {
    File,
    DirWithFile,
    LinkToOutsideDir,
    LinkToOutsideFile,
    DanglingLinkToOutside,
}
const KINDS: [Kind; 5] =
    [Kind::File, Kind::DirWithFile, Kind::LinkToOutsideDir, Kind::LinkToOutsideFile, Kind::DanglingLinkToOutside];

impl Kind {
    fn name(self) -> &'static str {
        match self {
            Kind::File => "file",
            Kind::DirWithFile => "directory-with-a-file",
            Kind::LinkToOutsideDir => "symlink-to-outside-directory",
            Kind::LinkToOutsideFile => "symlink-to-outside-file",
            Kind::DanglingLinkToOutside => "dangling-symlink-to-outside",
        }
    }
    fn from_name(s: &str) -> Option<Kind> {
        KINDS.iter().copied().find(|k| k.name() == s)
    }
}

#[derive(Clone, Debug, PartialEq, Eq)]
enum Update {
    Checkout(String),
    SetSparse(Vec<String>),
}

impl Update {
    fn to_json(&self) -> Value {
        match self {
            Update::Checkout(t) => json!({"check_out": t, "tree": tree_spec_json(t)}),
            Update::SetSparse(p) => json!({"set_sparse_patterns": p}),
        }
    }
    fn from_json(v: &Value) -> Option<Update> {
        if let Some(t) = v["check_out"].as_str() {
            return Some(Update::Checkout(t.to_string()));
        }
        Some(Update::SetSparse(serde_json::from_value(v["set_sparse_patterns"].clone()).ok()?))
    }
    fn show(&self) -> String {
        match self {
            Update::Checkout(t) => format!("check_out({t})"),
            Update::SetSparse(p) => format!("set_sparse_patterns({p:?})"),
        }
    }
}

#[derive(Clone, Debug)]
struct Case {
    old: String,
    /// patterns set (through jj) right after the first checkout; [""] = everything
    patterns: Vec<String>,
    obstacles: Vec<(String, Kind)>,
    /// snapshot (all new files ignored) between placing the obstacles and the update
    snapshot_before: bool,
    step1: Update,
    /// (snapshot in between, second update)
    step2: Option<(bool, Update)>,
}

impl Case {
    fn to_json(&self) -> Value {
        json!({
            "old_tree": self.old,
            "old_tree_content": tree_spec_json(&self.old),
            "sparse_patterns": self.patterns,
            "obstacles": self.obstacles.iter().map(|(l, k)| json!({"at": l, "kind": k.name()})).collect::<Vec<_>>(),
            "snapshot_with_everything_new_ignored_before_update": self.snapshot_before,
            "update1": self.step1.to_json(),
            "update2": self.step2.as_ref().map(|(s, u)| json!({"snapshot_between": s, "update": u.to_json()})),
        })
    }
    fn from_json(v: &Value) -> Option<Case> {
        let obstacles = v["obstacles"]
            .as_array()?
            .iter()
            .map(|o| Some((o["at"].as_str()?.to_string(), Kind::from_name(o["kind"].as_str()?)?)))
            .collect::<Option<Vec<_>>>()?;
        let step2 = if v["update2"].is_null() {
            None
        } else {
            Some((v["update2"]["snapshot_between"].as_bool()?, Update::from_json(&v["update2"]["update"])?))
        };
        Some(Case {
            old: v["old_tree"].as_str()?.to_string(),
            patterns: serde_json::from_value(v["sparse_patterns"].clone()).ok()?,
            obstacles,
            snapshot_before: v["snapshot_with_everything_new_ignored_before_update"].as_bool()?,
            step1: Update::from_json(&v["update1"])?,
            step2,
        })
    }
}

// ---------------------------------------------------------------------------------------
// observing the disk

#[derive(Clone, Debug, PartialEq, Eq)]
enum Entry {
    File { content: Vec<u8>, mode: u32 },
    Symlink { target: String },
}

#[derive(Clone, Debug, PartialEq, Eq)]
struct DiskEntry {
    entry: Entry,
    ino: u64,
    mtime_ns: i128,
}

impl DiskEntry {
    fn show(&self) -> String {
        match &self.entry {
            Entry::File { content, mode } => {
                format!("file {:?} mode {:o} ino {} mtime {}", String::from_utf8_lossy(content), mode, self.ino, self.mtime_ns)
            }
            Entry::Symlink { target } => format!("symlink -> {target} ino {} mtime {}", self.ino, self.mtime_ns),
        }
    }
    fn kind(&self) -> &'static str {
        match &self.entry {
            Entry::File { .. } => "file",
            Entry::Symlink { .. } => "symlink",
        }
    }
}

#[derive(Clone, Debug, Default, PartialEq, Eq)]
struct Disk {
    files: BTreeMap<String, DiskEntry>,
    dirs: BTreeSet<String>,
}

fn walk(root: &Path, rel: &str, skip_jj: bool, out: &mut Disk) {
    let dir = if rel.is_empty() { root.to_path_buf() } else { root.join(rel) };
    let mut names: Vec<_> = std::fs::read_dir(&dir)
        .unwrap_or_else(|e| machinery_failure(&format!("read_dir {}: {e}", dir.display())))
        .map(|e| e.unwrap().file_name().into_string().unwrap())
        .collect();
    names.sort();
    for name in names {
        if skip_jj && rel.is_empty() && name == ".jj" {
            continue;
        }
        let path = if rel.is_empty() { name.clone() } else { format!("{rel}/{name}") };
        let full = root.join(&path);
        let meta = full.symlink_metadata().unwrap_or_else(|e| machinery_failure(&format!("stat: {e}")));
        let mtime_ns = meta.mtime() as i128 * 1_000_000_000 + meta.mtime_nsec() as i128;
        if meta.is_dir() {
            out.dirs.insert(path.clone());
            walk(root, &path, skip_jj, out);
        } else if meta.file_type().is_symlink() {
            let target = std::fs::read_link(&full).unwrap().to_string_lossy().into_owned();
            out.files.insert(path, DiskEntry { entry: Entry::Symlink { target }, ino: meta.ino(), mtime_ns });
        } else {
            let content = std::fs::read(&full).unwrap();
            let mode = meta.permissions().mode() & 0o7777;
            out.files.insert(path, DiskEntry { entry: Entry::File { content, mode }, ino: meta.ino(), mtime_ns });
        }
    }
}

fn read_disk(root: &Path, skip_jj: bool) -> Disk {
    let mut d = Disk::default();
    walk(root, "", skip_jj, &mut d);
    d
}

struct Obs {
    disk: Disk,
    outside: Disk,
    tree: BTreeMap<String, String>,
    patterns: Vec<String>,
}

fn observe(ws: &TestWorkspace, outside: &Path) -> Obs {
    let root = ws.workspace.workspace_root().to_owned();
    let tree = ws
        .workspace
        .working_copy()
        .tree()
        .unwrap_or_else(|e| machinery_failure(&format!("tree: {e}")))
        .clone();
    let patterns: Vec<String> = ws
        .workspace
        .working_copy()
        .sparse_patterns()
        .unwrap_or_else(|e| machinery_failure(&format!("sparse_patterns: {e}")))
        .iter()
        .map(|p| p.as_internal_file_string().to_string())
        .collect();
    Obs { disk: read_disk(&root, true), outside: read_disk(outside, false), tree: render_tree(&tree), patterns }
}

// ---------------------------------------------------------------------------------------
// the user's side: obstacles

fn set_mtime(path: &Path, secs: i64) {
    let c = CString::new(path.as_os_str().as_bytes()).unwrap();
    let times = [
        libc::timespec { tv_sec: 0, tv_nsec: libc::UTIME_OMIT },
        libc::timespec { tv_sec: secs as libc::time_t, tv_nsec: 0 },
    ];
    // SAFETY: valid C string and a two-element timespec array
    let rc = unsafe { libc::utimensat(libc::AT_FDCWD, c.as_ptr(), times.as_ptr(), libc::AT_SYMLINK_NOFOLLOW) };
    if rc != 0 {
        machinery_failure(&format!("utimensat: {}", std::io::Error::last_os_error()));
    }
}

fn make_outside(outside: &Path) {
    let w = |p: PathBuf, c: &str| {
        std::fs::write(&p, c).unwrap_or_else(|e| machinery_failure(&format!("write outside: {e}")));
        set_mtime(&p, 1_600_000_000);
    };
    std::fs::create_dir_all(outside.join("dir")).unwrap_or_else(|e| machinery_failure(&format!("mkdir outside: {e}")));
    // names the trees use below `d` and `d/c`; `e` is deliberately missing, so that a
    // checkout that follows the symlink would create it
    w(outside.join("dir").join("c"), "outside c\n");
    w(outside.join("dir").join("x"), "outside x\n");
    w(outside.join("dir").join("u"), "outside u\n");
    w(outside.join("victim"), "outside victim\n");
}

/// Puts the obstacle there like a user would (removing what is in the way, which may be
/// jj's own files). Returns false if the location cannot hold it (a parent is a file).
fn place(root: &Path, outside: &Path, loc: &str, kind: Kind, tick: i64) -> bool {
    let full = root.join(loc);
    let mut dir = root.to_path_buf();
    let comps: Vec<&str> = loc.split('/').collect();
    for c in &comps[..comps.len() - 1] {
        dir.push(c);
        match dir.symlink_metadata() {
            Ok(m) if m.is_dir() => {}
            Ok(_) => return false,
            Err(_) => std::fs::create_dir(&dir).unwrap_or_else(|e| machinery_failure(&format!("mkdir: {e}"))),
        }
    }
    let existing = full.symlink_metadata().ok();
    match (&existing, kind) {
        (Some(m), Kind::File) if m.is_file() => {} // modified in place below
        (Some(m), _) if m.is_dir() => {
            std::fs::remove_dir_all(&full).unwrap_or_else(|e| machinery_failure(&format!("rm -r: {e}")))
        }
        (Some(_), _) => std::fs::remove_file(&full).unwrap_or_else(|e| machinery_failure(&format!("rm: {e}"))),
        (None, _) => {}
    }
    let when = 1_700_000_000 + tick;
    match kind {
        Kind::File => {
            std::fs::write(&full, format!("user file at {loc}\n")).unwrap_or_else(|e| machinery_failure(&format!("write: {e}")));
            set_mtime(&full, when);
        }
        Kind::DirWithFile => {
            std::fs::create_dir(&full).unwrap_or_else(|e| machinery_failure(&format!("mkdir: {e}")));
            let u = full.join("u");
            std::fs::write(&u, format!("user file at {loc}/u\n")).unwrap_or_else(|e| machinery_failure(&format!("write: {e}")));
            set_mtime(&u, when);
        }
        Kind::LinkToOutsideDir | Kind::LinkToOutsideFile | Kind::DanglingLinkToOutside => {
            let target = match kind {
                Kind::LinkToOutsideDir => outside.join("dir"),
                Kind::LinkToOutsideFile => outside.join("victim"),
                _ => outside.join("missing"),
            };
            std::os::unix::fs::symlink(&target, &full).unwrap_or_else(|e| machinery_failure(&format!("symlink: {e}")));
            set_mtime(&full, when);
        }
    }
    true
}

// ---------------------------------------------------------------------------------------
// the jj side

fn settings() -> UserSettings {
    static SETTINGS: std::sync::OnceLock<UserSettings> = std::sync::OnceLock::new();
    SETTINGS.get_or_init(make_settings).clone()
}

fn make_settings() -> UserSettings {
    let mut config = testutils::base_user_config();
    config.add_layer(
        ConfigLayer::parse(ConfigSource::User, "working-copy.exec-bit-change = \"respect\"\n")
            .unwrap_or_else(|e| machinery_failure(&format!("config: {e}"))),
    );
    UserSettings::from_config(config).unwrap_or_else(|e| machinery_failure(&format!("settings: {e}")))
}

struct Failure {
    signature: String,
    message: String,
}

enum UpdateResult {
    Ok(CheckoutStats),
    Err(String),
    Panic(String),
}

fn run_update(ws: &mut TestWorkspace, update: &Update) -> UpdateResult {
    let op_id = ws.repo.op_id().clone();
    match update {
        Update::Checkout(t) => {
            let tree = build_tree(ws, t);
            let commit = commit_with_tree(ws.repo.store(), tree);
            match catch(|| ws.workspace.check_out(op_id, None, &commit).block_on()) {
                Ok(Ok(stats)) => UpdateResult::Ok(stats),
                Ok(Err(e)) => UpdateResult::Err(format!("{e}: {}", std::error::Error::source(&e).map(|s| s.to_string()).unwrap_or_default())),
                Err(p) => UpdateResult::Panic(p),
            }
        }
        Update::SetSparse(p) => {
            let patterns: Vec<RepoPathBuf> = p.iter().map(|s| repo_path(s).to_owned()).collect();
            let r = catch(|| {
                let mut locked = ws
                    .workspace
                    .start_working_copy_mutation()
                    .block_on()
                    .unwrap_or_else(|e| machinery_failure(&format!("lock: {e}")));
                match locked.locked_wc().set_sparse_patterns(patterns).block_on() {
                    Ok(stats) => {
                        locked
                            .finish(op_id)
                            .block_on()
                            .unwrap_or_else(|e| machinery_failure(&format!("finish: {e}")));
                        Ok(stats)
                    }
                    Err(e) => Err(e.to_string()),
                }
            });
            match r {
                Ok(Ok(stats)) => UpdateResult::Ok(stats),
                Ok(Err(e)) => UpdateResult::Err(e),
                Err(p) => UpdateResult::Panic(p),
            }
        }
    }
}

/// A snapshot in which every file jj does not track yet is ignored (like a global
/// `*` ignore rule): obstacles stay untracked, changes to tracked paths are recorded.
fn snapshot_ignoring_new(ws: &mut TestWorkspace) -> Result<(), Failure> {
    let base_ignores = GitIgnoreFile::empty()
        .chain(RepoPath::root(), Path::new("base-ignores"), b"*\n")
        .unwrap_or_else(|e| machinery_failure(&format!("ignore: {e}")));
    let options = SnapshotOptions {
        base_ignores,
        progress: None,
        start_tracking_matcher: &EverythingMatcher,
        force_tracking_matcher: &NothingMatcher,
        max_new_file_size: u64::MAX,
    };
    match catch(|| ws.snapshot_with_options(&options)) {
        Ok(Ok(_)) => Ok(()),
        // a snapshot problem is not this property's subject; the case is dropped and counted
        Ok(Err(e)) => Err(Failure { signature: "snapshot-error".into(), message: e.to_string() }),
        Err(p) => Err(Failure { signature: "snapshot-panic".into(), message: p }),
    }
}

// ---------------------------------------------------------------------------------------
// the oracle, per update

#[derive(Default)]
struct Tally {
    updates_checked: Counter,
    untracked_entries_checked: Counter,
    untracked_symlinks_checked: Counter,
    modified_tracked_untouched_checked: Counter,
    modified_tracked_touched_replaced_by_jj: Counter,
    updates_with_blocked_wanted_path: Counter,
    updates_reporting_skips: Counter,
    updates_with_outside_link_above_touched_path: Counter,
    updates_with_outside_link_at_touched_path: Counter,
    updates_removing_from_dir_with_user_sibling: Counter,
    second_update_removed_user_file_at_path_skipped_before: Counter,
    outside_comparisons: Counter,
    label_only_updates_with_user_entry_at_conflicted_path_outside_patterns: Counter,
    label_only_updates_that_rewrote_a_conflicted_file_inside_patterns: Counter,
    update_errors: Counter,
    update_panics_unclaimed: Counter,
    snapshot_problems: Counter,
    unplaceable: Counter,
    /// message -> (count, first update it was seen with)
    notes: Mutex<BTreeMap<String, (u64, String)>>,
}

impl Tally {
    /// Notes are grouped by their text up to the first "left:" (the sets printed by an
    /// assertion differ from case to case); the first full text is kept as the example.
    fn note(&self, what: String, update: String) {
        let class = what.split("left:").next().unwrap_or("").trim().to_string();
        let mut n = self.notes.lock().unwrap();
        let e = n.entry(class).or_insert((0, format!("{update}: {what}")));
        e.0 += 1;
    }
}

fn strict_prefixes(p: &str) -> Vec<String> {
    let comps: Vec<&str> = p.split('/').collect();
    (1..comps.len()).map(|n| comps[..n].join("/")).collect()
}

struct UpdateCtx<'a> {
    pre: &'a Obs,
    /// disk as it was right after jj last wrote or snapshotted the working copy
    jj_disk: &'a Disk,
    new_view: &'a BTreeMap<String, String>,
    update: &'a Update,
    result: &'a UpdateResult,
    post: &'a Obs,
    second: bool,
    skipped_before: &'a BTreeSet<String>,
}

fn check_update(c: &UpdateCtx, tally: &Tally) -> Vec<Failure> {
    let mut failures = vec![];
    let step = if c.second { "second-update" } else { "update" };
    let mut fail = |sig: String, msg: String| {
        failures.push(Failure { signature: sig, message: format!("{} — {msg}", c.update.show()) });
    };
    tally.updates_checked.inc();
    let pre_view = restrict(&c.pre.tree, &c.pre.patterns);
    let touched = |p: &str| pre_view.get(p) != c.new_view.get(p);
    let all_touched: BTreeSet<String> =
        pre_view.keys().chain(c.new_view.keys()).filter(|p| touched(p)).cloned().collect();

    // 1 + 2: the user's files
    for (q, d) in &c.pre.disk.files {
        let tracked = pre_view.contains_key(q);
        let after = c.post.disk.files.get(q);
        let intact = after == Some(d);
        let how = match after {
            None if c.post.disk.dirs.contains(q) => "replaced-by-directory",
            None => "deleted",
            Some(a) if a.entry != d.entry => "overwritten",
            Some(_) => "recreated-or-touched",
        };
        if !tracked {
            tally.untracked_entries_checked.inc();
            if d.kind() == "symlink" {
                tally.untracked_symlinks_checked.inc();
            }
            if !intact {
                fail(
                    format!("C25/untracked-{}/{how}", d.kind()),
                    format!("{step}: {q} is not tracked and was {how}: before {}, after {}", d.show(), after.map_or("nothing".into(), |a| a.show())),
                );
            }
        } else {
            let modified = c.jj_disk.files.get(q) != Some(d);
            if modified && !touched(q) {
                tally.modified_tracked_untouched_checked.inc();
                if !intact {
                    fail(
                        format!("C25/modified-tracked-{}-at-unchanged-path/{how}", d.kind()),
                        format!(
                            "{step}: {q} was changed by the user, the update does not change its tree value, but it was {how}: before {}, \
                             after {}",
                            d.show(),
                            after.map_or("nothing".into(), |a| a.show())
                        ),
                    );
                }
            } else if modified && !intact {
                tally.modified_tracked_touched_replaced_by_jj.inc();
                if c.second && c.skipped_before.contains(q) {
                    tally.second_update_removed_user_file_at_path_skipped_before.inc();
                }
            }
        }
    }

    // 4: the world outside
    tally.outside_comparisons.inc();
    if c.post.outside != c.pre.outside {
        let mut what = vec![];
        let mut class = "modified";
        for (q, d) in &c.pre.outside.files {
            match c.post.outside.files.get(q) {
                None => {
                    class = "deleted";
                    what.push(format!("{q} deleted"));
                }
                Some(a) if a != d => what.push(format!("{q}: {} -> {}", d.show(), a.show())),
                _ => {}
            }
        }
        for (q, a) in &c.post.outside.files {
            if !c.pre.outside.files.contains_key(q) {
                class = "created";
                what.push(format!("{q} created: {}", a.show()));
            }
        }
        if c.post.outside.dirs != c.pre.outside.dirs {
            what.push(format!("directories {:?} -> {:?}", c.pre.outside.dirs, c.post.outside.dirs));
        }
        fail(format!("C25/outside-workspace/{class}"), format!("the directory outside the workspace changed during the {step}: {}", what.join("; ")));
    }

    // 3: blocked wanted paths are skipped (and the update does not fail)
    let mut blocked_wanted = 0u32;
    for p in c.new_view.keys().filter(|p| touched(p)) {
        let untracked_file_at = |r: &str| c.pre.disk.files.contains_key(r) && !pre_view.contains_key(r);
        let occupied = !pre_view.contains_key(p)
            && (c.pre.disk.files.contains_key(p)
                || c.pre.disk.files.keys().any(|q| q.starts_with(&format!("{p}/")) && !pre_view.contains_key(q)));
        let below_user_file = strict_prefixes(p).iter().any(|r| untracked_file_at(r));
        if occupied || below_user_file {
            blocked_wanted += 1;
        }
    }
    match c.result {
        UpdateResult::Ok(stats) => {
            if stats.skipped_files > 0 {
                tally.updates_reporting_skips.inc();
            }
            if blocked_wanted > 0 {
                tally.updates_with_blocked_wanted_path.inc();
                if stats.skipped_files < blocked_wanted {
                    fail(
                        "C25/blocked-path/not-reported-as-skipped".into(),
                        format!("{blocked_wanted} wanted path(s) are blocked by user files but skipped_files = {}", stats.skipped_files),
                    );
                }
            }
        }
        // An update that fails or panics is this property's business only when a wanted path
        // was blocked by a user file (then it had to be skipped); otherwise it is counted and
        // reported as a note (the files-intact clauses above were evaluated all the same).
        UpdateResult::Err(e) => {
            if blocked_wanted > 0 {
                tally.updates_with_blocked_wanted_path.inc();
                fail(
                    "C25/blocked-path/error-instead-of-skip".into(),
                    format!("{blocked_wanted} wanted path(s) are blocked by user files and the update failed: {e}"),
                );
            } else {
                tally.update_errors.inc();
                tally.note(format!("error (no wanted path blocked): {e}"), c.update.show());
            }
        }
        UpdateResult::Panic(p) => {
            let class = if p.contains("changed_file_states must be sorted") {
                "file-states-unsorted"
            } else if matches!(c.update, Update::SetSparse(_)) && p.contains("assertion `left == right` failed") {
                "set-sparse-stats-assertion"
            } else {
                "other"
            };
            if blocked_wanted > 0 {
                tally.updates_with_blocked_wanted_path.inc();
                fail(
                    format!("C25/blocked-path/panic-instead-of-skip/{class}"),
                    format!(
                        "{blocked_wanted} wanted path(s) are blocked by user files and the {step} panicked instead of skipping them: {p}"
                    ),
                );
            } else {
                tally.update_panics_unclaimed.inc();
                tally.note(format!("panic (no wanted path blocked), class {class}: {}", p.replace('\n', " ")), c.update.show());
            }
        }
    }

    // vacuity bookkeeping
    if let Update::Checkout(t) = c.update
        && let Some(labels) = tree_labels(t)
    {
        let conflicted: Vec<&str> =
            tree_spec(t).iter().filter(|(_, s)| matches!(s, Spec::Conflict(_))).map(|(p, _)| *p).collect();
        if conflicted.iter().any(|p| !in_patterns(&c.pre.patterns, p) && c.pre.disk.files.contains_key(*p)) {
            tally.label_only_updates_with_user_entry_at_conflicted_path_outside_patterns.inc();
        }
        if conflicted.iter().any(|p| {
            in_patterns(&c.pre.patterns, p)
                && c.pre.disk.files.get(*p) != c.post.disk.files.get(*p)
                && matches!(c.post.disk.files.get(*p), Some(DiskEntry { entry: Entry::File { content, .. }, .. })
                    if String::from_utf8_lossy(content).contains(labels[0]))
        }) {
            tally.label_only_updates_that_rewrote_a_conflicted_file_inside_patterns.inc();
        }
    }
    let outside_links: Vec<&String> = c
        .pre
        .disk
        .files
        .iter()
        .filter(|(_, d)| matches!(&d.entry, Entry::Symlink { target } if target.contains("/outside/")))
        .map(|(q, _)| q)
        .collect();
    if outside_links.iter().any(|l| all_touched.iter().any(|p| p.starts_with(&format!("{l}/")))) {
        tally.updates_with_outside_link_above_touched_path.inc();
    }
    if outside_links.iter().any(|l| all_touched.contains(*l)) {
        tally.updates_with_outside_link_at_touched_path.inc();
    }
    let removed_dirs: BTreeSet<String> = all_touched
        .iter()
        .filter(|p| !c.new_view.contains_key(*p))
        .filter_map(|p| p.rsplit_once('/').map(|(d, _)| d.to_string()))
        .collect();
    if removed_dirs.iter().any(|d| {
        c.pre.disk.files.keys().any(|q| q.starts_with(&format!("{d}/")) && !pre_view.contains_key(q))
            && !c.new_view.keys().any(|p| p.starts_with(&format!("{d}/")))
    }) {
        tally.updates_removing_from_dir_with_user_sibling.inc();
    }
    failures
}

// ---------------------------------------------------------------------------------------
// one case

struct CaseReport {
    failures: Vec<Failure>,
    /// canonical renderings of the states after each update (for the state count)
    state_keys: Vec<u64>,
    updates: u64,
    /// an obstacle lies at, above or below a path the first update changes
    in_the_way: bool,
    evaluated: bool,
}

fn state_key(o: &Obs) -> u64 {
    let disk: Vec<String> = o
        .disk
        .files
        .iter()
        .map(|(p, d)| match &d.entry {
            Entry::File { content, mode } => format!("{p}=f{:o}:{}", mode, String::from_utf8_lossy(content)),
            Entry::Symlink { target } => format!("{p}->{}", target.rsplit('/').next().unwrap_or("")),
        })
        .collect();
    let s = format!("{disk:?}|{:?}|{:?}|{:?}", o.disk.dirs, o.tree, o.patterns);
    fnv(s.as_bytes())
}

fn run_case(case: &Case, tally: &Tally) -> CaseReport {
    let mut report = CaseReport { failures: vec![], state_keys: vec![], updates: 0, in_the_way: false, evaluated: false };
    let settings = settings();
    let mut ws = TestWorkspace::init_with_backend_and_settings(TestRepoBackend::Simple, &settings);
    let root = ws.workspace.workspace_root().to_owned();
    let outside = root.parent().unwrap().join("outside");
    make_outside(&outside);

    // the starting point: T_old checked out (and the sparse patterns of the case)
    match run_update(&mut ws, &Update::Checkout(case.old.clone())) {
        UpdateResult::Ok(_) => {}
        _ => machinery_failure(&format!("cannot check out {} into an empty workspace", case.old)),
    }
    if case.patterns != [String::new()] {
        match run_update(&mut ws, &Update::SetSparse(case.patterns.clone())) {
            UpdateResult::Ok(_) => {}
            _ => machinery_failure("cannot set the initial sparse patterns"),
        }
    }
    let mut jj_disk = read_disk(&root, true);

    // the user
    for (i, (loc, kind)) in case.obstacles.iter().enumerate() {
        if !place(&root, &outside, loc, *kind, i as i64) {
            tally.unplaceable.inc();
            return report;
        }
    }
    if case.snapshot_before {
        if let Err(f) = snapshot_ignoring_new(&mut ws) {
            tally.snapshot_problems.inc();
            tally.note(format!("{} in the snapshot before the update: {}", f.signature, f.message.replace('\n', " ")), format!("{:?}", case.obstacles));
            return report;
        }
        jj_disk = read_disk(&root, true);
    }
    report.evaluated = true;

    let mut skipped_before: BTreeSet<String> = BTreeSet::new();
    let steps: Vec<(bool, &Update)> = std::iter::once((false, &case.step1))
        .chain(case.step2.iter().map(|(s, u)| (*s, u)))
        .collect();
    for (i, (snapshot_between, update)) in steps.iter().enumerate() {
        if *snapshot_between {
            if let Err(f) = snapshot_ignoring_new(&mut ws) {
                tally.snapshot_problems.inc();
                tally.note(format!("{} in the snapshot between the updates: {}", f.signature, f.message.replace('\n', " ")), format!("{} in {}", update.show(), case.to_json()));
                return report;
            }
            jj_disk = read_disk(&root, true);
        }
        let pre = observe(&ws, &outside);
        let new_view = match update {
            Update::Checkout(t) => restrict(&render_tree(&build_tree(&ws, t)), &pre.patterns),
            Update::SetSparse(p) => restrict(&pre.tree, p),
        };
        if i == 0 {
            let pre_view = restrict(&pre.tree, &pre.patterns);
            let touched: Vec<&String> = pre_view.keys().chain(new_view.keys()).filter(|p| pre_view.get(*p) != new_view.get(*p)).collect();
            report.in_the_way = case.obstacles.iter().any(|(l, _)| {
                touched.iter().any(|p| *p == l || p.starts_with(&format!("{l}/")) || l.starts_with(&format!("{p}/")))
            });
        }
        let result = run_update(&mut ws, update);
        let post = observe(&ws, &outside);
        let c = UpdateCtx { pre: &pre, jj_disk: &jj_disk, new_view: &new_view, update, result: &result, post: &post, second: i > 0, skipped_before: &skipped_before };
        let failures = check_update(&c, tally);
        report.updates += 1;
        report.state_keys.push(state_key(&post));
        let failed = !failures.is_empty();
        report.failures.extend(failures);
        if failed || !matches!(result, UpdateResult::Ok(_)) {
            return report;
        }
        // paths the update wanted and that still hold the user's entry: skipped
        for p in new_view.keys() {
            if let (Some(a), Some(b)) = (pre.disk.files.get(p), post.disk.files.get(p))
                && a == b
                && jj_disk.files.get(p) != Some(a)
            {
                skipped_before.insert(p.clone());
            }
        }
        // what jj wrote now is jj's; what it left alone keeps its old "jj wrote this" reference
        let mut new_jj_disk = Disk::default();
        for (p, d) in &post.disk.files {
            if pre.disk.files.get(p) != Some(d) {
                new_jj_disk.files.insert(p.clone(), d.clone());
            } else if let Some(j) = jj_disk.files.get(p) {
                new_jj_disk.files.insert(p.clone(), j.clone());
            }
        }
        jj_disk = new_jj_disk;
    }
    report
}

// ---------------------------------------------------------------------------------------
// the space

fn locations(trees: &[&str]) -> Vec<String> {
    let mut set = BTreeSet::new();
    for t in trees {
        for p in tree_spec(t).keys() {
            set.insert(p.to_string());
            for r in strict_prefixes(p) {
                set.insert(r);
            }
        }
    }
    // a sibling inside the directory `d` (when some tree has one)
    if set.iter().any(|p| p.starts_with("d/")) {
        set.insert("d/u".into());
    }
    set.into_iter().collect()
}

fn obstacles_for(trees: &[&str]) -> Vec<(String, Kind)> {
    let mut v = vec![];
    for loc in locations(trees) {
        for k in KINDS {
            if loc == "d/u" && k != Kind::File {
                continue;
            }
            v.push((loc.clone(), k));
        }
    }
    v
}

fn full() -> Vec<String> {
    vec![String::new()]
}

fn enumerate_cases(thorough: bool) -> Vec<Case> {
    let mut cases = vec![];
    // family A: one update
    for old in TREE_NAMES {
        for new in TREE_NAMES {
            if old == new {
                continue;
            }
            for ob in obstacles_for(&[old, new]) {
                for snapshot_before in [false, true] {
                    // quick: the snapshot variant for three of the five kinds
                    if snapshot_before && !thorough && matches!(ob.1, Kind::LinkToOutsideFile | Kind::DanglingLinkToOutside) {
                        continue;
                    }
                    cases.push(Case {
                        old: old.into(),
                        patterns: full(),
                        obstacles: vec![ob.clone()],
                        snapshot_before,
                        step1: Update::Checkout(new.into()),
                        step2: None,
                    });
                }
            }
        }
    }
    // family B: two updates (the second one starts from whatever the first left behind,
    // including paths recorded as skipped), with and without a snapshot in between
    let thirds: &[&str] = if thorough { &TREE_NAMES } else { &["T0", "T4"] };
    let b_kinds: &[Kind] = if thorough { &KINDS } else { &[Kind::File, Kind::LinkToOutsideDir] };
    for old in TREE_NAMES {
        for new in TREE_NAMES {
            if old == new {
                continue;
            }
            for ob in obstacles_for(&[old, new]) {
                if !b_kinds.contains(&ob.1) {
                    continue;
                }
                for third in thirds {
                    if *third == new {
                        continue;
                    }
                    for between in [false, true] {
                        // quick: T0 as third tree only without the snapshot in between
                        if !thorough && between && *third == "T0" {
                            continue;
                        }
                        cases.push(Case {
                            old: old.into(),
                            patterns: full(),
                            obstacles: vec![ob.clone()],
                            snapshot_before: false,
                            step1: Update::Checkout(new.into()),
                            step2: Some((between, Update::Checkout(third.to_string()))),
                        });
                    }
                }
            }
        }
    }
    // family C: two obstacles at once (thorough)
    if thorough {
        for old in TREE_NAMES {
            for new in TREE_NAMES {
                if old == new {
                    continue;
                }
                let obs = obstacles_for(&[old, new]);
                for (i, a) in obs.iter().enumerate() {
                    for b in &obs[i + 1..] {
                        // different locations, neither inside the other
                        if a.0 == b.0 || a.0.starts_with(&format!("{}/", b.0)) || b.0.starts_with(&format!("{}/", a.0)) {
                            continue;
                        }
                        cases.push(Case {
                            old: old.into(),
                            patterns: full(),
                            obstacles: vec![a.clone(), b.clone()],
                            snapshot_before: false,
                            step1: Update::Checkout(new.into()),
                            step2: None,
                        });
                    }
                }
            }
        }
    }
    // family D: sparse patterns. Files at tree paths outside the patterns are the user's.
    let s = |v: &[&str]| v.iter().map(|x| x.to_string()).collect::<Vec<_>>();
    let pattern_sets = [s(&["d"]), s(&["f"]), s(&[]), s(&["d/c"])];
    for p0 in &pattern_sets[..if thorough { 4 } else { 3 }] {
        for ob in obstacles_for(&["S1", "S2"]) {
            for snapshot_before in [false, true] {
                let mut updates = vec![Update::SetSparse(full()), Update::Checkout("S2".into()), Update::Checkout("T0".into())];
                for p1 in &pattern_sets {
                    if p1 != p0 {
                        updates.push(Update::SetSparse(p1.clone()));
                    }
                }
                for u in updates {
                    cases.push(Case {
                        old: "S1".into(),
                        patterns: p0.clone(),
                        obstacles: vec![ob.clone()],
                        snapshot_before,
                        step1: u.clone(),
                        step2: None,
                    });
                    if matches!(u, Update::Checkout(_)) {
                        // ... and then widen the patterns over whatever is lying there
                        cases.push(Case {
                            old: "S1".into(),
                            patterns: p0.clone(),
                            obstacles: vec![ob.clone()],
                            snapshot_before,
                            step1: u.clone(),
                            step2: Some((false, Update::SetSparse(full()))),
                        });
                    }
                }
            }
        }
    }
    // family E: conflicted paths inside and outside the patterns, update = the same conflicted
    // tree with other conflict labels (check_out re-materializes the conflicted files)
    let mut e_patterns = vec![full()];
    e_patterns.extend(pattern_sets.iter().cloned());
    for p0 in &e_patterns {
        for ob in obstacles_for(&["L1"]) {
            for snapshot_before in [false, true] {
                cases.push(Case {
                    old: "L1".into(),
                    patterns: p0.clone(),
                    obstacles: vec![ob.clone()],
                    snapshot_before,
                    step1: Update::Checkout("L2".into()),
                    step2: None,
                });
                if thorough {
                    // ... and back, then widen the patterns
                    cases.push(Case {
                        old: "L1".into(),
                        patterns: p0.clone(),
                        obstacles: vec![ob.clone()],
                        snapshot_before,
                        step1: Update::Checkout("L2".into()),
                        step2: Some((false, Update::Checkout("L1".into()))),
                    });
                    cases.push(Case {
                        old: "L1".into(),
                        patterns: p0.clone(),
                        obstacles: vec![ob.clone()],
                        snapshot_before,
                        step1: Update::Checkout("L2".into()),
                        step2: Some((false, Update::SetSparse(full()))),
                    });
                }
            }
        }
    }
    cases
}

fn main() {
    let ctx = Ctx::from_args("C25", Level::ModelChecking);
    vcommon::silence_panics();
    if let Some((_sig, case_json)) = ctx.replay_case() {
        let Some(case) = Case::from_json(&case_json) else {
            machinery_failure("replay file does not describe a C25 case");
        };
        let tally = Tally::default();
        let report = run_case(&case, &tally);
        for f in report.failures {
            ctx.violation(&f.signature, f.message, case_json.clone());
        }
        ctx.finish(Coverage { evaluations: 1, ..Default::default() });
    }

    let cases = enumerate_cases(ctx.thorough());
    let tally = Tally::default();
    let states: Mutex<HashSet<u64>> = Mutex::new(HashSet::new());
    let evaluated = Counter::new();
    let transitions = Counter::new();
    let nontrivial = Counter::new();
    let samples = Samples::new(6);

    // determinism gate
    {
        let probe = Case {
            old: "T3".into(),
            patterns: full(),
            obstacles: vec![("d".into(), Kind::LinkToOutsideDir)],
            snapshot_before: false,
            step1: Update::Checkout("T4".into()),
            step2: Some((true, Update::Checkout("T0".into()))),
        };
        let t = Tally::default();
        let r1 = run_case(&probe, &t);
        let r2 = run_case(&probe, &t);
        if r1.state_keys != r2.state_keys || r1.failures.len() != r2.failures.len() {
            machinery_failure("nondeterministic replay of the probe case");
        }
    }

    cases.par_iter().for_each(|case| {
        let report = run_case(case, &tally);
        if !report.evaluated {
            return;
        }
        evaluated.inc();
        transitions.add(report.updates);
        {
            let mut s = states.lock().unwrap();
            for k in &report.state_keys {
                s.insert(*k);
            }
        }
        if report.in_the_way {
            nontrivial.inc();
            if case.step2.is_some() && matches!(case.obstacles[0].1, Kind::LinkToOutsideDir) {
                samples.offer(|| case.to_json());
            }
        }
        for f in report.failures {
            ctx.violation(&f.signature, f.message, case.to_json());
        }
    });

    let t = &tally;
    if ctx.violation_count() == 0 {
        for (name, c) in [
            ("untracked entries checked", &t.untracked_entries_checked),
            ("untracked symlinks checked", &t.untracked_symlinks_checked),
            ("modified tracked files at unchanged paths", &t.modified_tracked_untouched_checked),
            ("updates with a wanted path blocked by a user file", &t.updates_with_blocked_wanted_path),
            ("updates reporting skipped paths", &t.updates_reporting_skips),
            ("updates with a symlink to the outside above a changed path", &t.updates_with_outside_link_above_touched_path),
            ("updates with a symlink to the outside at a changed path", &t.updates_with_outside_link_at_touched_path),
            ("updates emptying a directory that holds a user file", &t.updates_removing_from_dir_with_user_sibling),
            (
                "label-only updates with a user entry at a conflicted path outside the patterns",
                &t.label_only_updates_with_user_entry_at_conflicted_path_outside_patterns,
            ),
            (
                "label-only updates that re-materialized a conflicted file inside the patterns",
                &t.label_only_updates_that_rewrote_a_conflicted_file_inside_patterns,
            ),
        ] {
            if c.get() == 0 {
                machinery_failure(&format!("vacuous: no case with: {name}"));
            }
        }
    }
    let vacuity = json!({
        "updates_checked": t.updates_checked.get(),
        "untracked_files_and_symlinks_compared_before_after": t.untracked_entries_checked.get(),
        "of_which_symlinks": t.untracked_symlinks_checked.get(),
        "user_modified_tracked_files_at_unchanged_paths_compared": t.modified_tracked_untouched_checked.get(),
        "user_modified_tracked_files_at_changed_paths_replaced_by_jj_(allowed)": t.modified_tracked_touched_replaced_by_jj.get(),
        "updates_with_a_wanted_path_blocked_by_a_user_file": t.updates_with_blocked_wanted_path.get(),
        "updates_reporting_skipped_paths": t.updates_reporting_skips.get(),
        "updates_with_symlink_to_outside_above_a_changed_path": t.updates_with_outside_link_above_touched_path.get(),
        "updates_with_symlink_to_outside_at_a_changed_path": t.updates_with_outside_link_at_touched_path.get(),
        "updates_emptying_a_directory_that_holds_a_user_file": t.updates_removing_from_dir_with_user_sibling.get(),
        "outside_directory_comparisons": t.outside_comparisons.get(),
        "label_only_updates_with_user_entry_at_conflicted_path_outside_patterns":
            t.label_only_updates_with_user_entry_at_conflicted_path_outside_patterns.get(),
        "label_only_updates_that_rematerialized_a_conflicted_file_inside_patterns":
            t.label_only_updates_that_rewrote_a_conflicted_file_inside_patterns.get(),
        "second_updates_that_removed_the_user_file_at_a_path_the_first_update_skipped_(allowed,_see_notes)":
            t.second_update_removed_user_file_at_path_skipped_before.get(),
        "updates_that_failed_without_a_blocked_wanted_path_(not_claimed)": t.update_errors.get(),
        "updates_that_panicked_without_a_blocked_wanted_path_(not_claimed)": t.update_panics_unclaimed.get(),
        "notes": t.notes.lock().unwrap().iter().map(|(k, v)| json!({"what": k, "count": v.0, "first_example": v.1})).collect::<Vec<_>>(),
        "cases_dropped_because_the_obstacle_cannot_be_placed": t.unplaceable.get(),
        "cases_dropped_because_the_intermediate_snapshot_failed": t.snapshot_problems.get(),
    });
    for (what, (n, upd)) in t.notes.lock().unwrap().iter() {
        println!("[C25] NOTE (not a verdict) x{n}: {what} || first example: {upd}");
    }
    println!(
        "[C25] cases enumerated={} evaluated={} updates={} distinct states={} in-the-way={} vacuity={}",
        cases.len(),
        evaluated.get(),
        transitions.get(),
        states.lock().unwrap().len(),
        nontrivial.get(),
        vacuity
    );
    let mut extra: BTreeMap<String, Value> = BTreeMap::new();
    extra.insert("cases_enumerated".into(), json!(cases.len()));
    extra.insert("vacuity".into(), vacuity);
    extra.insert(
        "trees".into(),
        json!(TREE_NAMES.iter().chain(["S1", "S2", "L1", "L2"].iter()).map(|t| (t.to_string(), tree_spec_json(t))).collect::<BTreeMap<_, _>>()),
    );
    extra.insert("obstacle_kinds".into(), json!(KINDS.iter().map(|k| k.name()).collect::<Vec<_>>()));
    let n_states = states.lock().unwrap().len() as u64;
    let cov = Coverage {
        evaluations: evaluated.get(),
        distinct_nontrivial: nontrivial.get(),
        rule: "histories check_out(T_old) [set_sparse_patterns] -> obstacle(s) [-> snapshot ignoring new files] -> update [[-> snapshot] -> \
               update]: (A) every ordered pair of the 11 trees x every obstacle (location in paths and parent directories of \
               either tree, or a sibling in d/; 5 kinds) x {no snapshot, snapshot (quick: not for the two symlink-to-file kinds)}; (B) the same followed by a second check_out \
               (quick: third tree in {T0, T4}, kinds file and symlink-to-outside-directory, T0 without the snapshot; thorough: all) x {no snapshot, \
               snapshot between}; (C, thorough) pairs of obstacles at disjoint locations; (D) sparse patterns: tree S1 under 3 (thorough 4) \
               pattern sets x obstacles x {widen to everything, other pattern sets, check_out S2 / T0, check_out then widen}; (E) tree L1 with 3-sided conflicts at f and d/c under 5 pattern \
               sets (root, d, f, empty, d/c) x obstacles x {no snapshot, snapshot} x check_out of L2 = the same tree ids with other \
               conflict labels (thorough: also back to L1, and then widening). \
               Each history is generated once. evaluations = histories executed (those whose obstacle cannot be placed because \
               a parent is a file are not counted); non-trivial = an obstacle lies at, above or below a path whose tree value \
               the first update changes"
            .into(),
        samples: samples.take(),
        exhaustive: true,
        states: Some(n_states),
        transitions: Some(transitions.get()),
        traces_validated_against_impl: Some(transitions.get()),
        extra,
        assumptions: vec![
            "'owned by jj' = the path is in jj's working-copy tree (within the sparse patterns) before the update; a path that \
             an earlier update skipped is tracked from then on, so a later update that changes it may replace the user's file \
             (jj records such paths for re-reading and every jj command snapshots first)"
                .into(),
            "uid 0: read-only directories/files cannot stop the process, permission-based obstacles are not produced".into(),
            "single process: nothing changes the disk while the update runs (the TOCTOU window between can_create_new_file \
             and the write is outside the bound)"
                .into(),
        ],
        ..Default::default()
    };
    ctx.finish(cov);
}

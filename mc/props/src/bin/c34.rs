//! C34 — Git import and export converge without dropping updates.
//!
//! Explicit-state search (vcommon::bfs) over histories of
//!   * jj-side bookmark edits      `jj:<name>=<c1|c2|c3|->`   (one transaction each),
//!   * git-side branch edits       `git:<name>=<c1|c2|c3|c4|->` (written straight into the
//!     colocated Git repository with gix, behind jj's back),
//!   * `import`  (`jj_lib::git::import_refs` + rebase_descendants, one transaction),
//!   * `export`  (`jj_lib::git::export_refs`, one transaction)
//! on a real colocated workspace (`Workspace::init_colocated_git`, real Git repository on
//! tmpfs).  Commits: c1 < c2, c3 (sibling of c1), all written by jj; c4 (child of c1) is
//! written by "git" only, so jj learns about it on import.  Bookmark names: x, y.
//!
//! The oracle is phrased in the words of the statement.  A ghost value B(name) records the
//! last position that demonstrably went through a synchronisation: after an import
//! B := git's branch (jj has now seen it); after an export B := the common value if git's
//! branch and jj's (non-conflicted) bookmark agree afterwards.  "Changed on the jj side"
//! means local bookmark != B, "changed on the git side" means git branch != B.
//!
//!   import  I1  never writes a git branch
//!           I2  git side unchanged        => the local bookmark is untouched
//!           I3  git side changed          => the new local bookmark is an allowed three-way
//!               merge of (local, base B, git): with the jj side unchanged that is exactly
//!               git's value (propagation); with both sides changed to different values it
//!               is a conflict that still carries both values (or the fast-forward /
//!               same-change resolutions jj documents), never one side alone
//!   export  E1  never changes a local bookmark
//!           E2  jj side unchanged         => git branch untouched
//!           E3  only the jj side changed  => git branch == local bookmark (propagation)
//!           E4  both sides changed to different values, or the bookmark is conflicted
//!                                         => git branch untouched (not overwritten)
//!   from every distinct reached state, `import; export` is run as a probe (its two
//!   transitions are judged by the clauses above as well):
//!           C1  every non-conflicted local bookmark equals git's branch of that name
//!               (both absent, or both at the same commit)
//!           C2  one more import reports no change, leaves the transaction without
//!               changes, and leaves the observable state identical
//!
//! Mechanics: the initial workspace is built once (template) and copied; a history executes
//! only its last action on a copy of the directory its parent history left behind (`Snaps`),
//! which is what makes depth 6 affordable.  The start-up gate runs one history both ways (full
//! replay from the template / snapshot extension) and demands the same observation; `--replay`
//! always replays in full.
//!
//! The "allowed three-way merge" set is computed by a small reference written here on signed
//! term counts (cancellation, the same-change rule, the fast-forward rule with a hard-coded
//! ancestry table); it never calls jj.

use std::collections::BTreeMap;
use std::collections::BTreeSet;
use std::collections::HashMap;
use std::collections::HashSet;
use std::path::Path;
use std::path::PathBuf;
use std::sync::Arc;
use std::sync::Mutex;
use std::sync::OnceLock;
use std::sync::atomic::AtomicU64;
use std::sync::atomic::Ordering;

use jj_lib::backend::CommitId;
use jj_lib::backend::MillisSinceEpoch;
use jj_lib::backend::Signature;
use jj_lib::backend::Timestamp;
use jj_lib::config::ConfigLayer;
use jj_lib::config::ConfigSource;
use jj_lib::config::StackedConfig;
use jj_lib::git;
use jj_lib::git::FailedRefExportReason;
use jj_lib::git::GitImportOptions;
use jj_lib::object_id::ObjectId as _;
use jj_lib::op_store::RefTarget;
use jj_lib::ref_name::GitRefName;
use jj_lib::ref_name::RefName;
use jj_lib::ref_name::RemoteRefSymbol;
use jj_lib::repo::ReadonlyRepo;
use jj_lib::repo::Repo as _;
use jj_lib::repo::RepoLoader;
use jj_lib::settings::UserSettings;
use jj_lib::workspace::Workspace;
use pollster::FutureExt as _;
use serde_json::Value;
use serde_json::json;
use vcommon::Counter;
use vcommon::Coverage;
use vcommon::Ctx;
use vcommon::Level;
use vcommon::bfs;
use vcommon::machinery_failure;

// ---------------------------------------------------------------------------------------
// Alphabet
// ---------------------------------------------------------------------------------------

const NAMES: [&str; 2] = ["x", "y"];
/// commit labels: 0 = absent, 1 = c1, 2 = c2 (child of c1), 3 = c3 (child of root),
/// 4 = c4 (child of c1, written by git only)
type Cm = u8;
const JJ_TARGETS: [Cm; 4] = [1, 2, 3, 0];
const GIT_TARGETS: [Cm; 5] = [1, 2, 3, 4, 0];

#[derive(Clone, Debug, PartialEq, Eq)]
enum Act {
    JjSet(usize, Cm),
    GitSet(usize, Cm),
    Import,
    Export,
}

fn cm_str(c: Cm) -> String {
    if c == 0 { "-".to_string() } else { format!("c{c}") }
}

fn parse_cm(s: &str) -> Option<Cm> {
    match s {
        "-" => Some(0),
        "c1" => Some(1),
        "c2" => Some(2),
        "c3" => Some(3),
        "c4" => Some(4),
        _ => None,
    }
}

impl Act {
    fn render(&self) -> String {
        match self {
            Act::JjSet(n, c) => format!("jj:{}={}", NAMES[*n], cm_str(*c)),
            Act::GitSet(n, c) => format!("git:{}={}", NAMES[*n], cm_str(*c)),
            Act::Import => "import".to_string(),
            Act::Export => "export".to_string(),
        }
    }
    fn parse(s: &str) -> Option<Act> {
        match s {
            "import" => return Some(Act::Import),
            "export" => return Some(Act::Export),
            _ => {}
        }
        let (side, rest) = s.split_once(':')?;
        let (name, c) = rest.split_once('=')?;
        let n = NAMES.iter().position(|x| *x == name)?;
        let c = parse_cm(c)?;
        match side {
            "jj" if c <= 3 => Some(Act::JjSet(n, c)),
            "git" => Some(Act::GitSet(n, c)),
            _ => None,
        }
    }
    fn label(&self) -> String {
        match self {
            Act::JjSet(_, 0) => "jj-delete",
            Act::JjSet(..) => "jj-set",
            Act::GitSet(_, 0) => "git-delete",
            Act::GitSet(..) => "git-set",
            Act::Import => "import",
            Act::Export => "export",
        }
        .to_string()
    }
}

fn history_json(h: &[Act]) -> Value {
    json!({ "history": h.iter().map(|a| a.render()).collect::<Vec<_>>() })
}

// ---------------------------------------------------------------------------------------
// Reference: ancestry of the labelled commits and the allowed three-way merges
// ---------------------------------------------------------------------------------------

/// reflexive ancestry over the labels (root is not a label)
fn anc(a: Cm, b: Cm) -> bool {
    a == b || (a == 1 && (b == 2 || b == 4))
}

/// A bookmark target as jj stores it: alternating adds/removes, `None` = absent side.
type Terms = Vec<Option<Cm>>;
type Counts = BTreeMap<Option<Cm>, i32>;

fn counts_of(terms: &[Option<Cm>]) -> Counts {
    let mut m = Counts::new();
    for (i, t) in terms.iter().enumerate() {
        *m.entry(*t).or_insert(0) += if i % 2 == 0 { 1 } else { -1 };
    }
    m.retain(|_, v| *v != 0);
    m
}

fn resolved(c: Option<Cm>) -> Counts {
    [(c, 1)].into_iter().collect()
}

/// If the signed counts denote a single value by cancellation or by the same-change rule
/// (`A + (A - B) = A`), that value.
fn trivially_resolved(m: &Counts) -> Option<Option<Cm>> {
    match m.len() {
        1 => {
            let (v, n) = m.iter().next().unwrap();
            (*n == 1).then_some(*v)
        }
        2 => {
            let mut it = m.iter();
            let (v1, n1) = it.next().unwrap();
            let (v2, n2) = it.next().unwrap();
            if n1 + n2 != 1 {
                return None;
            }
            Some(if *n1 > 0 { *v1 } else { *v2 })
        }
        _ => None,
    }
}

/// Everything a correct three-way merge of bookmark targets may produce from the signed
/// sum `local + theirs - base`: the cancelled sum itself, anything reachable from it by
/// fast-forward steps (drop an add that is an ancestor of another add together with a
/// remove that is absent or an ancestor of the dropped add), and the trivial resolution of
/// any of those.
fn allowed_merges(local: &[Option<Cm>], base: Option<Cm>, theirs: Option<Cm>) -> BTreeSet<Counts> {
    let mut start = counts_of(local);
    *start.entry(theirs).or_insert(0) += 1;
    *start.entry(base).or_insert(0) -= 1;
    start.retain(|_, v| *v != 0);
    let mut seen: BTreeSet<Counts> = BTreeSet::new();
    let mut todo = vec![start];
    while let Some(m) = todo.pop() {
        if !seen.insert(m.clone()) {
            continue;
        }
        let adds: Vec<(Cm, i32)> =
            m.iter().filter_map(|(k, n)| k.filter(|_| *n > 0).map(|c| (c, *n))).collect();
        let removes: Vec<Option<Cm>> = m.iter().filter(|(_, n)| **n < 0).map(|(k, _)| *k).collect();
        for &(a1, n1) in &adds {
            for &(a2, _) in &adds {
                let pair_ok = if a1 == a2 { n1 >= 2 } else { anc(a1, a2) };
                if !pair_ok {
                    continue;
                }
                for r in &removes {
                    let r_ok = match r {
                        None => true,
                        Some(r) => anc(*r, a1),
                    };
                    if !r_ok {
                        continue;
                    }
                    let mut m2 = m.clone();
                    *m2.entry(Some(a1)).or_insert(0) -= 1;
                    *m2.entry(*r).or_insert(0) += 1;
                    m2.retain(|_, v| *v != 0);
                    todo.push(m2);
                }
            }
        }
    }
    let extra: Vec<Counts> = seen.iter().filter_map(trivially_resolved).map(resolved).collect();
    seen.extend(extra);
    seen
}

fn is_conflicted(t: &[Option<Cm>]) -> bool {
    t.len() > 1
}

fn single(t: &[Option<Cm>]) -> Option<Cm> {
    // value of a non-conflicted target (0 = absent)
    debug_assert!(t.len() == 1);
    t[0]
}

fn terms_str(t: &[Option<Cm>]) -> String {
    let mut s = String::new();
    for (i, v) in t.iter().enumerate() {
        if i > 0 {
            s.push(if i % 2 == 0 { '+' } else { '-' });
        }
        s.push_str(&match v {
            None => "-".to_string(),
            Some(c) => format!("c{c}"),
        });
    }
    if t.len() > 1 { format!("[{s}]") } else { s }
}

fn opt(c: Cm) -> Option<Cm> {
    (c != 0).then_some(c)
}

// ---------------------------------------------------------------------------------------
// The world: a real colocated workspace, rebuilt from scratch for every history
// ---------------------------------------------------------------------------------------

#[derive(Clone, Debug, PartialEq, Eq)]
struct NameObs {
    /// local bookmark
    l: Terms,
    /// actual refs/heads/<name> in the Git repository
    g: Option<Cm>,
    /// jj's recorded git ref (view.git_refs)
    k: Terms,
    /// jj's `<name>@git` remote bookmark: target and tracked flag
    r: Terms,
    r_tracked: bool,
}

#[derive(Clone, Debug, PartialEq, Eq)]
struct Obs {
    names: Vec<NameObs>,
    /// bit i = labelled commit i is visible in jj (ancestor of a visible head)
    visible: u8,
    /// bit i = labelled commit i is known to jj's index
    known: u8,
}

struct World {
    dir: PathBuf,
    repo: Arc<ReadonlyRepo>,
    /// label -> commit id (index 0 unused)
    ids: Vec<CommitId>,
    ghost: Vec<Option<Cm>>,
    /// the directory outlives this value (it became a snapshot)
    keep: bool,
}

fn sig(secs: i64) -> Signature {
    Signature {
        name: "Test User".to_string(),
        email: "test.user@example.com".to_string(),
        timestamp: Timestamp { timestamp: MillisSinceEpoch(secs * 1000), tz_offset: 0 },
    }
}

fn settings(seed: u64) -> UserSettings {
    static CACHE: Mutex<Option<StackedConfig>> = Mutex::new(None);
    let mut config = CACHE
        .lock()
        .unwrap()
        .get_or_insert_with(|| {
            let mut config = testutils::base_user_config();
            config.add_layer(
                ConfigLayer::parse(
                    ConfigSource::User,
                    "debug.commit-timestamp = \"2001-02-03T04:05:06+00:00\"\n\
                     debug.operation-timestamp = \"2001-02-03T04:05:07+00:00\"\n",
                )
                .unwrap(),
            );
            config
        })
        .clone();
    config.add_layer(
        ConfigLayer::parse(ConfigSource::User, &format!("debug.randomness-seed = {seed}\n")).unwrap(),
    );
    // a fresh RNG per world: change ids are a function of the history
    UserSettings::from_config(config).unwrap_or_else(|e| machinery_failure(&format!("settings: {e}")))
}

fn import_options() -> GitImportOptions {
    // what the CLI uses by default
    GitImportOptions {
        abandon_unreachable_commits: true,
        record_synthetic_predecessors: true,
        remote_auto_track_bookmarks: HashMap::new(),
    }
}

static WORLD_SEQ: AtomicU64 = AtomicU64::new(0);

/// The initial state (colocated workspace with c1..c3 written by jj and c4 written by git) is
/// built once with the real API; every history starts from a byte copy of that directory,
/// loaded through `RepoLoader` (building it afresh cost ~170 ms per history under load).
struct Template {
    dir: PathBuf,
    ids: Vec<CommitId>,
}

static TEMPLATE: OnceLock<Template> = OnceLock::new();

fn build_template(scratch: &Path) -> Template {
    let dir = scratch.join("template");
    std::fs::create_dir_all(&dir).unwrap_or_else(|e| machinery_failure(&format!("mkdir: {e}")));
    let settings = settings(42);
    let (_ws, repo) = Workspace::init_colocated_git(&settings, &dir, gix::hash::Kind::Sha1)
        .block_on()
        .unwrap_or_else(|e| machinery_failure(&format!("init_colocated_git: {e}")));
    let mut tx = repo.start_transaction();
    let mr = tx.repo_mut();
    let root = mr.store().root_commit_id().clone();
    let tree = mr.store().empty_merged_tree();
    let mk = |mr: &mut jj_lib::repo::MutableRepo, parent: &CommitId, n: i64| {
        mr.new_commit(vec![parent.clone()], tree.clone())
            .set_description(format!("c{n}"))
            .set_author(sig(1000 + n))
            .set_committer(sig(1000 + n))
            .write()
            .block_on()
            .unwrap_or_else(|e| machinery_failure(&format!("write commit: {e}")))
    };
    let c1 = mk(mr, &root, 1);
    let c2 = mk(mr, c1.id(), 2);
    let c3 = mk(mr, &root, 3);
    tx.commit("setup")
        .block_on()
        .unwrap_or_else(|e| machinery_failure(&format!("setup commit: {e}")));
    // c4: a commit only git knows about (child of c1), left unreferenced
    let g = testutils::git::open(&dir);
    let empty_tree = g.empty_tree().id().detach();
    let c1_oid = gix::ObjectId::from_bytes_or_panic(c1.id().as_bytes());
    let c4_oid = testutils::git::write_commit(&g, "refs/verif-tmp/c4", empty_tree, "c4 (git only)", &[c1_oid]);
    g.find_reference("refs/verif-tmp/c4")
        .unwrap_or_else(|e| machinery_failure(&format!("tmp ref: {e}")))
        .delete()
        .unwrap_or_else(|e| machinery_failure(&format!("tmp ref delete: {e}")));
    let ids = vec![
        root, // unused slot 0
        c1.id().clone(),
        c2.id().clone(),
        c3.id().clone(),
        CommitId::from_bytes(c4_oid.as_bytes()),
    ];
    Template { dir, ids }
}

fn copy_dir(src: &Path, dst: &Path) {
    std::fs::create_dir_all(dst).unwrap_or_else(|e| machinery_failure(&format!("mkdir {dst:?}: {e}")));
    let entries = std::fs::read_dir(src).unwrap_or_else(|e| machinery_failure(&format!("readdir {src:?}: {e}")));
    for e in entries {
        let e = e.unwrap_or_else(|e| machinery_failure(&format!("readdir: {e}")));
        let ft = e.file_type().unwrap_or_else(|e| machinery_failure(&format!("file type: {e}")));
        let to = dst.join(e.file_name());
        if ft.is_dir() {
            copy_dir(&e.path(), &to);
        } else if ft.is_file() {
            std::fs::copy(e.path(), &to).unwrap_or_else(|e| machinery_failure(&format!("copy: {e}")));
        } else {
            machinery_failure(&format!("unexpected file type in the template: {:?}", e.path()));
        }
    }
}

impl World {
    fn new(scratch: &Path) -> World {
        let t = TEMPLATE.get_or_init(|| build_template(scratch));
        World::from_copy(&t.dir, scratch)
    }

    /// A world whose workspace is a byte copy of `src` (the template or the kept directory of an
    /// earlier world), loaded through `RepoLoader`.
    fn from_copy(src: &Path, scratch: &Path) -> World {
        let t = TEMPLATE.get_or_init(|| build_template(scratch));
        let dir = scratch.join(format!("w{}", WORLD_SEQ.fetch_add(1, Ordering::Relaxed)));
        copy_dir(src, &dir);
        // another seed than the template's, so that a commit jj might create later never repeats
        // a change id of c1..c3
        let settings = settings(43);
        let repo = RepoLoader::init_from_file_system(
            &settings,
            &dir.join(".jj").join("repo"),
            &jj_lib::default_backend_factories::default_backend_factories(),
        )
        .unwrap_or_else(|e| machinery_failure(&format!("load copied repo: {e}")))
        .load_at_head()
        .block_on()
        .unwrap_or_else(|e| machinery_failure(&format!("load copied repo at head: {e}")));
        World { dir, repo, ids: t.ids.clone(), ghost: vec![None; NAMES.len()], keep: false }
    }

    fn label_of(&self, id: &CommitId) -> Cm {
        match self.ids.iter().skip(1).position(|x| x == id) {
            Some(i) => (i + 1) as Cm,
            None => 99,
        }
    }

    fn terms_of(&self, t: &RefTarget) -> Terms {
        t.as_merge().iter().map(|v| v.as_ref().map(|id| self.label_of(id))).collect()
    }

    fn git_branch(&self, g: &gix::Repository, name: &str) -> Option<Cm> {
        let r = g
            .try_find_reference(&format!("refs/heads/{name}"))
            .unwrap_or_else(|e| machinery_failure(&format!("find ref: {e}")))?;
        let id = r.target().try_id().map(|id| id.to_owned());
        match id {
            Some(id) => Some(self.label_of(&CommitId::from_bytes(id.as_bytes()))),
            None => Some(98), // symbolic: never produced by the harness
        }
    }

    fn observe(&self) -> Obs {
        let g = testutils::git::open(&self.dir);
        let view = self.repo.view();
        let mut names = vec![];
        for n in NAMES {
            let name: &RefName = n.as_ref();
            let l = self.terms_of(view.get_local_bookmark(name));
            let full = format!("refs/heads/{n}");
            let k = self.terms_of(view.get_git_ref(GitRefName::new(&full)));
            let rr = view.get_remote_bookmark(RemoteRefSymbol {
                name,
                remote: git::REMOTE_NAME_FOR_LOCAL_GIT_REPO,
            });
            names.push(NameObs {
                l,
                g: self.git_branch(&g, n),
                k,
                r: self.terms_of(&rr.target),
                r_tracked: rr.is_tracked(),
            });
        }
        let index = self.repo.index();
        let heads: Vec<CommitId> = view.heads().iter().cloned().collect();
        let mut visible = 0u8;
        let mut known = 0u8;
        for c in 1..=4usize {
            let id = &self.ids[c];
            let has = index
                .has_id(id)
                .block_on()
                .unwrap_or_else(|e| machinery_failure(&format!("index: {e}")));
            if !has {
                continue;
            }
            known |= 1 << c;
            for h in &heads {
                if index
                    .is_ancestor(id, h)
                    .block_on()
                    .unwrap_or_else(|e| machinery_failure(&format!("index: {e}")))
                {
                    visible |= 1 << c;
                    break;
                }
            }
        }
        Obs { names, visible, known }
    }
}

impl Drop for World {
    fn drop(&mut self) {
        if !self.keep {
            let _ = std::fs::remove_dir_all(&self.dir);
        }
    }
}

/// The workspace as it was after a history, kept on disk so that the histories extending it by
/// one action start from a copy instead of replaying the whole prefix.  `--replay` and the
/// start-up gate always rebuild from the template and replay everything.
struct Snap {
    dir: PathBuf,
    ghost: Vec<Option<Cm>>,
    obs: Obs,
    len: usize,
}

impl Drop for Snap {
    fn drop(&mut self) {
        let _ = std::fs::remove_dir_all(&self.dir);
    }
}

#[derive(Default)]
struct Snaps(Mutex<HashMap<String, Arc<Snap>>>);

fn hist_id(h: &[Act]) -> String {
    h.iter().map(|a| a.render()).collect::<Vec<_>>().join(" ")
}

impl Snaps {
    fn get(&self, h: &[Act]) -> Option<Arc<Snap>> {
        self.0.lock().unwrap().get(&hist_id(h)).cloned()
    }
    fn insert(&self, h: &[Act], snap: Snap) {
        let mut m = self.0.lock().unwrap();
        // levels are explored one after the other: grand-parents are no longer needed
        let len = snap.len;
        m.retain(|_, s| s.len + 2 > len);
        m.insert(hist_id(h), Arc::new(snap));
    }
}

// ---------------------------------------------------------------------------------------
// Executing one action with the real code
// ---------------------------------------------------------------------------------------

#[derive(Default)]
struct SyncReport {
    /// import: names reported in changed_remote_bookmarks; export: names in failed_bookmarks
    names: Vec<String>,
    export_failure_kinds: Vec<&'static str>,
    abandoned: usize,
    has_changes: bool,
}

fn failure_kind(r: &FailedRefExportReason) -> &'static str {
    match r {
        FailedRefExportReason::InvalidGitName => "InvalidGitName",
        FailedRefExportReason::ConflictedOldState => "ConflictedOldState",
        FailedRefExportReason::OnRootCommit => "OnRootCommit",
        FailedRefExportReason::DeletedInJjModifiedInGit => "DeletedInJjModifiedInGit",
        FailedRefExportReason::AddedInJjAddedInGit => "AddedInJjAddedInGit",
        FailedRefExportReason::ModifiedInJjDeletedInGit => "ModifiedInJjDeletedInGit",
        FailedRefExportReason::FailedToDelete(_) => "FailedToDelete",
        FailedRefExportReason::FailedToSet(_) => "FailedToSet",
    }
}

/// Runs one action; `Err((clause, message))` when the real code returned an error or panicked.
fn execute(w: &mut World, a: &Act) -> Result<SyncReport, (String, String)> {
    match a {
        Act::GitSet(n, c) => {
            // the harness plays "git": a failure here is a machinery failure
            let g = testutils::git::open(&w.dir);
            let full = format!("refs/heads/{}", NAMES[*n]);
            if *c == 0 {
                let r = g
                    .find_reference(&full)
                    .unwrap_or_else(|e| machinery_failure(&format!("git delete of a missing ref: {e}")));
                r.delete().unwrap_or_else(|e| machinery_failure(&format!("git delete: {e}")));
            } else {
                let oid = gix::ObjectId::from_bytes_or_panic(w.ids[*c as usize].as_bytes());
                g.reference(full.as_str(), oid, gix::refs::transaction::PreviousValue::Any, "verif")
                    .unwrap_or_else(|e| machinery_failure(&format!("git set: {e}")));
            }
            Ok(SyncReport::default())
        }
        Act::JjSet(n, c) => {
            let repo = w.repo.clone();
            let ids = w.ids.clone();
            let r = vcommon::catch(move || -> Result<Arc<ReadonlyRepo>, String> {
                let mut tx = repo.start_transaction();
                let mr = tx.repo_mut();
                let name: &RefName = NAMES[*n].as_ref();
                if *c == 0 {
                    mr.set_local_bookmark_target(name, RefTarget::absent());
                } else {
                    let id = &ids[*c as usize];
                    // like `jj bookmark set -r <hidden commit>`: make the target visible
                    let commit = mr.store().get_commit(id).map_err(|e| format!("{e}"))?;
                    mr.add_head(&commit).block_on().map_err(|e| format!("{e}"))?;
                    mr.set_local_bookmark_target(name, RefTarget::normal(id.clone()));
                }
                tx.commit("jj bookmark").block_on().map_err(|e| format!("{e}"))
            });
            match r {
                Ok(Ok(repo)) => {
                    w.repo = repo;
                    Ok(SyncReport::default())
                }
                // bookmark edits are not the subject: treat as harness trouble
                Ok(Err(e)) => machinery_failure(&format!("jj bookmark edit failed: {e}")),
                Err(p) => machinery_failure(&format!("jj bookmark edit panicked: {p}")),
            }
        }
        Act::Import => {
            let repo = w.repo.clone();
            let r = vcommon::catch(move || -> Result<(Arc<ReadonlyRepo>, SyncReport), String> {
                let mut tx = repo.start_transaction();
                let stats = git::import_refs(tx.repo_mut(), &import_options())
                    .block_on()
                    .map_err(|e| format!("import_refs: {e}"))?;
                tx.repo_mut().rebase_descendants().block_on().map_err(|e| format!("rebase_descendants: {e}"))?;
                let rep = SyncReport {
                    names: stats
                        .changed_remote_bookmarks
                        .iter()
                        .map(|u| u.symbol.name.as_str().to_string())
                        .collect(),
                    export_failure_kinds: vec![],
                    abandoned: stats.abandoned_commits.len(),
                    has_changes: tx.repo().has_changes(),
                };
                let repo = tx.commit("import git refs").block_on().map_err(|e| format!("commit: {e}"))?;
                Ok((repo, rep))
            });
            match r {
                Ok(Ok((repo, rep))) => {
                    w.repo = repo;
                    Ok(rep)
                }
                Ok(Err(e)) => Err(("import/error".into(), e)),
                Err(p) => Err(("import/panic".into(), p)),
            }
        }
        Act::Export => {
            let repo = w.repo.clone();
            let r = vcommon::catch(move || -> Result<(Arc<ReadonlyRepo>, SyncReport), String> {
                let mut tx = repo.start_transaction();
                let stats = git::export_refs(tx.repo_mut()).map_err(|e| format!("export_refs: {e}"))?;
                let rep = SyncReport {
                    names: stats.failed_bookmarks.iter().map(|(s, _)| s.name.as_str().to_string()).collect(),
                    export_failure_kinds: stats.failed_bookmarks.iter().map(|(_, r)| failure_kind(r)).collect(),
                    abandoned: 0,
                    has_changes: tx.repo().has_changes(),
                };
                let repo = tx.commit("export git refs").block_on().map_err(|e| format!("commit: {e}"))?;
                Ok((repo, rep))
            });
            match r {
                Ok(Ok((repo, rep))) => {
                    w.repo = repo;
                    Ok(rep)
                }
                Ok(Err(e)) => Err(("export/error".into(), e)),
                Err(p) => Err(("export/panic".into(), p)),
            }
        }
    }
}

// ---------------------------------------------------------------------------------------
// Oracle
// ---------------------------------------------------------------------------------------

#[derive(Default)]
struct Stats {
    // import
    imports: Counter,
    import_git_unchanged_names: Counter,
    import_propagated: Counter,
    import_propagated_delete: Counter,
    import_both_same: Counter,
    import_conflict_created: Counter,
    import_conflict_with_absent_side: Counter,
    import_fast_forward_resolution: Counter,
    import_on_conflicted_local: Counter,
    import_conflict_resolved_by_git_move: Counter,
    import_new_commit_c4: Counter,
    import_abandoned_commits: Counter,
    // export
    exports: Counter,
    export_propagated_create: Counter,
    export_propagated_move: Counter,
    export_propagated_delete: Counter,
    export_both_changed_kept_git: Counter,
    export_both_changed_same_value: Counter,
    export_conflicted_skipped: Counter,
    export_jj_unchanged_git_changed: Counter,
    export_failures: Mutex<BTreeMap<String, u64>>,
    // probes
    probes: Counter,
    probes_with_conflict_left: Counter,
    probes_out_of_sync_before: Counter,
    second_import_checked: Counter,
    probe_transitions_judged: Counter,
    // bookkeeping
    k_differs_from_ghost: Counter,
    started_from_snapshot: Counter,
    started_from_template: Counter,
    t_new_us: Counter,
    t_exec_us: Counter,
    /// canonical states whose convergence probe has been claimed
    probed: Mutex<HashSet<String>>,
    t_obs_us: Counter,
    r_differs_from_ghost: Counter,
    nontrivial_states: Mutex<HashSet<u64>>,
    samples: Mutex<Vec<Value>>,
}

struct Outcome {
    key: String,
    actions: Vec<Act>,
    violations: Vec<(String, String)>,
}

fn check_import(pre: &Obs, post: &Obs, ghost: &[Option<Cm>], st: &Stats, v: &mut Vec<(String, String)>) {
    st.imports.inc();
    for (i, n) in NAMES.iter().enumerate() {
        let (p, q, b) = (&pre.names[i], &post.names[i], ghost[i]);
        if q.g != p.g {
            v.push((
                "C34/import/git-branch-written".into(),
                format!("import changed git branch {n}: {:?} -> {:?}", p.g, q.g),
            ));
        }
        if p.g == b {
            st.import_git_unchanged_names.inc();
            if q.l != p.l {
                v.push((
                    "C34/import/local-changed-without-git-change".into(),
                    format!(
                        "git branch {n} did not change since the last sync ({}), but import changed the local \
                         bookmark {} -> {}",
                        terms_str(&[b]),
                        terms_str(&p.l),
                        terms_str(&q.l)
                    ),
                ));
            }
            continue;
        }
        // the git side changed: B -> p.g
        let allowed = allowed_merges(&p.l, b, p.g);
        let got = counts_of(&q.l);
        let jj_unchanged = p.l == vec![b];
        let shape = if jj_unchanged {
            "one-sided"
        } else if is_conflicted(&p.l) {
            "local-was-conflicted"
        } else if p.l == vec![p.g] {
            "both-same"
        } else {
            "both-changed"
        };
        if !allowed.contains(&got) {
            let sig = match shape {
                "one-sided" => "C34/import/git-change-not-propagated",
                "both-same" => "C34/import/same-change-not-kept",
                "both-changed" => "C34/import/conflicting-change-overwritten",
                _ => "C34/import/conflicted-bookmark-merge-dropped-a-side",
            };
            v.push((
                sig.into(),
                format!(
                    "bookmark {n}: local {} , last synced {} , git now {} ; import produced {} which is not a \
                     three-way merge of these (allowed signed sums: {:?})",
                    terms_str(&p.l),
                    terms_str(&[b]),
                    terms_str(&[p.g]),
                    terms_str(&q.l),
                    allowed
                ),
            ));
        } else if trivially_resolved(&got).is_some() && is_conflicted(&q.l) {
            v.push((
                "C34/import/unsimplified-conflict".into(),
                format!(
                    "bookmark {n}: import left {} although it denotes a single value",
                    terms_str(&q.l)
                ),
            ));
        } else {
            match shape {
                "one-sided" => {
                    if p.g.is_none() {
                        st.import_propagated_delete.inc();
                    } else {
                        st.import_propagated.inc();
                    }
                }
                "both-same" => st.import_both_same.inc(),
                "both-changed" => {
                    if is_conflicted(&q.l) {
                        st.import_conflict_created.inc();
                        if q.l.iter().step_by(2).any(|t| t.is_none()) {
                            st.import_conflict_with_absent_side.inc();
                        }
                    } else {
                        st.import_fast_forward_resolution.inc();
                    }
                }
                _ => {
                    st.import_on_conflicted_local.inc();
                    if !is_conflicted(&q.l) {
                        st.import_conflict_resolved_by_git_move.inc();
                    }
                }
            }
        }
    }
    if post.known & (1 << 4) != 0 && pre.known & (1 << 4) == 0 {
        st.import_new_commit_c4.inc();
    }
}

fn check_export(
    pre: &Obs,
    post: &Obs,
    ghost: &[Option<Cm>],
    rep: &SyncReport,
    st: &Stats,
    v: &mut Vec<(String, String)>,
) {
    st.exports.inc();
    {
        let mut m = st.export_failures.lock().unwrap();
        for k in &rep.export_failure_kinds {
            *m.entry(k.to_string()).or_insert(0) += 1;
        }
    }
    for (i, n) in NAMES.iter().enumerate() {
        let (p, q, b) = (&pre.names[i], &post.names[i], ghost[i]);
        if q.l != p.l {
            v.push((
                "C34/export/local-bookmark-changed".into(),
                format!("export changed local bookmark {n}: {} -> {}", terms_str(&p.l), terms_str(&q.l)),
            ));
        }
        let jj_changed = p.l != vec![b];
        let git_changed = p.g != b;
        if is_conflicted(&p.l) {
            if q.g != p.g {
                v.push((
                    "C34/export/conflicted-bookmark-exported".into(),
                    format!(
                        "bookmark {n} is conflicted ({}), export moved git branch {:?} -> {:?}",
                        terms_str(&p.l),
                        p.g,
                        q.g
                    ),
                ));
            } else {
                st.export_conflicted_skipped.inc();
            }
            continue;
        }
        let l = single(&p.l);
        if !jj_changed {
            if q.g != p.g {
                v.push((
                    "C34/export/git-change-overwritten-by-unchanged-bookmark".into(),
                    format!(
                        "bookmark {n} did not change in jj since the last sync ({}), yet export moved git branch \
                         {:?} -> {:?}",
                        terms_str(&[b]),
                        p.g,
                        q.g
                    ),
                ));
            } else if git_changed {
                st.export_jj_unchanged_git_changed.inc();
            }
        } else if !git_changed {
            if q.g != l {
                v.push((
                    "C34/export/jj-change-not-propagated".into(),
                    format!(
                        "only jj changed bookmark {n} ({} -> {}), git branch still at {} after export: {:?}{}",
                        terms_str(&[b]),
                        terms_str(&p.l),
                        terms_str(&[p.g]),
                        q.g,
                        if rep.names.iter().any(|x| x == n) { " (reported as failed)" } else { "" }
                    ),
                ));
            } else if l.is_none() {
                st.export_propagated_delete.inc();
            } else if b.is_none() {
                st.export_propagated_create.inc();
            } else {
                st.export_propagated_move.inc();
            }
        } else if p.g == l {
            // both sides made the same change
            if q.g != p.g {
                v.push((
                    "C34/export/same-change-disturbed".into(),
                    format!("bookmark {n}: both sides at {:?}, export moved git to {:?}", p.g, q.g),
                ));
            } else {
                st.export_both_changed_same_value.inc();
            }
        } else {
            // both changed, differently: git's value must survive
            if q.g != p.g {
                v.push((
                    "C34/export/git-change-overwritten".into(),
                    format!(
                        "bookmark {n}: last synced {}, jj moved it to {}, git moved it to {}; export overwrote git's \
                         value with {:?}",
                        terms_str(&[b]),
                        terms_str(&p.l),
                        terms_str(&[p.g]),
                        q.g
                    ),
                ));
            } else {
                st.export_both_changed_kept_git.inc();
            }
        }
    }
}

fn update_ghost(a: &Act, post: &Obs, ghost: &mut [Option<Cm>]) {
    match a {
        Act::Import => {
            for i in 0..NAMES.len() {
                ghost[i] = post.names[i].g;
            }
        }
        Act::Export => {
            for i in 0..NAMES.len() {
                let q = &post.names[i];
                if !is_conflicted(&q.l) && single(&q.l) == q.g {
                    ghost[i] = q.g;
                }
            }
        }
        _ => {}
    }
}

fn name_key(o: &NameObs, b: Option<Cm>) -> String {
    format!(
        "l={} g={} k={} r={}{} b={}",
        terms_str(&o.l),
        terms_str(&[o.g]),
        terms_str(&o.k),
        terms_str(&o.r),
        if o.r_tracked { "" } else { "?" },
        terms_str(&[b])
    )
}

fn state_key(o: &Obs, ghost: &[Option<Cm>]) -> String {
    // x and y are interchangeable: sort the per-name renderings
    let mut per: Vec<String> = (0..NAMES.len()).map(|i| name_key(&o.names[i], ghost[i])).collect();
    per.sort();
    format!("{} | vis={:05b} known={:05b}", per.join(" ; "), o.visible, o.known)
}

fn enabled(o: &Obs) -> Vec<Act> {
    let mut acts = vec![];
    for n in 0..NAMES.len() {
        for c in JJ_TARGETS {
            if o.names[n].l != vec![opt(c)] {
                acts.push(Act::JjSet(n, c));
            }
        }
    }
    for n in 0..NAMES.len() {
        for c in GIT_TARGETS {
            if o.names[n].g != opt(c) {
                acts.push(Act::GitSet(n, c));
            }
        }
    }
    acts.push(Act::Import);
    acts.push(Act::Export);
    acts
}

/// Builds the state reached by `history` (from the kept directory of its parent history when
/// there is one, else by replaying everything from the template), checks the last transition,
/// then probes convergence.
fn step(scratch: &Path, st: &Stats, snaps: Option<&Snaps>, keep: bool, history: &[Act]) -> Option<Outcome> {
    let t0 = std::time::Instant::now();
    let parent = match (snaps, history.split_last()) {
        (Some(s), Some((_, init))) => s.get(init),
        _ => None,
    };
    let mut violations: Vec<(String, String)> = vec![];
    let (mut w, mut obs, start) = match &parent {
        Some(snap) => {
            let mut w = World::from_copy(&snap.dir, scratch);
            w.ghost = snap.ghost.clone();
            st.started_from_snapshot.inc();
            (w, snap.obs.clone(), history.len() - 1)
        }
        None => {
            let w = World::new(scratch);
            let obs = w.observe();
            if obs.known & 0b11110 != 0b01110 {
                machinery_failure("setup: jj should know c1..c3 and not c4");
            }
            st.started_from_template.inc();
            (w, obs, 0)
        }
    };
    st.t_new_us.add(t0.elapsed().as_micros() as u64);
    for (i, a) in history.iter().enumerate().skip(start) {
        let last = i + 1 == history.len();
        let pre = obs.clone();
        let ghost_pre = w.ghost.clone();
        let t0 = std::time::Instant::now();
        let executed = execute(&mut w, a);
        st.t_exec_us.add(t0.elapsed().as_micros() as u64);
        match executed {
            Err((clause, msg)) => {
                if last {
                    violations.push((format!("C34/{clause}"), format!("{} failed: {msg}", a.render())));
                    // the state is not usable for further exploration
                    return Some(Outcome { key: format!("!error {}", history_json(history)), actions: vec![], violations });
                }
                // a prefix that failed was reported when it was the last action, and was not extended
                return None;
            }
            Ok(rep) => {
                let t0 = std::time::Instant::now();
                obs = w.observe();
                st.t_obs_us.add(t0.elapsed().as_micros() as u64);
                if obs.names.iter().any(|n| n.g == Some(98) || n.g == Some(99)) {
                    machinery_failure("unexpected git ref target");
                }
                if last {
                    match a {
                        Act::Import => {
                            check_import(&pre, &obs, &ghost_pre, st, &mut violations);
                            st.import_abandoned_commits.add(rep.abandoned as u64);
                        }
                        Act::Export => check_export(&pre, &obs, &ghost_pre, &rep, st, &mut violations),
                        Act::JjSet(..) => {
                            if pre.names.iter().zip(&obs.names).any(|(p, q)| p.g != q.g) {
                                violations.push((
                                    "C34/jj-edit/git-branch-written".into(),
                                    "a jj bookmark edit without export changed a git branch".into(),
                                ));
                            }
                        }
                        Act::GitSet(..) => {}
                    }
                }
                let mut ghost = w.ghost.clone();
                update_ghost(a, &obs, &mut ghost);
                w.ghost = ghost;
            }
        }
    }
    let key = state_key(&obs, &w.ghost);
    let actions = enabled(&obs);
    for i in 0..NAMES.len() {
        let o = &obs.names[i];
        if history.last().is_some_and(|a| matches!(a, Act::Import | Act::Export)) {
            // informational: jj's own bookkeeping normally equals the ghost right after a sync
            if matches!(history.last(), Some(Act::Import)) {
                if o.k != vec![w.ghost[i]] {
                    st.k_differs_from_ghost.inc();
                }
                if o.r != vec![w.ghost[i]] {
                    st.r_differs_from_ghost.inc();
                }
            }
        }
    }
    let out_of_sync = obs.names.iter().any(|o| is_conflicted(&o.l) || single(&o.l) != o.g);
    if out_of_sync {
        st.nontrivial_states.lock().unwrap().insert(vcommon::fnv(key.as_bytes()));
    }

    // ---- probe: import; export; import (a function of the state: once per state) --------
    let first_visit = st.probed.lock().unwrap().insert(key.clone());
    if violations.is_empty() && first_visit {
        st.probes.inc();
        if out_of_sync {
            st.probes_out_of_sync_before.inc();
        }
        let probe = |w: &mut World, a: Act, violations: &mut Vec<(String, String)>| -> Option<SyncReport> {
            match execute(w, &a) {
                Ok(rep) => Some(rep),
                Err((clause, msg)) => {
                    violations.push((format!("C34/probe/{clause}"), format!("probe {} failed: {msg}", a.render())));
                    None
                }
            }
        };
        // the probe runs on a copy when this world's directory is going to be kept as the
        // starting point of the histories that extend this one
        let mut copy_holder;
        let pw: &mut World = if keep && snaps.is_some() {
            copy_holder = World::from_copy(&w.dir, scratch);
            copy_holder.ghost = w.ghost.clone();
            &mut copy_holder
        } else {
            &mut w
        };
        // the probe's import and export are transitions like any other: judge them too
        let mut ghost = pw.ghost.clone();
        let mut cur = obs.clone();
        let mut ok = true;
        for a in [Act::Import, Act::Export] {
            match probe(pw, a.clone(), &mut violations) {
                None => {
                    ok = false;
                    break;
                }
                Some(rep) => {
                    let post = pw.observe();
                    st.probe_transitions_judged.inc();
                    match a {
                        Act::Import => check_import(&cur, &post, &ghost, st, &mut violations),
                        _ => check_export(&cur, &post, &ghost, &rep, st, &mut violations),
                    }
                    update_ghost(&a, &post, &mut ghost);
                    cur = post;
                }
            }
        }
        if ok {
            let synced = cur;
            let mut conflict_left = false;
            for (i, n) in NAMES.iter().enumerate() {
                let o = &synced.names[i];
                if is_conflicted(&o.l) {
                    conflict_left = true;
                    continue;
                }
                if single(&o.l) != o.g {
                    violations.push((
                        "C34/converge/git-differs-from-bookmark".into(),
                        format!(
                            "after import; export: local bookmark {n} = {} (not conflicted) but git branch = {}",
                            terms_str(&o.l),
                            terms_str(&[o.g])
                        ),
                    ));
                }
            }
            if conflict_left {
                st.probes_with_conflict_left.inc();
            }
            if let Some(rep) = probe(pw, Act::Import, &mut violations) {
                st.second_import_checked.inc();
                let again = pw.observe();
                if !rep.names.is_empty() || rep.has_changes || again != synced {
                    violations.push((
                        "C34/converge/second-import-changes-something".into(),
                        format!(
                            "after import; export a second import reported changed bookmarks {:?}, \
                             has_changes={}, state before {:?} after {:?}",
                            rep.names, rep.has_changes, synced, again
                        ),
                    ));
                }
            }
        }
    }
    {
        let mut samples = st.samples.lock().unwrap();
        if samples.len() < 6 && history.len() >= 3 {
            samples.push(json!({"history": history.iter().map(|a| a.render()).collect::<Vec<_>>(), "state": key}));
        }
    }
    if let (Some(snaps), true, true) = (snaps, keep, violations.is_empty()) {
        w.keep = true;
        snaps.insert(history, Snap { dir: w.dir.clone(), ghost: w.ghost.clone(), obs: obs.clone(), len: history.len() });
    }
    Some(Outcome { key, actions, violations })
}

// ---------------------------------------------------------------------------------------

fn self_test_reference() {
    // the reference merge must accept the textbook cases and reject dropping a side
    let c = |t: &[Option<Cm>]| counts_of(t);
    let a = allowed_merges(&[Some(2)], Some(1), Some(3));
    if !a.contains(&c(&[Some(2), Some(1), Some(3)])) || a.contains(&c(&[Some(3)])) || a.contains(&c(&[Some(2)])) {
        machinery_failure("reference merge: sideways conflict");
    }
    let a = allowed_merges(&[Some(1)], Some(3), Some(2));
    // c1 and c2 are added from c3: stays a conflict (c3 is not an ancestor of c1)
    if a.contains(&c(&[Some(2)])) {
        machinery_failure("reference merge: fast-forward needs the base to be an ancestor");
    }
    let a = allowed_merges(&[Some(1)], None, Some(2));
    if !a.contains(&c(&[Some(2)])) {
        machinery_failure("reference merge: fast-forward from absent");
    }
    let a = allowed_merges(&[Some(1)], Some(1), Some(3));
    if a.len() != 1 || !a.contains(&c(&[Some(3)])) {
        machinery_failure("reference merge: one-sided change");
    }
    let a = allowed_merges(&[Some(2), Some(1), Some(3)], Some(3), Some(2));
    if !a.contains(&c(&[Some(2)])) {
        machinery_failure("reference merge: same change resolves");
    }
}

fn main() {
    let ctx = Ctx::from_args("C34", Level::ModelChecking);
    vcommon::silence_panics();
    testutils::hermetic_git();
    self_test_reference();
    let stats = Stats::default();
    let scratch = ctx.scratch().to_path_buf();

    if let Some((_sig, case)) = ctx.replay_case() {
        let history: Vec<Act> = case["history"]
            .as_array()
            .unwrap_or_else(|| machinery_failure("replay: no history"))
            .iter()
            .map(|v| {
                v.as_str()
                    .and_then(Act::parse)
                    .unwrap_or_else(|| machinery_failure("replay: bad action"))
            })
            .collect();
        match step(&scratch, &stats, None, false, &history) {
            None => machinery_failure("replay: history is not executable"),
            Some(o) => {
                println!("replayed {} actions; reached state: {}", history.len(), o.key);
                for (sig, msg) in o.violations {
                    ctx.violation(&sig, msg, history_json(&history));
                }
            }
        }
        ctx.finish(Coverage { evaluations: 1, ..Default::default() });
    }

    // determinism gate: one fixed history twice
    let gate: Vec<Act> = ["jj:x=c1", "export", "git:x=c4", "jj:x=c2", "git:y=c3", "import", "jj:x=c3", "export"]
        .iter()
        .map(|s| Act::parse(s).unwrap())
        .collect();
    let gate_stats = Stats::default();
    // make sure the template exists before anything runs concurrently
    drop(World::new(&scratch));
    // once by a full replay, once incrementally through kept snapshots: same observation
    let (g1, g2) = rayon::join(
        || step(&scratch, &gate_stats, None, false, &gate).map(|o| (o.key, o.violations)),
        || {
            let gate_snaps = Snaps::default();
            let mut g2 = None;
            for n in 0..=gate.len() {
                g2 = step(&scratch, &Stats::default(), Some(&gate_snaps), true, &gate[..n])
                    .map(|o| (o.key, o.violations));
            }
            g2
        },
    );
    if g1.is_none() || g1 != g2 {
        machinery_failure(
            "determinism gate: replaying a history from scratch and extending kept snapshots gave different observations",
        );
    }

    // Searches: thorough = one search from the empty colocated repository; quick = a shallower
    // search from the empty repository plus searches that start after a fixed prefix (a synced
    // bookmark, two synced bookmarks, a conflicted bookmark), so that move/move, delete/move and
    // "conflict, then more changes" situations are inside the quick bound.  Every history of at
    // most `depth` actions after each start is executed.
    // (start prefix, depth, restrict the edits to bookmark x)
    let plan: Vec<(Vec<&str>, usize, bool)> = if ctx.quick() {
        vec![
            (vec![], 3, false),
            (vec!["jj:x=c1", "export"], 3, true),
            (vec!["jj:x=c1", "jj:y=c3", "export"], 2, false),
            (vec!["jj:x=c2", "git:x=c3", "import"], 2, false),
        ]
    } else {
        vec![(vec![], 6, false)]
    };
    let wall_budget = ctx.pick(45.0, 840.0);
    let mut st = bfs::BfsStats::default();
    let mut per_search: Vec<Value> = vec![];
    let mut all_complete = true;
    for (prefix, depth, only_x) in &plan {
        let snaps = Snaps::default();
        let prefix_acts: Vec<Act> = prefix.iter().map(|s| Act::parse(s).unwrap()).collect();
        let cfg = bfs::BfsConfig {
            max_depth: *depth,
            max_states: 20_000_000,
            max_wall_s: (wall_budget - ctx.elapsed_s()).max(1.0),
        };
        let one = bfs::search(
            &cfg,
            |h: &[Act]| {
                let mut full = prefix_acts.clone();
                full.extend_from_slice(h);
                let o = step(&scratch, &stats, Some(&snaps), h.len() < *depth, &full)?;
                for (sig, msg) in &o.violations {
                    ctx.violation(sig, msg.clone(), history_json(&full));
                }
                let actions = o
                    .actions
                    .into_iter()
                    .filter(|a| !*only_x || !matches!(a, Act::JjSet(1, _) | Act::GitSet(1, _)))
                    .collect();
                Some(bfs::StepResult { key: o.key, actions })
            },
            |a| a.label(),
        );
        let complete = !one.capped && one.max_depth_completed >= *depth;
        all_complete &= complete;
        per_search.push(json!({
            "start_after": prefix,
            "depth": depth,
            "edits_restricted_to_bookmark_x": only_x,
            "states": one.states,
            "transitions": one.transitions,
            "max_depth_completed": one.max_depth_completed,
            "capped": one.capped,
            "invalid_histories": one.invalid,
            "per_depth_new_states": one.per_depth_states,
        }));
        st.transitions += one.transitions;
        st.invalid += one.invalid;
        st.capped |= one.capped;
        for (k, (n, m)) in one.per_action {
            let e = st.per_action.entry(k).or_insert((0, 0));
            e.0 += n;
            e.1 += m;
        }
        for h in one.sample_histories {
            if st.sample_histories.len() < 4 {
                st.sample_histories.push(format!("after {prefix:?}: {h}"));
            }
        }
    }
    // distinct canonical states over all searches
    st.states = stats.probed.lock().unwrap().len() as u64;
    let plan_text = plan
        .iter()
        .map(|(p, d, x)| format!("<= {d} actions{} after {p:?}", if *x { " (edits of bookmark x only)" } else { "" }))
        .collect::<Vec<_>>()
        .join("; ");

    if ctx.violation_count() == 0 {
        for (label, (n, newstates)) in &st.per_action {
            if *n > 0 && *newstates == 0 {
                machinery_failure(&format!("vacuous alphabet: action {label} never reached a new state"));
            }
        }
        for (name, c) in [
            ("import propagating a git-only change", &stats.import_propagated),
            ("import propagating a git-only deletion", &stats.import_propagated_delete),
            ("import turning conflicting changes into a conflict", &stats.import_conflict_created),
            ("export propagating a jj-only creation", &stats.export_propagated_create),
            ("export refusing to overwrite git's change", &stats.export_both_changed_kept_git),
            ("probe from an out-of-sync state", &stats.probes_out_of_sync_before),
            ("probe leaving a conflicted bookmark", &stats.probes_with_conflict_left),
        ] {
            if c.get() == 0 {
                machinery_failure(&format!("vacuous: no transition exercised '{name}'"));
            }
        }
    }

    let nontrivial = stats.nontrivial_states.lock().unwrap().len() as u64;
    let mut samples: Vec<Value> = std::mem::take(&mut *stats.samples.lock().unwrap());
    samples.extend(st.sample_histories.iter().map(|s| json!(s)));
    let failures = stats.export_failures.lock().unwrap().clone();
    let cov = Coverage {
        evaluations: st.transitions,
        distinct_nontrivial: nontrivial,
        rule: format!(
            "every history of {plan_text} out of: jj sets/deletes bookmark x|y (targets c1,c2,c3), git \
             sets/deletes branch x|y directly in the colocated repository (targets c1,c2,c3 and the git-only commit \
             c4), import_refs, export_refs; c1<c2, c1<c4, c3 unrelated; states merged on (local bookmark, actual git \
             branch, recorded git ref, @git remote bookmark, last-synced ghost value) per name with x/y interchangeable, \
             plus which labelled commits are visible / known to jj; every history is executed once (its last action on \
             a copy of the colocated workspace as its parent history left it; a start-up gate checks that this equals a \
             full replay from the initial workspace), the last transition is judged, then (once per distinct state) import; export; import is run as a \
             convergence probe; `states` = distinct canonical states over all searches; \
             non-trivial = distinct reached states in which some bookmark is conflicted or differs from its git branch"
        ),
        samples,
        exhaustive: all_complete,
        states: Some(st.states),
        transitions: Some(st.transitions),
        traces_validated_against_impl: Some(st.transitions),
        extra: [
            ("searches".to_string(), json!(per_search)),
            ("capped".to_string(), json!(st.capped)),
            ("invalid_histories".to_string(), json!(st.invalid)),
            ("per_action_transitions_and_new_states".to_string(), json!(st.per_action)),
            (
                "import_transitions".to_string(),
                json!({
                    "judged_incl_probe_imports": stats.imports.get(),
                    "names_with_git_unchanged_checked_untouched": stats.import_git_unchanged_names.get(),
                    "git_only_change_propagated": stats.import_propagated.get(),
                    "git_only_deletion_propagated": stats.import_propagated_delete.get(),
                    "both_sides_same_change": stats.import_both_same.get(),
                    "conflicting_changes_became_conflict": stats.import_conflict_created.get(),
                    "of_which_with_an_absent_side": stats.import_conflict_with_absent_side.get(),
                    "conflicting_changes_resolved_by_fast_forward": stats.import_fast_forward_resolution.get(),
                    "git_change_on_already_conflicted_bookmark": stats.import_on_conflicted_local.get(),
                    "of_which_resolved_the_conflict": stats.import_conflict_resolved_by_git_move.get(),
                    "imports_that_brought_in_c4": stats.import_new_commit_c4.get(),
                    "commits_abandoned_by_imports": stats.import_abandoned_commits.get(),
                }),
            ),
            (
                "export_transitions".to_string(),
                json!({
                    "judged_incl_probe_exports": stats.exports.get(),
                    "jj_only_creation_propagated": stats.export_propagated_create.get(),
                    "jj_only_move_propagated": stats.export_propagated_move.get(),
                    "jj_only_deletion_propagated": stats.export_propagated_delete.get(),
                    "both_changed_differently_git_kept": stats.export_both_changed_kept_git.get(),
                    "both_changed_to_same_value": stats.export_both_changed_same_value.get(),
                    "conflicted_bookmark_not_exported": stats.export_conflicted_skipped.get(),
                    "jj_unchanged_git_changed_left_alone": stats.export_jj_unchanged_git_changed.get(),
                    "reported_failures_by_reason": failures,
                }),
            ),
            (
                "convergence_probes".to_string(),
                json!({
                    "run": stats.probes.get(),
                    "from_out_of_sync_states": stats.probes_out_of_sync_before.get(),
                    "leaving_a_conflicted_bookmark": stats.probes_with_conflict_left.get(),
                    "second_import_checked": stats.second_import_checked.get(),
                    "probe_import_export_transitions_also_judged_by_the_transition_clauses": stats.probe_transitions_judged.get(),
                }),
            ),
            (
                "summed_thread_wall_time_us".to_string(),
                json!({"world_init": stats.t_new_us.get(), "replayed_actions": stats.t_exec_us.get(), "observations": stats.t_obs_us.get()}),
            ),
            (
                "histories_started_from".to_string(),
                json!({"kept_snapshot_of_the_parent_history": stats.started_from_snapshot.get(), "template_with_full_replay": stats.started_from_template.get()}),
            ),
            (
                "informational_recorded_git_ref_differs_from_ghost_after_import".to_string(),
                json!({"git_refs": stats.k_differs_from_ghost.get(), "at_git_remote": stats.r_differs_from_ghost.get()}),
            ),
        ]
        .into_iter()
        .collect(),
        assumptions: vec![
            "bookmark names x, y only: names git cannot store (x and x/y together, invalid ref names) and bookmarks on \
             the root commit are documented export failures and are not in the alphabet"
                .into(),
            "git-side edits are loose-ref writes by gix between jj operations; no edit lands inside one import/export"
                .into(),
            "the @git remote bookmarks are always tracking (jj has no untracked @git state); HEAD is never on x or y"
                .into(),
        ],
    };
    ctx.finish(cov);
}

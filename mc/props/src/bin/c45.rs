//! C45 — pushing never overwrites remote changes jj has not seen.
//!
//! Explicit-state search (vcommon::bfs) over histories of
//!   * `local:<name>=<c1|c2|c3|->`   jj moves / creates / deletes a local bookmark,
//!   * `remote:<name>=<c1..c4|->`    *another clone* moves / creates / deletes the branch in
//!     the bare remote (the harness writes the ref into the bare repository with gix),
//!   * `fetch`                       `GitFetch::fetch` + `GitFetch::import_refs` (all bookmarks
//!     of origin, auto-tracking),
//!   * `push:<name>` / `push:all`    `jj_lib::git::push_refs` with exactly the
//!     `GitPushRefTargets` the CLI builds: for every selected bookmark whose
//!     `classify_ref_push_action` is `Update(expected -> new)`.
//! The jj repository (Git backend) and the bare remote are real repositories on tmpfs; push
//! and fetch go through the real `git` subprocess (`git push --porcelain --force-with-lease=..`),
//! so the remote's compare-and-swap is git's own.
//!
//! Sandbox note: the installed git is 2.39.5.  `git push --porcelain` exists there, so the push
//! path runs unmodified.  `git fetch --porcelain` needs git >= 2.41; jj only reads the
//! *rejected* entries of that output, so for `fetch` the harness points
//! `GitSubprocessOptions::executable_path` at a small shell shim that drops the
//! `--porcelain` word, discards stdout and execs the real git.  Everything else of the fetch
//! (refspec expansion, pruning, import of the fetched refs) is jj's code.
//!
//! Oracle.  A ghost value G(name) is the position of the remote branch that jj last saw or
//! set: it becomes the remote's actual position at every fetch and the pushed position at every
//! push that took effect.  It is maintained by the harness from the remote's actual refs, not
//! from jj's view.  For a push of a set S of bookmarks (pre-state: remote actual A, jj's record
//! R = `name@origin`, local L; the CLI's update is R -> N):
//!   P0  no local bookmark changes
//!   P1  A != G  =>  the remote branch is unchanged afterwards            (never overwritten)
//!   P2  A != G and A != N  =>  the ref is not reported as pushed and jj's record (the
//!       remote bookmark in the view, the recorded git ref and the actual
//!       refs/remotes/origin/<name>) is unchanged
//!       (A != G and A == N, "already there": jj's test-suite documents that this may be
//!       reported as pushed; then the record must become N; or it is rejected as above)
//!   P3  reported as pushed  =>  the remote is at N and jj's record is N;
//!       not reported as pushed  =>  remote and record unchanged
//!   P4  every ref of S has A == G  =>  the push succeeds for all of them
//!   P5  bookmarks outside S: remote, record unchanged
//! and for every other action: the bare remote changes only by `remote:` actions and pushes;
//! after a fetch jj's record equals the remote's actual position.
//!
//! Mechanics: one `git push` is about eight processes and costs seconds of CPU in this sandbox,
//! so a history never re-runs its prefix: it executes only its last action on a copy of the two
//! repositories as its parent history left them (`Snaps`); the searches of a tier run
//! concurrently; a gate history is additionally replayed in full from the initial repositories and
//! must give the same observation as the snapshot extension; `--replay` always replays in full.
//! The quick tier is a hand-sized "push table" (about 15 git operations), the thorough tier
//! explores the single-bookmark space until no new state appears (or the wall-clock cap).

use std::collections::BTreeMap;
use std::collections::HashMap;
use std::collections::HashSet;
use std::path::Path;
use std::path::PathBuf;
use std::sync::Arc;
use std::sync::Mutex;
use std::sync::OnceLock;
use std::sync::atomic::AtomicU64;
use std::sync::atomic::Ordering;

use jj_lib::backend::CommitId;
use jj_lib::backend::MillisSinceEpoch;
use jj_lib::backend::Signature;
use jj_lib::backend::Timestamp;
use jj_lib::config::ConfigLayer;
use jj_lib::config::ConfigSource;
use jj_lib::config::StackedConfig;
use jj_lib::git;
use jj_lib::git::GitFetch;
use jj_lib::git::GitFetchRefExpression;
use jj_lib::git::GitImportOptions;
use jj_lib::git::GitPushOptions;
use jj_lib::git::GitPushRefTargets;
use jj_lib::git::GitSubprocessCallback;
use jj_lib::git::GitSubprocessOptions;
use jj_lib::git_backend::GitBackend;
use jj_lib::merge::Diff;
use jj_lib::object_id::ObjectId as _;
use jj_lib::op_store::RefTarget;
use jj_lib::ref_name::GitRefName;
use jj_lib::ref_name::RefName;
use jj_lib::ref_name::RefNameBuf;
use jj_lib::ref_name::RemoteName;
use jj_lib::ref_name::RemoteRefSymbol;
use jj_lib::refs::LocalAndRemoteRef;
use jj_lib::refs::RefPushAction;
use jj_lib::refs::classify_ref_push_action;
use jj_lib::repo::ReadonlyRepo;
use jj_lib::repo::Repo as _;
use jj_lib::repo::RepoLoader;
use jj_lib::settings::UserSettings;
use jj_lib::signing::Signer;
use jj_lib::str_util::StringExpression;
use jj_lib::str_util::StringMatcher;
use pollster::FutureExt as _;
use serde_json::Value;
use serde_json::json;
use vcommon::Counter;
use vcommon::Coverage;
use vcommon::Ctx;
use vcommon::Level;
use vcommon::bfs;
use vcommon::machinery_failure;

// ---------------------------------------------------------------------------------------
// Alphabet
// ---------------------------------------------------------------------------------------

const NAMES: [&str; 2] = ["a", "b"];
/// 0 = absent, 1 = c1, 2 = c2 (child of c1), 3 = c3 (child of root), all written by jj;
/// 4 = c4 (child of c1), written by the other clone into the remote
type Cm = u8;
const LOCAL_TARGETS: [Cm; 4] = [1, 2, 3, 0];
const REMOTE_TARGETS: [Cm; 5] = [1, 2, 3, 4, 0];
const ALL: usize = usize::MAX;

#[derive(Clone, Debug, PartialEq, Eq)]
enum Act {
    Local(usize, Cm),
    Remote(usize, Cm),
    Fetch,
    /// push one bookmark, or (ALL) every bookmark that needs an update
    Push(usize),
}

fn cm_str(c: Cm) -> String {
    if c == 0 { "-".to_string() } else { format!("c{c}") }
}

fn parse_cm(s: &str) -> Option<Cm> {
    match s {
        "-" => Some(0),
        "c1" => Some(1),
        "c2" => Some(2),
        "c3" => Some(3),
        "c4" => Some(4),
        _ => None,
    }
}

impl Act {
    fn render(&self) -> String {
        match self {
            Act::Local(n, c) => format!("local:{}={}", NAMES[*n], cm_str(*c)),
            Act::Remote(n, c) => format!("remote:{}={}", NAMES[*n], cm_str(*c)),
            Act::Fetch => "fetch".to_string(),
            Act::Push(ALL) => "push:all".to_string(),
            Act::Push(n) => format!("push:{}", NAMES[*n]),
        }
    }
    fn parse(s: &str) -> Option<Act> {
        if s == "fetch" {
            return Some(Act::Fetch);
        }
        let (kind, rest) = s.split_once(':')?;
        if kind == "push" {
            if rest == "all" {
                return Some(Act::Push(ALL));
            }
            return Some(Act::Push(NAMES.iter().position(|x| *x == rest)?));
        }
        let (name, c) = rest.split_once('=')?;
        let n = NAMES.iter().position(|x| *x == name)?;
        let c = parse_cm(c)?;
        match kind {
            "local" if c <= 3 => Some(Act::Local(n, c)),
            "remote" => Some(Act::Remote(n, c)),
            _ => None,
        }
    }
    fn label(&self) -> String {
        match self {
            Act::Local(_, 0) => "local-delete",
            Act::Local(..) => "local-set",
            Act::Remote(_, 0) => "remote-delete",
            Act::Remote(..) => "remote-set",
            Act::Fetch => "fetch",
            Act::Push(ALL) => "push-all",
            Act::Push(_) => "push-one",
        }
        .to_string()
    }
    fn touches_second_name(&self) -> bool {
        matches!(self, Act::Local(1, _) | Act::Remote(1, _) | Act::Push(1) | Act::Push(ALL))
    }
}

fn history_json(h: &[Act]) -> Value {
    json!({ "history": h.iter().map(|a| a.render()).collect::<Vec<_>>() })
}

type Terms = Vec<Option<Cm>>;

fn terms_str(t: &[Option<Cm>]) -> String {
    let mut s = String::new();
    for (i, v) in t.iter().enumerate() {
        if i > 0 {
            s.push(if i % 2 == 0 { '+' } else { '-' });
        }
        s.push_str(&match v {
            None => "-".to_string(),
            Some(c) => format!("c{c}"),
        });
    }
    if t.len() > 1 { format!("[{s}]") } else { s }
}

fn opt(c: Cm) -> Option<Cm> {
    (c != 0).then_some(c)
}

// ---------------------------------------------------------------------------------------
// The world: a jj repository (Git backend) and a bare remote, copied from a template
// ---------------------------------------------------------------------------------------

#[derive(Clone, Debug, PartialEq, Eq)]
struct NameObs {
    /// local bookmark
    l: Terms,
    /// jj's record: `<name>@origin` in the view (target, tracked flag)
    r: Terms,
    r_tracked: bool,
    /// jj's recorded git ref refs/remotes/origin/<name> (view.git_refs)
    k: Terms,
    /// the actual refs/remotes/origin/<name> in jj's backing Git repository
    t: Option<Cm>,
    /// the actual refs/heads/<name> in the bare remote
    a: Option<Cm>,
}

#[derive(Clone, Debug, PartialEq, Eq)]
struct Obs {
    names: Vec<NameObs>,
    visible: u8,
    known: u8,
}

struct Template {
    dir: PathBuf,
    ids: Vec<CommitId>,
    shim: PathBuf,
}

static TEMPLATE: OnceLock<Template> = OnceLock::new();
static WORLD_SEQ: AtomicU64 = AtomicU64::new(0);

struct World {
    dir: PathBuf,
    settings: UserSettings,
    repo: Arc<ReadonlyRepo>,
    ids: Vec<CommitId>,
    shim: PathBuf,
    ghost: Vec<Option<Cm>>,
    /// the directory outlives this value (it became a snapshot)
    keep: bool,
}

fn sig(secs: i64) -> Signature {
    Signature {
        name: "Test User".to_string(),
        email: "test.user@example.com".to_string(),
        timestamp: Timestamp { timestamp: MillisSinceEpoch(secs * 1000), tz_offset: 0 },
    }
}

fn settings(seed: u64) -> UserSettings {
    static CACHE: Mutex<Option<StackedConfig>> = Mutex::new(None);
    let mut config = CACHE
        .lock()
        .unwrap()
        .get_or_insert_with(|| {
            let mut config = testutils::base_user_config();
            config.add_layer(
                ConfigLayer::parse(
                    ConfigSource::User,
                    "debug.commit-timestamp = \"2001-02-03T04:05:06+00:00\"\n\
                     debug.operation-timestamp = \"2001-02-03T04:05:07+00:00\"\n",
                )
                .unwrap(),
            );
            config
        })
        .clone();
    config.add_layer(
        ConfigLayer::parse(ConfigSource::User, &format!("debug.randomness-seed = {seed}\n")).unwrap(),
    );
    UserSettings::from_config(config).unwrap_or_else(|e| machinery_failure(&format!("settings: {e}")))
}

fn import_options() -> GitImportOptions {
    let origin: &RemoteName = "origin".as_ref();
    GitImportOptions {
        abandon_unreachable_commits: true,
        record_synthetic_predecessors: true,
        // every fetched bookmark of origin is tracked (merged into the local bookmark)
        remote_auto_track_bookmarks: HashMap::from([(origin.to_owned(), StringMatcher::all())]),
    }
}

fn jj_git_dir(dir: &Path) -> PathBuf {
    dir.join("jj").join("store").join("git")
}

fn remote_dir(dir: &Path) -> PathBuf {
    dir.join("remote.git")
}

fn oid(id: &CommitId) -> gix::ObjectId {
    gix::ObjectId::from_bytes_or_panic(id.as_bytes())
}

fn build_template(scratch: &Path) -> Template {
    let dir = scratch.join("template");
    let jj_dir = dir.join("jj");
    std::fs::create_dir_all(&jj_dir).unwrap_or_else(|e| machinery_failure(&format!("mkdir: {e}")));
    let settings = settings(42);
    let _remote = testutils::git::init_bare(remote_dir(&dir));
    let repo = ReadonlyRepo::init(
        &settings,
        &jj_dir,
        &|settings, store_path| {
            Ok(Box::new(GitBackend::init_internal(settings, store_path, gix::hash::Kind::Sha1)?))
        },
        Signer::from_settings(&settings).unwrap_or_else(|e| machinery_failure(&format!("signer: {e}"))),
        ReadonlyRepo::default_op_store_initializer(),
        ReadonlyRepo::default_op_heads_store_initializer(),
        ReadonlyRepo::default_index_store_initializer(),
        ReadonlyRepo::default_submodule_store_initializer(),
    )
    .block_on()
    .unwrap_or_else(|e| machinery_failure(&format!("repo init: {e}")));
    let mut tx = repo.start_transaction();
    git::add_remote(tx.repo_mut(), "origin".as_ref(), remote_dir(&dir).to_str().unwrap(), None)
        .unwrap_or_else(|e| machinery_failure(&format!("add_remote: {e}")));
    let mr = tx.repo_mut();
    let root = mr.store().root_commit_id().clone();
    let tree = mr.store().empty_merged_tree();
    let mk = |mr: &mut jj_lib::repo::MutableRepo, parent: &CommitId, n: i64| {
        mr.new_commit(vec![parent.clone()], tree.clone())
            .set_description(format!("c{n}"))
            .set_author(sig(1000 + n))
            .set_committer(sig(1000 + n))
            .write()
            .block_on()
            .unwrap_or_else(|e| machinery_failure(&format!("write commit: {e}")))
    };
    let c1 = mk(mr, &root, 1);
    let c2 = mk(mr, c1.id(), 2);
    let c3 = mk(mr, &root, 3);
    tx.commit("setup").block_on().unwrap_or_else(|e| machinery_failure(&format!("setup commit: {e}")));
    // environment: no automatic gc after receive/fetch (one process less per push)
    for (cfg, text) in [
        (remote_dir(&dir).join("config"), "[gc]\n\tauto = 0\n[receive]\n\tautogc = false\n"),
        (jj_git_dir(&dir).join("config"), "[gc]\n\tauto = 0\n"),
    ] {
        let mut body = std::fs::read_to_string(&cfg).unwrap_or_else(|e| machinery_failure(&format!("git config: {e}")));
        body.push_str(text);
        std::fs::write(&cfg, body).unwrap_or_else(|e| machinery_failure(&format!("git config: {e}")));
    }
    // the remote has the objects of c1..c3 (somebody pushed them earlier): plain git, side refs
    let out = std::process::Command::new("git")
        .arg("--git-dir")
        .arg(jj_git_dir(&dir))
        .args(["push", "-q"])
        .arg(remote_dir(&dir))
        .arg(format!("{}:refs/keep/c2", c2.id().hex()))
        .arg(format!("{}:refs/keep/c3", c3.id().hex()))
        .output()
        .unwrap_or_else(|e| machinery_failure(&format!("cannot run git: {e}")));
    if !out.status.success() {
        machinery_failure(&format!("setup push failed: {}", String::from_utf8_lossy(&out.stderr)));
    }
    // c4: written by the other clone straight into the remote (child of c1), unreferenced
    let g = testutils::git::open(remote_dir(&dir));
    let empty_tree = g.empty_tree().id().detach();
    let c4_oid =
        testutils::git::write_commit(&g, "refs/verif-tmp/c4", empty_tree, "c4 (other clone)", &[oid(c1.id())]);
    g.find_reference("refs/verif-tmp/c4")
        .unwrap_or_else(|e| machinery_failure(&format!("tmp ref: {e}")))
        .delete()
        .unwrap_or_else(|e| machinery_failure(&format!("tmp ref delete: {e}")));
    // git < 2.41 has no `fetch --porcelain`; jj only reads rejected entries from that output
    let shim = scratch.join("git-fetch-shim.sh");
    std::fs::write(
        &shim,
        "#!/bin/sh\n# drops --porcelain (git < 2.41), silences stdout, runs the real git\n\
         n=$#\ni=0\nwhile [ $i -lt $n ]; do\n  a=$1; shift\n  [ \"$a\" = \"--porcelain\" ] || set -- \"$@\" \"$a\"\n  \
         i=$((i+1))\ndone\nexec git \"$@\" >/dev/null\n",
    )
    .unwrap_or_else(|e| machinery_failure(&format!("shim: {e}")));
    {
        use std::os::unix::fs::PermissionsExt as _;
        std::fs::set_permissions(&shim, std::fs::Permissions::from_mode(0o755))
            .unwrap_or_else(|e| machinery_failure(&format!("chmod shim: {e}")));
    }
    let ids = vec![
        root,
        c1.id().clone(),
        c2.id().clone(),
        c3.id().clone(),
        CommitId::from_bytes(c4_oid.as_bytes()),
    ];
    Template { dir, ids, shim }
}

fn copy_dir(src: &Path, dst: &Path) {
    std::fs::create_dir_all(dst).unwrap_or_else(|e| machinery_failure(&format!("mkdir {dst:?}: {e}")));
    let entries = std::fs::read_dir(src).unwrap_or_else(|e| machinery_failure(&format!("readdir {src:?}: {e}")));
    for e in entries {
        let e = e.unwrap_or_else(|e| machinery_failure(&format!("readdir: {e}")));
        let ft = e.file_type().unwrap_or_else(|e| machinery_failure(&format!("file type: {e}")));
        let to = dst.join(e.file_name());
        if ft.is_dir() {
            copy_dir(&e.path(), &to);
        } else if ft.is_file() {
            std::fs::copy(e.path(), &to).unwrap_or_else(|e| machinery_failure(&format!("copy: {e}")));
        } else {
            machinery_failure(&format!("unexpected file type in the template: {:?}", e.path()));
        }
    }
}

impl World {
    fn new(scratch: &Path) -> World {
        let t = TEMPLATE.get_or_init(|| build_template(scratch));
        World::from_copy(&t.dir, scratch)
    }

    /// A world whose two repositories are a byte copy of `src` (the template or the kept
    /// directory of an earlier world), loaded through `RepoLoader`.
    fn from_copy(src: &Path, scratch: &Path) -> World {
        let t = TEMPLATE.get_or_init(|| build_template(scratch));
        let dir = scratch.join(format!("w{}", WORLD_SEQ.fetch_add(1, Ordering::Relaxed)));
        copy_dir(src, &dir);
        // the remote URL is an absolute path: point the copy at its own remote
        let cfg_path = jj_git_dir(&dir).join("config");
        let cfg = std::fs::read_to_string(&cfg_path).unwrap_or_else(|e| machinery_failure(&format!("git config: {e}")));
        let from = src.to_str().unwrap();
        if !cfg.contains(from) {
            machinery_failure("copied git config does not mention the source remote path");
        }
        std::fs::write(&cfg_path, cfg.replace(from, dir.to_str().unwrap()))
            .unwrap_or_else(|e| machinery_failure(&format!("git config: {e}")));
        let settings = settings(43);
        let repo = RepoLoader::init_from_file_system(
            &settings,
            &dir.join("jj"),
            &jj_lib::default_backend_factories::default_backend_factories(),
        )
        .unwrap_or_else(|e| machinery_failure(&format!("load copied repo: {e}")))
        .load_at_head()
        .block_on()
        .unwrap_or_else(|e| machinery_failure(&format!("load copied repo at head: {e}")));
        World {
            dir,
            settings,
            repo,
            ids: t.ids.clone(),
            shim: t.shim.clone(),
            ghost: vec![None; NAMES.len()],
            keep: false,
        }
    }

    fn label_of(&self, id: &CommitId) -> Cm {
        match self.ids.iter().skip(1).position(|x| x == id) {
            Some(i) => (i + 1) as Cm,
            None => 99,
        }
    }

    fn terms_of(&self, t: &RefTarget) -> Terms {
        t.as_merge().iter().map(|v| v.as_ref().map(|id| self.label_of(id))).collect()
    }

    fn git_ref(&self, g: &gix::Repository, full: &str) -> Option<Cm> {
        let r = g
            .try_find_reference(full)
            .unwrap_or_else(|e| machinery_failure(&format!("find ref: {e}")))?;
        match r.target().try_id() {
            Some(id) => Some(self.label_of(&CommitId::from_bytes(id.as_bytes()))),
            None => Some(98),
        }
    }

    fn observe(&self) -> Obs {
        let remote = testutils::git::open(remote_dir(&self.dir));
        let mine = testutils::git::open(jj_git_dir(&self.dir));
        let view = self.repo.view();
        let mut names = vec![];
        for n in NAMES {
            let name: &RefName = n.as_ref();
            let rr = view.get_remote_bookmark(RemoteRefSymbol { name, remote: "origin".as_ref() });
            let tracking = format!("refs/remotes/origin/{n}");
            names.push(NameObs {
                l: self.terms_of(view.get_local_bookmark(name)),
                r: self.terms_of(&rr.target),
                r_tracked: rr.is_tracked(),
                k: self.terms_of(view.get_git_ref(GitRefName::new(&tracking))),
                t: self.git_ref(&mine, &tracking),
                a: self.git_ref(&remote, &format!("refs/heads/{n}")),
            });
        }
        let index = self.repo.index();
        let heads: Vec<CommitId> = view.heads().iter().cloned().collect();
        let mut visible = 0u8;
        let mut known = 0u8;
        for c in 1..=4usize {
            let id = &self.ids[c];
            let has = index.has_id(id).block_on().unwrap_or_else(|e| machinery_failure(&format!("index: {e}")));
            if !has {
                continue;
            }
            known |= 1 << c;
            for h in &heads {
                if index.is_ancestor(id, h).block_on().unwrap_or_else(|e| machinery_failure(&format!("index: {e}"))) {
                    visible |= 1 << c;
                    break;
                }
            }
        }
        Obs { names, visible, known }
    }

    /// What `jj git push` would send for this bookmark (None: nothing to push / refused).
    fn push_update(&self, n: usize) -> Option<Diff<Option<CommitId>>> {
        let view = self.repo.view();
        let name: &RefName = NAMES[n].as_ref();
        let targets = LocalAndRemoteRef {
            local_target: view.get_local_bookmark(name),
            remote_ref: view.get_remote_bookmark(RemoteRefSymbol { name, remote: "origin".as_ref() }),
        };
        match classify_ref_push_action(targets) {
            RefPushAction::Update(d) => Some(d),
            _ => None,
        }
    }
}

impl Drop for World {
    fn drop(&mut self) {
        if !self.keep {
            let _ = std::fs::remove_dir_all(&self.dir);
        }
    }
}

/// The two repositories as they were after a history, kept on disk so that the histories that
/// extend it by one action start from a copy instead of re-running every push and fetch (one
/// `git push` is ~8 processes; under the sandbox's load that is seconds).  `--replay` and the
/// start-up gate always rebuild from the template and re-run everything.
struct Snap {
    dir: PathBuf,
    ghost: Vec<Option<Cm>>,
    fetched_since_push: bool,
    obs: Obs,
    len: usize,
}

impl Drop for Snap {
    fn drop(&mut self) {
        let _ = std::fs::remove_dir_all(&self.dir);
    }
}

#[derive(Default)]
struct Snaps(Mutex<HashMap<String, Arc<Snap>>>);

fn hist_id(h: &[Act]) -> String {
    h.iter().map(|a| a.render()).collect::<Vec<_>>().join(" ")
}

impl Snaps {
    fn get(&self, h: &[Act]) -> Option<Arc<Snap>> {
        self.0.lock().unwrap().get(&hist_id(h)).cloned()
    }
    fn insert(&self, h: &[Act], snap: Snap) {
        let mut m = self.0.lock().unwrap();
        // levels are explored one after the other: grand-parents are no longer needed
        let len = snap.len;
        m.retain(|_, s| s.len + 2 > len);
        m.insert(hist_id(h), Arc::new(snap));
    }
    fn clear(&self) {
        self.0.lock().unwrap().clear();
    }
}

struct NullCallback;
impl GitSubprocessCallback for NullCallback {
    fn needs_progress(&self) -> bool {
        false
    }
    fn progress(&mut self, _p: &git::GitProgress) -> std::io::Result<()> {
        Ok(())
    }
    fn local_sideband(&mut self, _m: &[u8], _t: Option<git::GitSidebandLineTerminator>) -> std::io::Result<()> {
        Ok(())
    }
    fn remote_sideband(&mut self, _m: &[u8], _t: Option<git::GitSidebandLineTerminator>) -> std::io::Result<()> {
        Ok(())
    }
}

// ---------------------------------------------------------------------------------------
// Executing one action with the real code
// ---------------------------------------------------------------------------------------

#[derive(Default, Debug)]
struct PushReport {
    /// bookmark index -> (expected, new) that was sent
    sent: Vec<(usize, Option<Cm>, Option<Cm>)>,
    /// Ok: names reported in `pushed` / `rejected` / `remote_rejected`; Err: the error text
    pushed: Vec<usize>,
    rejected: Vec<usize>,
    remote_rejected: Vec<usize>,
    unexported: Vec<usize>,
    error: Option<String>,
}

enum Done {
    Plain,
    Push(PushReport),
}

fn name_index_of_ref(full: &str) -> Option<usize> {
    let n = full.strip_prefix("refs/heads/")?;
    NAMES.iter().position(|x| *x == n)
}

fn execute(w: &mut World, a: &Act) -> Result<Done, (String, String)> {
    match a {
        Act::Remote(n, c) => {
            // the other clone: harness-owned, a failure is a machinery failure
            let g = testutils::git::open(remote_dir(&w.dir));
            let full = format!("refs/heads/{}", NAMES[*n]);
            if *c == 0 {
                g.find_reference(&full)
                    .unwrap_or_else(|e| machinery_failure(&format!("remote delete of a missing ref: {e}")))
                    .delete()
                    .unwrap_or_else(|e| machinery_failure(&format!("remote delete: {e}")));
            } else {
                g.reference(
                    full.as_str(),
                    oid(&w.ids[*c as usize]),
                    gix::refs::transaction::PreviousValue::Any,
                    "other clone",
                )
                .unwrap_or_else(|e| machinery_failure(&format!("remote set: {e}")));
            }
            Ok(Done::Plain)
        }
        Act::Local(n, c) => {
            let repo = w.repo.clone();
            let ids = w.ids.clone();
            let r = vcommon::catch(move || -> Result<Arc<ReadonlyRepo>, String> {
                let mut tx = repo.start_transaction();
                let mr = tx.repo_mut();
                let name: &RefName = NAMES[*n].as_ref();
                if *c == 0 {
                    mr.set_local_bookmark_target(name, RefTarget::absent());
                } else {
                    let id = &ids[*c as usize];
                    let commit = mr.store().get_commit(id).map_err(|e| format!("{e}"))?;
                    mr.add_head(&commit).block_on().map_err(|e| format!("{e}"))?;
                    mr.set_local_bookmark_target(name, RefTarget::normal(id.clone()));
                }
                tx.commit("jj bookmark").block_on().map_err(|e| format!("{e}"))
            });
            match r {
                Ok(Ok(repo)) => {
                    w.repo = repo;
                    Ok(Done::Plain)
                }
                Ok(Err(e)) => machinery_failure(&format!("jj bookmark edit failed: {e}")),
                Err(p) => machinery_failure(&format!("jj bookmark edit panicked: {p}")),
            }
        }
        Act::Fetch => {
            let repo = w.repo.clone();
            let shim = w.shim.clone();
            let r = vcommon::catch(move || -> Result<Arc<ReadonlyRepo>, String> {
                let mut tx = repo.start_transaction();
                let options = import_options();
                let subprocess = GitSubprocessOptions { executable_path: shim, environment: HashMap::new() };
                {
                    let mut fetcher =
                        GitFetch::new(tx.repo_mut(), subprocess, &options).map_err(|e| format!("GitFetch::new: {e}"))?;
                    let expr = GitFetchRefExpression { bookmark: StringExpression::all(), tag: StringExpression::none() };
                    let specs = git::expand_fetch_refspecs("origin".as_ref(), expr)
                        .map_err(|e| format!("expand_fetch_refspecs: {e}"))?;
                    fetcher
                        .fetch("origin".as_ref(), specs, &mut NullCallback, None)
                        .map_err(|e| format!("fetch: {e}"))?;
                    fetcher.import_refs().block_on().map_err(|e| format!("import_refs: {e}"))?;
                }
                tx.repo_mut().rebase_descendants().block_on().map_err(|e| format!("rebase_descendants: {e}"))?;
                tx.commit("fetch").block_on().map_err(|e| format!("commit: {e}"))
            });
            match r {
                Ok(Ok(repo)) => {
                    w.repo = repo;
                    Ok(Done::Plain)
                }
                Ok(Err(e)) => Err(("fetch/error".into(), e)),
                Err(p) => Err(("fetch/panic".into(), p)),
            }
        }
        Act::Push(sel) => {
            let mut bookmarks: Vec<(RefNameBuf, Diff<Option<CommitId>>)> = vec![];
            let mut rep = PushReport::default();
            for n in 0..NAMES.len() {
                if *sel != ALL && *sel != n {
                    continue;
                }
                if let Some(d) = w.push_update(n) {
                    rep.sent.push((
                        n,
                        d.before.as_ref().map(|id| w.label_of(id)),
                        d.after.as_ref().map(|id| w.label_of(id)),
                    ));
                    bookmarks.push((NAMES[n].into(), d));
                }
            }
            if bookmarks.is_empty() {
                // not enabled in this state
                return Err(("push/not-enabled".into(), String::new()));
            }
            let repo = w.repo.clone();
            let subprocess = GitSubprocessOptions::from_settings(&w.settings)
                .unwrap_or_else(|e| machinery_failure(&format!("subprocess options: {e}")));
            let r = vcommon::catch(move || -> Result<(Arc<ReadonlyRepo>, Result<git::GitPushStats, String>), String> {
                let mut tx = repo.start_transaction();
                let targets = GitPushRefTargets { bookmarks, tags: vec![] };
                let stats = git::push_refs(
                    tx.repo_mut(),
                    subprocess,
                    "origin".as_ref(),
                    &targets,
                    &mut NullCallback,
                    &GitPushOptions::default(),
                )
                .map_err(|e| format!("{e}"));
                // like the CLI: the transaction is committed when the push call returned Ok
                // (a failed command leaves no operation behind)
                let repo2 = if stats.is_ok() {
                    tx.commit("push").block_on().map_err(|e| format!("commit: {e}"))?
                } else {
                    drop(tx);
                    repo.clone()
                };
                Ok((repo2, stats))
            });
            match r {
                Ok(Ok((repo, stats))) => {
                    w.repo = repo;
                    match stats {
                        Ok(s) => {
                            rep.pushed = s.pushed.iter().filter_map(|r| name_index_of_ref(r.as_str())).collect();
                            rep.rejected = s.rejected.iter().filter_map(|(r, _)| name_index_of_ref(r.as_str())).collect();
                            rep.remote_rejected =
                                s.remote_rejected.iter().filter_map(|(r, _)| name_index_of_ref(r.as_str())).collect();
                            rep.unexported = s
                                .unexported_bookmarks
                                .iter()
                                .filter_map(|(sym, _)| NAMES.iter().position(|x| *x == sym.name.as_str()))
                                .collect();
                        }
                        Err(e) => rep.error = Some(e),
                    }
                    Ok(Done::Push(rep))
                }
                Ok(Err(e)) => Err(("push/commit-error".into(), e)),
                Err(p) => Err(("push/panic".into(), p)),
            }
        }
    }
}

// ---------------------------------------------------------------------------------------
// Oracle
// ---------------------------------------------------------------------------------------

#[derive(Default)]
struct Stats {
    pushes: Counter,
    refs_pushed_fresh: Counter,
    fresh_create: Counter,
    fresh_move: Counter,
    fresh_move_non_ff: Counter,
    fresh_delete: Counter,
    refs_pushed_stale: Counter,
    stale_remote_moved: Counter,
    stale_remote_created: Counter,
    stale_remote_deleted: Counter,
    stale_rejected_by_lease: Counter,
    stale_rejected_by_remote: Counter,
    stale_whole_push_error: Counter,
    stale_already_at_target: Counter,
    stale_already_at_target_reported_pushed: Counter,
    mixed_pushes: Counter,
    mixed_fresh_ref_still_pushed: Counter,
    stale_between_fetch_and_push: Counter,
    push_errors: Mutex<BTreeMap<String, u64>>,
    fetches: Counter,
    fetch_made_conflict: Counter,
    fetch_learned_c4: Counter,
    record_differs_from_ghost_states: Counter,
    nontrivial_states: Mutex<HashSet<u64>>,
    all_states: Mutex<HashSet<u64>>,
    samples: Mutex<Vec<Value>>,
    gate_observation: Mutex<Option<(String, usize)>>,
    started_from_snapshot: Counter,
    started_from_template: Counter,
    t_new_us: Counter,
    t_exec_us: Counter,
    t_obs_us: Counter,
}

struct Outcome {
    key: String,
    actions: Vec<Act>,
    violations: Vec<(String, String)>,
}

fn record_str(o: &NameObs) -> String {
    format!(
        "@origin={}{} git_refs={} tracking-ref={}",
        terms_str(&o.r),
        if o.r_tracked { "" } else { "(untracked)" },
        terms_str(&o.k),
        terms_str(&[o.t])
    )
}

fn check_push(
    pre: &Obs,
    post: &Obs,
    ghost: &[Option<Cm>],
    rep: &PushReport,
    after_fetch: bool,
    st: &Stats,
    v: &mut Vec<(String, String)>,
) {
    st.pushes.inc();
    if let Some(e) = &rep.error {
        let short: String = e.lines().next().unwrap_or("").chars().take(80).collect();
        *st.push_errors.lock().unwrap().entry(short).or_insert(0) += 1;
    }
    let sent: BTreeMap<usize, (Option<Cm>, Option<Cm>)> = rep.sent.iter().map(|(n, e, x)| (*n, (*e, *x))).collect();
    let all_fresh = sent.keys().all(|n| pre.names[*n].a == ghost[*n]);
    let any_fresh = sent.keys().any(|n| pre.names[*n].a == ghost[*n]);
    if !all_fresh && any_fresh {
        st.mixed_pushes.inc();
    }
    for (i, n) in NAMES.iter().enumerate() {
        let (p, q, g) = (&pre.names[i], &post.names[i], ghost[i]);
        if q.l != p.l {
            v.push((
                "C45/push/local-bookmark-changed".into(),
                format!("push changed local bookmark {n}: {} -> {}", terms_str(&p.l), terms_str(&q.l)),
            ));
        }
        let Some(&(expected, new)) = sent.get(&i) else {
            if q.a != p.a || q.r != p.r || q.r_tracked != p.r_tracked || q.k != p.k || q.t != p.t {
                v.push((
                    "C45/push/unselected-bookmark-touched".into(),
                    format!("bookmark {n} was not part of the push, but remote/record changed: {p:?} -> {q:?}"),
                ));
            }
            continue;
        };
        let reported_pushed = rep.pushed.contains(&i) && !rep.unexported.contains(&i);
        let fresh = p.a == g;
        let record_unchanged = q.r == p.r && q.r_tracked == p.r_tracked && q.k == p.k && q.t == p.t;
        let ctx_str = format!(
            "bookmark {n}: jj last saw the remote at {}, sent expected={} new={}, remote actually at {}; outcome: \
             {}; remote afterwards {}; record before [{}] after [{}]",
            terms_str(&[g]),
            terms_str(&[expected]),
            terms_str(&[new]),
            terms_str(&[p.a]),
            if let Some(e) = &rep.error {
                format!("push_refs failed: {}", e.lines().next().unwrap_or(""))
            } else if rep.pushed.contains(&i) {
                "reported pushed".into()
            } else if rep.rejected.contains(&i) {
                "reported rejected (lease)".into()
            } else if rep.remote_rejected.contains(&i) {
                "reported rejected by the remote".into()
            } else {
                "not mentioned in the result".into()
            },
            terms_str(&[q.a]),
            record_str(p),
            record_str(q)
        );
        if fresh {
            st.refs_pushed_fresh.inc();
            if reported_pushed {
                if q.a != new {
                    v.push(("C45/push/reported-pushed-but-remote-not-at-target".into(), ctx_str.clone()));
                } else if q.r != vec![new] || (new.is_some() && !q.r_tracked) {
                    v.push(("C45/push/record-not-updated-after-push".into(), ctx_str.clone()));
                } else {
                    match (g, new) {
                        (None, _) => st.fresh_create.inc(),
                        (_, None) => st.fresh_delete.inc(),
                        (Some(o), Some(x)) => {
                            st.fresh_move.inc();
                            if !(o == 1 && (x == 2 || x == 4)) {
                                st.fresh_move_non_ff.inc();
                            }
                        }
                    }
                    if !all_fresh {
                        st.mixed_fresh_ref_still_pushed.inc();
                    }
                }
            } else {
                // not pushed: nothing may have changed ...
                if q.a != p.a {
                    v.push(("C45/push/remote-changed-but-not-reported-pushed".into(), ctx_str.clone()));
                } else if !record_unchanged {
                    v.push(("C45/push/record-changed-without-push".into(), ctx_str.clone()));
                }
                // ... and if every ref of this push was up to date, it had to succeed
                if all_fresh {
                    v.push(("C45/push/up-to-date-lease-rejected".into(), ctx_str.clone()));
                }
            }
            continue;
        }
        // stale: the remote moved since jj last saw it
        st.refs_pushed_stale.inc();
        if after_fetch {
            st.stale_between_fetch_and_push.inc();
        }
        match (g, p.a) {
            (None, Some(_)) => st.stale_remote_created.inc(),
            (Some(_), None) => st.stale_remote_deleted.inc(),
            _ => st.stale_remote_moved.inc(),
        }
        if q.a != p.a {
            v.push(("C45/push/unseen-remote-change-overwritten".into(), ctx_str.clone()));
            continue;
        }
        if p.a == new {
            st.stale_already_at_target.inc();
            if reported_pushed {
                st.stale_already_at_target_reported_pushed.inc();
                if q.r != vec![new] {
                    v.push(("C45/push/already-there-record-wrong".into(), ctx_str.clone()));
                }
            } else if !record_unchanged {
                v.push(("C45/push/record-changed-after-rejection".into(), ctx_str.clone()));
            }
            continue;
        }
        if reported_pushed {
            v.push(("C45/push/stale-push-reported-pushed".into(), ctx_str.clone()));
        } else if !record_unchanged {
            v.push(("C45/push/record-changed-after-rejection".into(), ctx_str.clone()));
        } else if rep.error.is_some() {
            st.stale_whole_push_error.inc();
        } else if rep.rejected.contains(&i) {
            st.stale_rejected_by_lease.inc();
        } else if rep.remote_rejected.contains(&i) {
            st.stale_rejected_by_remote.inc();
        } else {
            v.push(("C45/push/stale-ref-missing-from-result".into(), ctx_str.clone()));
        }
    }
}

fn update_ghost_after_push(pre: &Obs, post: &Obs, rep: &PushReport, ghost: &mut [Option<Cm>]) {
    for (n, _e, new) in &rep.sent {
        let (p, q) = (&pre.names[*n], &post.names[*n]);
        let fresh = p.a == ghost[*n];
        if rep.pushed.contains(n) && q.a == *new && (fresh || p.a == *new) {
            // jj set (or confirmed) the remote position
            ghost[*n] = *new;
        }
    }
}

fn name_key(o: &NameObs, g: Option<Cm>) -> String {
    format!(
        "l={} r={}{} k={} t={} a={} seen={}",
        terms_str(&o.l),
        terms_str(&o.r),
        if o.r_tracked { "" } else { "?" },
        terms_str(&o.k),
        terms_str(&[o.t]),
        terms_str(&[o.a]),
        terms_str(&[g])
    )
}

fn state_key(o: &Obs, ghost: &[Option<Cm>]) -> String {
    let mut per: Vec<String> = (0..NAMES.len()).map(|i| name_key(&o.names[i], ghost[i])).collect();
    per.sort();
    format!("{} | vis={:05b} known={:05b}", per.join(" ; "), o.visible, o.known)
}

fn enabled(w: &World, o: &Obs) -> Vec<Act> {
    let mut acts = vec![];
    for n in 0..NAMES.len() {
        for c in LOCAL_TARGETS {
            if o.names[n].l != vec![opt(c)] {
                acts.push(Act::Local(n, c));
            }
        }
    }
    for n in 0..NAMES.len() {
        for c in REMOTE_TARGETS {
            if o.names[n].a != opt(c) {
                acts.push(Act::Remote(n, c));
            }
        }
    }
    // a fetch when the remote is exactly where jj last saw it is not explored
    if o.names.iter().zip(&w.ghost).any(|(n, g)| n.a != *g) {
        acts.push(Act::Fetch);
    }
    let pushable: Vec<usize> = (0..NAMES.len()).filter(|n| w.push_update(*n).is_some()).collect();
    for n in &pushable {
        acts.push(Act::Push(*n));
    }
    if pushable.len() >= 2 {
        acts.push(Act::Push(ALL));
    }
    acts
}

fn step(scratch: &Path, st: &Stats, snaps: Option<&Snaps>, keep: bool, history: &[Act]) -> Option<Outcome> {
    let t0 = std::time::Instant::now();
    let parent = match (snaps, history.split_last()) {
        (Some(s), Some((_, init))) => s.get(init),
        _ => None,
    };
    let mut violations: Vec<(String, String)> = vec![];
    // true while the most recent fetch has not been followed by a push
    let mut fetched_since_push;
    let (mut w, mut obs, start) = match &parent {
        Some(snap) => {
            let mut w = World::from_copy(&snap.dir, scratch);
            w.ghost = snap.ghost.clone();
            fetched_since_push = snap.fetched_since_push;
            st.started_from_snapshot.inc();
            (w, snap.obs.clone(), history.len() - 1)
        }
        None => {
            let w = World::new(scratch);
            let obs = w.observe();
            if obs.known & 0b11110 != 0b01110 {
                machinery_failure("setup: jj should know c1..c3 and not c4");
            }
            fetched_since_push = false;
            st.started_from_template.inc();
            (w, obs, 0)
        }
    };
    st.t_new_us.add(t0.elapsed().as_micros() as u64);
    for (i, a) in history.iter().enumerate().skip(start) {
        let last = i + 1 == history.len();
        let pre = obs.clone();
        let ghost_pre = w.ghost.clone();
        let t0 = std::time::Instant::now();
        let executed = execute(&mut w, a);
        st.t_exec_us.add(t0.elapsed().as_micros() as u64);
        match executed {
            Err((clause, msg)) => {
                if clause == "push/not-enabled" {
                    return None;
                }
                if last {
                    violations.push((format!("C45/{clause}"), format!("{} failed: {msg}", a.render())));
                    return Some(Outcome { key: format!("!error {}", history_json(history)), actions: vec![], violations });
                }
                return None;
            }
            Ok(done) => {
                let t0 = std::time::Instant::now();
                obs = w.observe();
                st.t_obs_us.add(t0.elapsed().as_micros() as u64);
                for n in &obs.names {
                    if [n.a, n.t].iter().any(|x| *x == Some(98) || *x == Some(99)) {
                        machinery_failure("unexpected git ref target");
                    }
                }
                let remote_changed = pre.names.iter().zip(&obs.names).any(|(p, q)| p.a != q.a);
                match (a, done) {
                    (Act::Push(_), Done::Push(rep)) => {
                        if last {
                            check_push(&pre, &obs, &ghost_pre, &rep, fetched_since_push, st, &mut violations);
                        }
                        let mut ghost = w.ghost.clone();
                        update_ghost_after_push(&pre, &obs, &rep, &mut ghost);
                        w.ghost = ghost;
                        fetched_since_push = false;
                    }
                    (Act::Fetch, _) => {
                        if last {
                            st.fetches.inc();
                            if remote_changed {
                                violations.push(("C45/fetch/remote-changed".into(), "a fetch changed the bare remote".into()));
                            }
                            for (i, n) in NAMES.iter().enumerate() {
                                let q = &obs.names[i];
                                if q.r != vec![q.a] || (q.a.is_some() && !q.r_tracked) {
                                    violations.push((
                                        "C45/fetch/record-differs-from-remote".into(),
                                        format!(
                                            "after fetch the remote has {n} at {} but jj recorded {}{}",
                                            terms_str(&[q.a]),
                                            terms_str(&q.r),
                                            if q.r_tracked { "" } else { " (untracked)" }
                                        ),
                                    ));
                                }
                                if q.l.len() > 1 && pre.names[i].l.len() == 1 {
                                    st.fetch_made_conflict.inc();
                                }
                            }
                            if obs.known & (1 << 4) != 0 && pre.known & (1 << 4) == 0 {
                                st.fetch_learned_c4.inc();
                            }
                        }
                        for i in 0..NAMES.len() {
                            w.ghost[i] = obs.names[i].a;
                        }
                        fetched_since_push = true;
                    }
                    (Act::Local(..), _) => {
                        if last && remote_changed {
                            violations.push((
                                "C45/local-edit/remote-changed".into(),
                                "a local bookmark edit changed the bare remote".into(),
                            ));
                        }
                    }
                    _ => {}
                }
            }
        }
    }
    let key = state_key(&obs, &w.ghost);
    let actions = enabled(&w, &obs);
    let mut diverged = false;
    for i in 0..NAMES.len() {
        if obs.names[i].r != vec![w.ghost[i]] {
            diverged = true;
        }
    }
    if diverged {
        // jj's record differs from what jj last saw/set: only possible after a violation above
        st.record_differs_from_ghost_states.inc();
        if violations.is_empty() {
            violations.push((
                "C45/record/diverged-from-last-seen-position".into(),
                format!("jj's record of the remote differs from the position it last saw or set: {key}"),
            ));
        }
    }
    let h = vcommon::fnv(key.as_bytes());
    st.all_states.lock().unwrap().insert(h);
    if obs.names.iter().zip(&w.ghost).any(|(o, g)| o.a != *g) {
        st.nontrivial_states.lock().unwrap().insert(h);
    }
    {
        let mut samples = st.samples.lock().unwrap();
        if samples.len() < 6 && history.len() >= 3 && matches!(history.last(), Some(Act::Push(_))) {
            samples.push(json!({"history": history.iter().map(|a| a.render()).collect::<Vec<_>>(), "state": key}));
        }
    }
    if let (Some(snaps), true, true) = (snaps, keep, violations.is_empty()) {
        w.keep = true;
        snaps.insert(
            history,
            Snap { dir: w.dir.clone(), ghost: w.ghost.clone(), fetched_since_push, obs: obs.clone(), len: history.len() },
        );
    }
    Some(Outcome { key, actions, violations })
}

// ---------------------------------------------------------------------------------------

fn main() {
    let ctx = Ctx::from_args("C45", Level::ModelChecking);
    vcommon::silence_panics();
    testutils::hermetic_git();
    let stats = Stats::default();
    let scratch = ctx.scratch().to_path_buf();

    if let Some((_sig, case)) = ctx.replay_case() {
        let history: Vec<Act> = case["history"]
            .as_array()
            .unwrap_or_else(|| machinery_failure("replay: no history"))
            .iter()
            .map(|v| v.as_str().and_then(Act::parse).unwrap_or_else(|| machinery_failure("replay: bad action")))
            .collect();
        match step(&scratch, &stats, None, false, &history) {
            None => machinery_failure("replay: history is not executable"),
            Some(o) => {
                println!("replayed {} actions; reached state: {}", history.len(), o.key);
                println!("enabled there: {:?}", o.actions.iter().map(|a| a.render()).collect::<Vec<_>>());
                for (sig, msg) in o.violations {
                    ctx.violation(&sig, msg, history_json(&history));
                }
            }
        }
        ctx.finish(Coverage { evaluations: 1, ..Default::default() });
    }

    // Every git push / fetch is ~8 processes; the worker threads mostly wait for them.
    let _ = rayon::ThreadPoolBuilder::new().num_threads(32).build_global();

    // Searches.  `alphabet` restricts the actions offered to the search (a `git push` costs
    // seconds of CPU in this sandbox, so the quick tier is a hand-sized "push table"):
    //   single   edits, fetches and pushes of bookmark a only
    //   two      everything
    //   q-create bookmark a, local target c1, other clone sets c1 | c3, no fetch
    //   q-move   bookmark a, local targets c2 | delete, other clone sets c4 | deletes, no fetch
    //   q-mixed  the other clone moves/deletes b, push:all only
    //   t-remote2 both bookmarks: the other clone sets c3 | c4 | deletes, every kind of push, no
    //            local edit, no fetch (started after local changes of both bookmarks: all mixes of
    //            up-to-date and stale refs in one push)
    let plan: Vec<(Vec<&str>, usize, &str)> = if ctx.quick() {
        vec![
            (vec![], 3, "q-create"),
            (vec!["remote:a=c1", "fetch"], 3, "q-move"),
            (vec!["local:a=c1", "local:b=c1", "push:all", "local:a=c2", "local:b=c2"], 2, "q-mixed"),
        ]
    } else {
        vec![
            (vec![], 8, "single"),
            (vec!["local:a=c1", "local:b=c1", "push:all", "local:a=c2", "local:b=-"], 3, "t-remote2"),
            (vec!["local:a=c1", "local:b=c3"], 3, "t-remote2"),
        ]
    };
    let wall_budget = ctx.pick(50.0, 780.0);
    let allowed = |alphabet: &str, a: &Act| -> bool {
        match alphabet {
            "single" => !a.touches_second_name(),
            "q-create" => match a {
                Act::Local(n, c) => *n == 0 && *c == 1,
                Act::Remote(n, c) => *n == 0 && (*c == 1 || *c == 3),
                Act::Fetch => false,
                Act::Push(n) => *n == 0,
            },
            "q-move" => match a {
                Act::Local(n, c) => *n == 0 && (*c == 2 || *c == 0),
                Act::Remote(n, c) => *n == 0 && (*c == 4 || *c == 0),
                Act::Fetch => false,
                Act::Push(n) => *n == 0,
            },
            "t-remote2" => match a {
                Act::Local(..) => false,
                Act::Remote(_, c) => *c == 3 || *c == 4 || *c == 0,
                Act::Fetch => false,
                Act::Push(_) => true,
            },
            "q-mixed" => match a {
                Act::Local(..) => false,
                Act::Remote(n, c) => *n == 1 && (*c == 3 || *c == 0),
                Act::Fetch => false,
                Act::Push(n) => *n == ALL,
            },
            _ => true,
        }
    };
    let gate_history: Vec<Act> = if ctx.quick() {
        vec!["local:a=c1", "remote:a=c3", "push:a"]
    } else {
        vec!["remote:a=c1", "fetch", "local:a=c2", "remote:a=c4", "push:a"]
    }
    .iter()
    .map(|s| Act::parse(s).unwrap())
    .collect();
    let run_search = |prefix: &Vec<&str>, depth: usize, alphabet: &str| -> bfs::BfsStats {
        let snaps = Snaps::default();
        let prefix_acts: Vec<Act> = prefix.iter().map(|s| Act::parse(s).unwrap()).collect();
        let cfg = bfs::BfsConfig {
            max_depth: depth,
            max_states: 20_000_000,
            max_wall_s: (wall_budget - ctx.elapsed_s()).max(1.0),
        };
        bfs::search(
            &cfg,
            |h: &[Act]| {
                let mut full = prefix_acts.clone();
                full.extend_from_slice(h);
                let keep = h.len() < depth;
                let o = step(&scratch, &stats, Some(&snaps), keep, &full)?;
                if ctx.quick() && full == gate_history {
                    *stats.gate_observation.lock().unwrap() = Some((o.key.clone(), o.violations.len()));
                }
                for (sig, msg) in &o.violations {
                    ctx.violation(sig, msg.clone(), history_json(&full));
                }
                let actions = o.actions.into_iter().filter(|a| allowed(alphabet, a)).collect();
                Some(bfs::StepResult { key: o.key, actions })
            },
            |a| a.label(),
        )
    };
    // Gate (also proves that push and fetch work with the installed git): one history that lies
    // inside the first search is additionally replayed from the initial repositories, concurrently
    // with the searches; the search reaches it by extending kept snapshots action by action.  Both
    // must give the same observation.  (The thorough tier does the same for a longer history with
    // a fetch in it.)
    let run_gate = || {
        let from_scratch =
            step(&scratch, &Stats::default(), None, false, &gate_history).map(|o| (o.key, o.violations.len()));
        if ctx.thorough() {
            // the search may reach the gate's states along other histories: extend snapshots here
            let gate_snaps = Snaps::default();
            let mut inc = None;
            for n in 0..=gate_history.len() {
                inc = step(&scratch, &Stats::default(), Some(&gate_snaps), true, &gate_history[..n])
                    .map(|o| (o.key, o.violations.len()));
            }
            *stats.gate_observation.lock().unwrap() = inc;
        }
        from_scratch
    };
    // make sure the template exists before anything runs concurrently
    drop(World::new(&scratch));
    let results: Vec<bfs::BfsStats> = std::thread::scope(|sc| {
        let gate_handle = sc.spawn(run_gate);
        let handles: Vec<_> = plan
            .iter()
            .map(|(prefix, depth, alphabet)| sc.spawn(|| run_search(prefix, *depth, alphabet)))
            .collect();
        let results: Vec<bfs::BfsStats> = handles
            .into_iter()
            .map(|h| h.join().unwrap_or_else(|_| machinery_failure("a search thread panicked")))
            .collect();
        let from_scratch = gate_handle.join().unwrap_or_else(|_| machinery_failure("the gate thread panicked"));
        let Some(from_scratch) = from_scratch else {
            machinery_failure("gate: the gate history is not executable (does git push/fetch work here?)");
        };
        let by_snapshots = stats.gate_observation.lock().unwrap().clone();
        match by_snapshots {
            Some(obs) if obs == from_scratch => {}
            Some(obs) => machinery_failure(&format!(
                "gate: full replay and snapshot extension disagree: {from_scratch:?} vs {obs:?}"
            )),
            // only possible if a wall-clock cap or a violation cut the first search short
            None => {
                if ctx.violation_count() == 0 && !results.iter().any(|r: &bfs::BfsStats| r.capped) {
                    machinery_failure("gate: the first search never executed the gate history");
                }
            }
        }
        results
    });
    let mut st = bfs::BfsStats::default();
    let mut per_search: Vec<Value> = vec![];
    let mut all_complete = true;
    for ((prefix, depth, alphabet), one) in plan.iter().zip(results) {
        let complete = !one.capped && one.max_depth_completed >= *depth;
        all_complete &= complete;
        per_search.push(json!({
            "start_after": prefix,
            "depth": depth,
            "alphabet": alphabet,
            "states": one.states,
            "transitions": one.transitions,
            "max_depth_completed": one.max_depth_completed,
            "capped": one.capped,
            "invalid_histories": one.invalid,
            "per_depth_new_states": one.per_depth_states,
        }));
        st.transitions += one.transitions;
        st.invalid += one.invalid;
        st.capped |= one.capped;
        for (k, (n, m)) in one.per_action {
            let e = st.per_action.entry(k).or_insert((0, 0));
            e.0 += n;
            e.1 += m;
        }
        for h in one.sample_histories {
            if st.sample_histories.len() < 4 {
                st.sample_histories.push(format!("after {prefix:?}: {h}"));
            }
        }
    }
    st.states = stats.all_states.lock().unwrap().len() as u64;
    println!("searches: {}", serde_json::to_string(&per_search).unwrap());

    if ctx.violation_count() == 0 && all_complete {
        for (label, (n, newstates)) in &st.per_action {
            if *n > 0 && *newstates == 0 {
                machinery_failure(&format!("vacuous alphabet: action {label} never reached a new state"));
            }
        }
        for (name, c) in [
            ("push creating a branch", &stats.fresh_create),
            ("push moving a branch", &stats.fresh_move),
            ("push deleting a branch", &stats.fresh_delete),
            ("push against a branch moved by the other clone", &stats.stale_remote_moved),
            ("push against a branch created by the other clone", &stats.stale_remote_created),
            ("push against a branch deleted by the other clone", &stats.stale_remote_deleted),
            ("remote update between fetch and push", &stats.stale_between_fetch_and_push),
            ("push with one up-to-date and one stale bookmark", &stats.mixed_pushes),
        ] {
            if c.get() == 0 {
                machinery_failure(&format!("vacuous: no transition exercised '{name}'"));
            }
        }
    }

    let plan_text = plan
        .iter()
        .map(|(p, d, x)| format!("<= {d} actions (alphabet '{x}') after {p:?}"))
        .collect::<Vec<_>>()
        .join("; ");
    let nontrivial = stats.nontrivial_states.lock().unwrap().len() as u64;
    let mut samples: Vec<Value> = std::mem::take(&mut *stats.samples.lock().unwrap());
    samples.extend(st.sample_histories.iter().map(|s| json!(s)));
    let errors = stats.push_errors.lock().unwrap().clone();
    let cov = Coverage {
        evaluations: st.transitions,
        distinct_nontrivial: nontrivial,
        rule: format!(
            "every history of {plan_text} out of: jj sets/deletes local bookmark a|b (c1,c2,c3), another clone \
             sets/deletes branch a|b in the bare remote (c1,c2,c3 and its own commit c4), fetch (GitFetch + import, \
             auto-tracking), push:<name> / push:all (push_refs with the updates classify_ref_push_action yields); \
             c1<c2, c1<c4, c3 unrelated; states merged on (local bookmark, name@origin + tracked flag, recorded git ref, \
             actual refs/remotes/origin/<name>, actual remote branch, last-seen ghost) per name with a/b interchangeable, \
             plus which commits are visible/known to jj; every history is executed once through the real git subprocess \
             (its last action on a copy of the two repositories as its parent history left them; the start-up gate \
             checks that this equals a full replay from the initial repositories); `states` = distinct canonical states over all searches; \
             non-trivial = distinct reached states in which the remote branch differs from what jj last saw"
        ),
        samples,
        exhaustive: all_complete,
        states: Some(st.states),
        transitions: Some(st.transitions),
        traces_validated_against_impl: Some(st.transitions),
        extra: [
            ("searches".to_string(), json!(per_search)),
            ("capped".to_string(), json!(st.capped)),
            ("invalid_histories".to_string(), json!(st.invalid)),
            ("per_action_transitions_and_new_states".to_string(), json!(st.per_action)),
            (
                "push_transitions".to_string(),
                json!({
                    "judged": stats.pushes.get(),
                    "refs_sent_with_up_to_date_record": stats.refs_pushed_fresh.get(),
                    "created": stats.fresh_create.get(),
                    "moved": stats.fresh_move.get(),
                    "of_which_not_fast_forward": stats.fresh_move_non_ff.get(),
                    "deleted": stats.fresh_delete.get(),
                    "refs_sent_with_stale_record": stats.refs_pushed_stale.get(),
                    "stale_because_other_clone_moved": stats.stale_remote_moved.get(),
                    "stale_because_other_clone_created": stats.stale_remote_created.get(),
                    "stale_because_other_clone_deleted": stats.stale_remote_deleted.get(),
                    "stale_update_landed_between_fetch_and_push": stats.stale_between_fetch_and_push.get(),
                    "stale_rejected_lease": stats.stale_rejected_by_lease.get(),
                    "stale_rejected_by_remote": stats.stale_rejected_by_remote.get(),
                    "stale_whole_push_failed_with_error": stats.stale_whole_push_error.get(),
                    "stale_but_remote_already_at_target": stats.stale_already_at_target.get(),
                    "of_which_reported_pushed": stats.stale_already_at_target_reported_pushed.get(),
                    "pushes_mixing_up_to_date_and_stale_refs": stats.mixed_pushes.get(),
                    "up_to_date_ref_pushed_in_a_mixed_push": stats.mixed_fresh_ref_still_pushed.get(),
                    "push_refs_errors_by_first_line": errors,
                }),
            ),
            (
                "fetch_transitions".to_string(),
                json!({
                    "judged": stats.fetches.get(),
                    "made_a_local_bookmark_conflicted": stats.fetch_made_conflict.get(),
                    "brought_in_c4": stats.fetch_learned_c4.get(),
                }),
            ),
            ("states_where_record_differs_from_ghost".to_string(), json!(stats.record_differs_from_ghost_states.get())),
            (
                "summed_thread_wall_time_us".to_string(),
                json!({"world_init": stats.t_new_us.get(), "replayed_actions": stats.t_exec_us.get(), "observations": stats.t_obs_us.get()}),
            ),
            (
                "histories_started_from".to_string(),
                json!({"kept_snapshot_of_the_parent_history": stats.started_from_snapshot.get(), "template_with_full_replay": stats.started_from_template.get()}),
            ),
            ("git_version".to_string(), json!(git_version())),
        ]
        .into_iter()
        .collect(),
        assumptions: vec![
            "interleaving at command granularity: an update of the remote that lands inside one `git push` (between \
             git's lease check and its ref write) is git's own atomicity and is not explored"
                .into(),
            "installed git 2.39.5: push runs unmodified; for fetch a shell shim removes the `--porcelain` word (git < \
             2.41) and discards stdout, of which jj reads only rejected entries"
                .into(),
            "the remote already holds the objects of c1..c3 (side refs refs/keep/*), so the other clone can point a \
             branch at them; bookmarks fetched from origin are auto-tracked; the CLI's own pre-push refusals \
             (conflicted or untracked bookmarks) are modelled by not enabling the push"
                .into(),
        ],
    };
    ctx.finish(cov);
}

fn git_version() -> String {
    std::process::Command::new("git")
        .arg("--version")
        .output()
        .map(|o| String::from_utf8_lossy(&o.stdout).trim().to_string())
        .unwrap_or_else(|e| format!("unavailable: {e}"))
}

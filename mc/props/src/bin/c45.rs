//! PROBE (temporary): can push_refs / GitFetch work with the installed git?
use std::collections::HashMap;

use jj_lib::git;
use jj_lib::git::GitFetch;
use jj_lib::git::GitImportOptions;
use jj_lib::git::GitPushOptions;
use jj_lib::git::GitPushRefTargets;
use jj_lib::git::GitSubprocessOptions;
use jj_lib::git::GitSubprocessCallback;
use jj_lib::merge::Diff;
use jj_lib::repo::Repo as _;
use pollster::FutureExt as _;
use testutils::TestRepo;
use testutils::TestRepoBackend;
use vcommon::Ctx;
use vcommon::Level;

struct NullCallback;
impl GitSubprocessCallback for NullCallback {
    fn needs_progress(&self) -> bool {
        false
    }
    fn progress(&mut self, _p: &git::GitProgress) -> std::io::Result<()> {
        Ok(())
    }
    fn local_sideband(
        &mut self,
        _m: &[u8],
        _t: Option<git::GitSidebandLineTerminator>,
    ) -> std::io::Result<()> {
        Ok(())
    }
    fn remote_sideband(
        &mut self,
        _m: &[u8],
        _t: Option<git::GitSidebandLineTerminator>,
    ) -> std::io::Result<()> {
        Ok(())
    }
}

fn main() {
    let ctx = Ctx::from_args("C45", Level::ModelChecking);
    let settings = testutils::user_settings();
    let test_repo = TestRepo::init_with_backend_and_settings(TestRepoBackend::Git, &settings);
    let remote_dir = ctx.scratch().join("remote.git");
    let _remote = testutils::git::init_bare(&remote_dir);
    let mut tx = test_repo.repo.start_transaction();
    git::add_remote(
        tx.repo_mut(),
        "origin".as_ref(),
        remote_dir.to_str().unwrap(),
        None,
    )
    .unwrap();
    tx.commit("add remote").block_on().unwrap();
    let repo = test_repo.env.load_repo_at_head(&settings, test_repo.repo_path());
    let mut tx = repo.start_transaction();
    let c = testutils::write_random_commit(tx.repo_mut());
    let targets = GitPushRefTargets {
        bookmarks: vec![("b".into(), Diff::new(None, Some(c.id().clone())))],
        tags: vec![],
    };
    let opts = GitSubprocessOptions::from_settings(&settings).unwrap();
    let r = git::push_refs(
        tx.repo_mut(),
        opts.clone(),
        "origin".as_ref(),
        &targets,
        &mut NullCallback,
        &GitPushOptions::default(),
    );
    println!("push_refs: {r:?}");
    let remote = testutils::git::open(&remote_dir);
    println!(
        "remote ref: {:?}",
        remote
            .try_find_reference("refs/heads/b")
            .unwrap()
            .map(|r| r.target().id().to_string())
    );
    println!(
        "view: {:?}",
        tx.repo()
            .view()
            .get_remote_bookmark(jj_lib::ref_name::RemoteRefSymbol {
                name: "b".as_ref(),
                remote: "origin".as_ref()
            })
    );
    let import_options = GitImportOptions {
        abandon_unreachable_commits: true,
        record_synthetic_predecessors: true,
        remote_auto_track_bookmarks: HashMap::new(),
    };
    let mut fetcher = GitFetch::new(tx.repo_mut(), opts, &import_options).unwrap();
    let expr = git::GitFetchRefExpression {
        bookmark: jj_lib::str_util::StringExpression::all(),
        tag: jj_lib::str_util::StringExpression::none(),
    };
    let specs = git::expand_fetch_refspecs("origin".as_ref(), expr).unwrap();
    let r = fetcher.fetch("origin".as_ref(), specs, &mut NullCallback, None);
    println!("fetch: {r:?}");
    let r = fetcher.import_refs().block_on();
    println!("import: {:?}", r.map(|s| s.changed_remote_bookmarks));
    std::process::exit(0);
}

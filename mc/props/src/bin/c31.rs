//! C31 — Fileset expressions select the paths their definition says.
//!
//! Expression *strings* are generated from small syntax trees (atoms = pattern kind x argument,
//! `all()`, `none()`, `~x`, `x & y`, `x ~ y`, `x | y`), printed with the minimal parentheses
//! the documented precedence requires, parsed by the real `fileset::parse` with a
//! `RepoPathUiConverter::Fs` for workspace `/ws` and each of three working directories, turned
//! into a matcher by the real `to_matcher()` and asked about every path of a fixed universe
//! (depth <= 3 over {a, b, A, B, z} plus a few names made of glob characters).
//!
//! Reference (docs/filesets.md + the globset syntax page, nothing from jj): resolve the literal
//! leading part of the argument lexically against cwd or the workspace root, then file =
//! equality, prefix = component-wise prefix, glob = component-wise wildcard match of the
//! remainder (`*`, `?`, `[..]` never cross `/`; `**` spans directories), prefix-glob = some
//! ancestor-or-self below the directory matches, `-i` = ASCII case-insensitive pattern; the
//! operators are set algebra over the universe.

use std::collections::HashSet;
use std::path::PathBuf;

use jj_lib::fileset;
use jj_lib::fileset::FilesetAliasesMap;
use jj_lib::fileset::FilesetDiagnostics;
use jj_lib::fileset::FilesetParseContext;
use jj_lib::repo_path::RepoPathBuf;
use jj_lib::repo_path::RepoPathUiConverter;
use rayon::prelude::*;
use serde_json::Value;
use serde_json::json;
use vcommon::Coverage;
use vcommon::Ctx;
use vcommon::Level;
use vcommon::Samples;
use vcommon::catch;

type Fail = (String, String);

// ---------------------------------------------------------------------------------------
// Universe and bit sets
// ---------------------------------------------------------------------------------------

const WORDS: usize = 3;

#[derive(Clone, Copy, PartialEq, Eq, Hash, Debug, Default)]
struct Mask([u64; WORDS]);

impl Mask {
    fn set(&mut self, i: usize) {
        self.0[i / 64] |= 1 << (i % 64);
    }
    fn get(&self, i: usize) -> bool {
        self.0[i / 64] >> (i % 64) & 1 == 1
    }
    fn zip(self, o: Mask, f: impl Fn(u64, u64) -> u64) -> Mask {
        let mut r = [0u64; WORDS];
        for k in 0..WORDS {
            r[k] = f(self.0[k], o.0[k]);
        }
        Mask(r)
    }
    fn is_empty(&self) -> bool {
        self.0.iter().all(|w| *w == 0)
    }
}

struct Universe {
    strings: Vec<String>,
    comps: Vec<Vec<String>>,
    paths: Vec<RepoPathBuf>,
    all: Mask,
}

fn universe() -> Universe {
    let names = ["a", "b", "A", "B", "z"];
    let mut strings = vec![String::new()];
    let mut level: Vec<String> = vec![String::new()];
    for _ in 0..3 {
        let mut next = vec![];
        for p in &level {
            for n in names {
                let s = if p.is_empty() { n.to_string() } else { format!("{p}/{n}") };
                strings.push(s.clone());
                next.push(s);
            }
        }
        level = next;
    }
    // names consisting of glob characters (they are ordinary file names on Unix)
    for s in ["*", "a/*", "a/b/*", "[ab]", "*/b", "a/[ab]", "?"] {
        strings.push(s.to_string());
    }
    assert!(strings.len() <= 64 * WORDS);
    let mut all = Mask::default();
    for i in 0..strings.len() {
        all.set(i);
    }
    Universe {
        comps: strings
            .iter()
            .map(|s| if s.is_empty() { vec![] } else { s.split('/').map(String::from).collect() })
            .collect(),
        paths: strings.iter().map(|s| RepoPathBuf::from_internal_string(s.as_str()).unwrap()).collect(),
        strings,
        all,
    }
}

// ---------------------------------------------------------------------------------------
// Reference semantics of one pattern
// ---------------------------------------------------------------------------------------

#[derive(Clone, Copy, Debug, PartialEq, Eq)]
struct KindSem {
    root: bool,
    prefix: bool,
    glob: bool,
    icase: bool,
}

/// The table of docs/filesets.md. "" is the default (no `kind:`), which the documentation
/// defines as `prefix-glob:`.
fn kind_sem(name: &str) -> KindSem {
    let k = |root, prefix, glob, icase| KindSem { root, prefix, glob, icase };
    match name {
        "" => k(false, true, true, false),
        "cwd" => k(false, true, false, false),
        "file" | "cwd-file" => k(false, false, false, false),
        "glob" | "cwd-glob" => k(false, false, true, false),
        "glob-i" | "cwd-glob-i" => k(false, false, true, true),
        "prefix-glob" | "cwd-prefix-glob" => k(false, true, true, false),
        "prefix-glob-i" | "cwd-prefix-glob-i" => k(false, true, true, true),
        "root" => k(true, true, false, false),
        "root-file" => k(true, false, false, false),
        "root-glob" => k(true, false, true, false),
        "root-glob-i" => k(true, false, true, true),
        "root-prefix-glob" => k(true, true, true, false),
        "root-prefix-glob-i" => k(true, true, true, true),
        other => vcommon::machinery_failure(&format!("unknown kind {other}")),
    }
}

const ALL_KINDS: [&str; 18] = [
    "",
    "cwd",
    "file",
    "cwd-file",
    "glob",
    "cwd-glob",
    "glob-i",
    "cwd-glob-i",
    "prefix-glob",
    "cwd-prefix-glob",
    "prefix-glob-i",
    "cwd-prefix-glob-i",
    "root",
    "root-file",
    "root-glob",
    "root-glob-i",
    "root-prefix-glob",
    "root-prefix-glob-i",
];

/// Kinds without the `cwd-` aliases.
const MAIN_KINDS: [&str; 13] = [
    "",
    "cwd",
    "file",
    "glob",
    "glob-i",
    "prefix-glob",
    "prefix-glob-i",
    "root",
    "root-file",
    "root-glob",
    "root-glob-i",
    "root-prefix-glob",
    "root-prefix-glob-i",
];

const ARGS: [&str; 26] = [
    "a", "a/b", ".", "..", "../b", "B", "b/", "../..", "z", "A/b", "./b", "a/b/a", // literal
    "*", "a/*", "**/b", "?", "*/b", "a/**", "**", "[ab]", "A/*", "../*", "a/**/b", "*/B", // glob
    "/ws/a", "/other", // absolute (cwd kinds without -i only)
];

fn is_glob_char(c: char) -> bool {
    matches!(c, '?' | '*' | '[' | ']' | '{' | '}' | '\\')
}

#[derive(Clone, Copy, Debug, PartialEq, Eq)]
enum Strict {
    /// must parse and select exactly the reference set
    Must,
    /// may be rejected; if accepted must select the reference set
    May,
    /// must be a parse error
    Reject(&'static str),
}

#[derive(Clone, Copy, Debug)]
struct AtomRef {
    strict: Strict,
    mask: Mask,
}

fn seg_match(p: &[char], t: &[char]) -> bool {
    match p.first() {
        None => t.is_empty(),
        Some('*') => (0..=t.len()).any(|k| seg_match(&p[1..], &t[k..])),
        Some('?') => !t.is_empty() && seg_match(&p[1..], &t[1..]),
        Some('[') => {
            let Some(end) = p.iter().position(|c| *c == ']') else {
                vcommon::machinery_failure("unterminated class in the glob alphabet");
            };
            let (negated, members) = if p.get(1) == Some(&'!') { (true, &p[2..end]) } else { (false, &p[1..end]) };
            !t.is_empty() && (members.contains(&t[0]) != negated) && seg_match(&p[end + 1..], &t[1..])
        }
        Some(c) => !t.is_empty() && t[0] == *c && seg_match(&p[1..], &t[1..]),
    }
}

/// Component-wise glob match following the globset syntax page.
fn glob_match(pat: &[String], path: &[String], icase: bool, whole_pattern_is_double_star: bool) -> bool {
    if whole_pattern_is_double_star {
        return true; // "the glob `**` is allowed and means match everything"
    }
    match pat.first() {
        None => path.is_empty(),
        Some(p) if p == "**" => {
            if pat.len() == 1 {
                // trailing "/**": all sub-entries, but not the directory itself
                !path.is_empty()
            } else {
                // leading "**/" or inner "/**/": zero or more directories
                (0..=path.len()).any(|k| glob_match(&pat[1..], &path[k..], icase, false))
            }
        }
        Some(p) => {
            if path.is_empty() {
                return false;
            }
            let fold = |s: &str| -> Vec<char> {
                if icase { s.chars().map(|c| c.to_ascii_lowercase()).collect() } else { s.chars().collect() }
            };
            seg_match(&fold(p), &fold(&path[0])) && glob_match(&pat[1..], &path[1..], icase, false)
        }
    }
}

/// `cwd`: components of the working directory below the workspace root.
fn atom_reference(u: &Universe, cwd: &[&str], kind: KindSem, arg: &str) -> AtomRef {
    let reject = |why| AtomRef { strict: Strict::Reject(why), mask: Mask::default() };
    let absolute = arg.starts_with('/');
    let raw: Vec<&str> = arg.split('/').collect();
    let is_pattern_component = |c: &str| {
        kind.glob
            && (c.chars().any(is_glob_char) || (kind.icase && c.chars().any(|ch| ch.is_ascii_alphabetic())))
    };
    let split_at = raw.iter().position(|c| is_pattern_component(c)).unwrap_or(raw.len());
    let nav: Vec<&str> = raw[..split_at].iter().copied().filter(|c| !c.is_empty()).collect();
    let mut strict = Strict::Must;
    let mut pat: Vec<String> = vec![];
    for c in &raw[split_at..] {
        match *c {
            "" => {}
            "." => strict = Strict::May,
            ".." => vcommon::machinery_failure("'..' after a pattern component is not in the alphabet"),
            c => pat.push(c.to_string()),
        }
    }
    // resolve the literal part
    let mut stack: Vec<&str> = vec![];
    let mut past_root = false;
    if kind.root {
        if absolute {
            vcommon::machinery_failure("absolute arguments are not generated for root kinds");
        }
    } else if !absolute {
        stack.push("ws");
        stack.extend(cwd);
    }
    for c in &nav {
        match *c {
            "." => {}
            ".." => {
                if stack.pop().is_none() {
                    past_root = true;
                }
            }
            c => stack.push(c),
        }
    }
    let dir: Vec<&str> = if kind.root {
        if past_root {
            return reject("escapes the workspace");
        }
        let only_dot = !nav.is_empty() && nav.iter().all(|c| *c == ".") && nav.len() == 1;
        if nav.iter().any(|c| *c == "." || *c == "..") && !only_dot {
            strict = Strict::May; // "should not contain redundant . or .."
        }
        stack
    } else {
        if stack.first() != Some(&"ws") {
            return reject("is outside the workspace");
        }
        if past_root {
            strict = Strict::May;
        }
        stack[1..].to_vec()
    };
    let whole_double_star = pat.len() == 1 && pat[0] == "**";
    let mut mask = Mask::default();
    for (i, p) in u.comps.iter().enumerate() {
        let under = p.len() >= dir.len() && p.iter().zip(&dir).all(|(a, b)| a == b);
        if !under {
            continue;
        }
        let tail = &p[dir.len()..];
        let hit = if pat.is_empty() {
            if kind.prefix { true } else { tail.is_empty() }
        } else if tail.is_empty() {
            false
        } else if kind.prefix {
            (1..=tail.len()).any(|k| glob_match(&pat, &tail[..k], kind.icase, whole_double_star))
        } else {
            glob_match(&pat, tail, kind.icase, whole_double_star)
        };
        if hit {
            mask.set(i);
        }
    }
    AtomRef { strict, mask }
}

// ---------------------------------------------------------------------------------------
// Syntax trees
// ---------------------------------------------------------------------------------------

#[derive(Clone, Copy, Debug, PartialEq, Eq, Hash)]
enum Quote {
    Bare,
    Double,
    Single,
}

#[derive(Clone, Debug, PartialEq, Eq, Hash)]
struct Atom {
    kind: &'static str,
    arg: &'static str,
    quote: Quote,
}

#[derive(Clone, Debug)]
enum Ast {
    Atom(Atom),
    All,
    None,
    Not(Box<Ast>),
    And(Box<Ast>, Box<Ast>),
    Minus(Box<Ast>, Box<Ast>),
    Or(Box<Ast>, Box<Ast>),
}

#[derive(Clone, Copy, Debug, PartialEq, Eq)]
enum BinOp {
    And,
    Minus,
    Or,
}
const BINOPS: [BinOp; 3] = [BinOp::And, BinOp::Minus, BinOp::Or];

fn bin(op: BinOp, l: Ast, r: Ast) -> Ast {
    match op {
        BinOp::And => Ast::And(Box::new(l), Box::new(r)),
        BinOp::Minus => Ast::Minus(Box::new(l), Box::new(r)),
        BinOp::Or => Ast::Or(Box::new(l), Box::new(r)),
    }
}

#[derive(Clone, Copy, PartialEq, Eq)]
enum Style {
    /// minimal parentheses, one space around infix operators
    Minimal,
    /// minimal parentheses, no whitespace
    Tight,
    /// every operator application parenthesised
    Full,
}

impl Atom {
    fn text(&self) -> String {
        let arg = match self.quote {
            Quote::Bare => self.arg.to_string(),
            Quote::Double => format!("\"{}\"", self.arg),
            Quote::Single => format!("'{}'", self.arg),
        };
        if self.kind.is_empty() { arg } else { format!("{}:{arg}", self.kind) }
    }
}

impl Ast {
    /// Documented binding power: `|` 1 < `&`,`~` (infix) 2 < `~x` 3 < primary 4; infix
    /// operators are left-associative.
    fn print(&self, min: u8, style: Style) -> String {
        let (s, prec) = match self {
            Ast::Atom(a) => (a.text(), 4),
            Ast::All => ("all()".to_string(), 4),
            Ast::None => ("none()".to_string(), 4),
            Ast::Not(x) => (format!("~{}", x.print(3, style)), 3),
            Ast::And(l, r) | Ast::Minus(l, r) | Ast::Or(l, r) => {
                let (sym, prec) = match self {
                    Ast::And(..) => ("&", 2),
                    Ast::Minus(..) => ("~", 2),
                    _ => ("|", 1),
                };
                let (l, r) = (l.print(prec, style), r.print(prec + 1, style));
                match style {
                    Style::Tight => (format!("{l}{sym}{r}"), prec),
                    _ => (format!("{l} {sym} {r}"), prec),
                }
            }
        };
        let is_op = prec < 4;
        if prec < min || (style == Style::Full && is_op) {
            if style == Style::Full { format!("( {s} )") } else { format!("({s})") }
        } else {
            s
        }
    }

    fn shape(&self) -> String {
        match self {
            Ast::Atom(a) => format!("{}:", a.kind),
            Ast::All => "all".into(),
            Ast::None => "none".into(),
            Ast::Not(x) => format!("not({})", x.shape_short()),
            Ast::And(l, r) => format!("and({},{})", l.shape_short(), r.shape_short()),
            Ast::Minus(l, r) => format!("minus({},{})", l.shape_short(), r.shape_short()),
            Ast::Or(l, r) => format!("or({},{})", l.shape_short(), r.shape_short()),
        }
    }
    fn shape_short(&self) -> String {
        match self {
            Ast::Atom(_) | Ast::All | Ast::None => "x".into(),
            Ast::Not(x) => format!("not({})", x.shape_short()),
            Ast::And(l, r) => format!("and({},{})", l.shape_short(), r.shape_short()),
            Ast::Minus(l, r) => format!("minus({},{})", l.shape_short(), r.shape_short()),
            Ast::Or(l, r) => format!("or({},{})", l.shape_short(), r.shape_short()),
        }
    }

    fn to_json(&self) -> Value {
        match self {
            Ast::Atom(a) => json!({"kind": a.kind, "arg": a.arg}),
            Ast::All => json!("all()"),
            Ast::None => json!("none()"),
            Ast::Not(x) => json!({"not": x.to_json()}),
            Ast::And(l, r) => json!({"and": [l.to_json(), r.to_json()]}),
            Ast::Minus(l, r) => json!({"minus": [l.to_json(), r.to_json()]}),
            Ast::Or(l, r) => json!({"or": [l.to_json(), r.to_json()]}),
        }
    }

    fn from_json(v: &Value) -> Ast {
        if let Some(s) = v.as_str() {
            return if s == "all()" { Ast::All } else { Ast::None };
        }
        let leak = |s: &str| -> &'static str { Box::leak(s.to_string().into_boxed_str()) };
        if let Some(k) = v.get("kind") {
            return Ast::Atom(Atom {
                kind: leak(k.as_str().unwrap()),
                arg: leak(v["arg"].as_str().unwrap()),
                quote: Quote::Bare,
            });
        }
        if let Some(x) = v.get("not") {
            return Ast::Not(Box::new(Ast::from_json(x)));
        }
        for (key, op) in [("and", BinOp::And), ("minus", BinOp::Minus), ("or", BinOp::Or)] {
            if let Some(a) = v.get(key) {
                return bin(op, Ast::from_json(&a[0]), Ast::from_json(&a[1]));
            }
        }
        vcommon::machinery_failure("bad ast in replay file");
    }

    /// Reference evaluation: (strictness, set).
    fn reference(&self, u: &Universe, cwd: &[&str]) -> AtomRef {
        let both = |l: &Ast, r: &Ast, f: fn(u64, u64) -> u64| {
            let (x, y) = (l.reference(u, cwd), r.reference(u, cwd));
            let strict = match (x.strict, y.strict) {
                (Strict::Reject(w), _) | (_, Strict::Reject(w)) => Strict::Reject(w),
                (Strict::May, _) | (_, Strict::May) => Strict::May,
                _ => Strict::Must,
            };
            AtomRef { strict, mask: x.mask.zip(y.mask, f) }
        };
        match self {
            Ast::Atom(a) => atom_reference(u, cwd, kind_sem(a.kind), a.arg),
            Ast::All => AtomRef { strict: Strict::Must, mask: u.all },
            Ast::None => AtomRef { strict: Strict::Must, mask: Mask::default() },
            Ast::Not(x) => {
                let r = x.reference(u, cwd);
                AtomRef { strict: r.strict, mask: u.all.zip(r.mask, |a, b| a & !b) }
            }
            Ast::And(l, r) => both(l, r, |a, b| a & b),
            Ast::Minus(l, r) => both(l, r, |a, b| a & !b),
            Ast::Or(l, r) => both(l, r, |a, b| a | b),
        }
    }
}

// ---------------------------------------------------------------------------------------
// Real code + oracle
// ---------------------------------------------------------------------------------------

const CWDS: [&[&str]; 3] = [&[], &["a"], &["a", "b"]];

fn cwd_path(cwd: &[&str]) -> PathBuf {
    let mut p = PathBuf::from("/ws");
    for c in cwd {
        p.push(c);
    }
    p
}

#[derive(Default, Clone, Copy)]
struct Tally {
    evals: u64,
    nontrivial: u64,
    accepted: u64,
    must_reject: u64,
    may: u64,
    may_rejected: u64,
}

impl Tally {
    fn add(mut self, o: Tally) -> Tally {
        self.evals += o.evals;
        self.nontrivial += o.nontrivial;
        self.accepted += o.accepted;
        self.must_reject += o.must_reject;
        self.may += o.may;
        self.may_rejected += o.may_rejected;
        self
    }
}

fn real_eval(u: &Universe, cwd: &[&str], text: &str, maybe_bare: bool) -> Result<Result<Mask, String>, String> {
    catch(|| {
        let conv = RepoPathUiConverter::Fs { cwd: cwd_path(cwd), base: PathBuf::from("/ws") };
        let aliases = FilesetAliasesMap::new();
        let context = FilesetParseContext { aliases_map: &aliases, path_converter: &conv };
        let mut diag = FilesetDiagnostics::new();
        let parsed = if maybe_bare {
            fileset::parse_maybe_bare(&mut diag, text, &context)
        } else {
            fileset::parse(&mut diag, text, &context)
        };
        match parsed {
            Err(e) => Err(format!("{e}")),
            Ok(expr) => {
                let m = expr.to_matcher();
                let mut mask = Mask::default();
                for (i, p) in u.paths.iter().enumerate() {
                    if m.matches(p) {
                        mask.set(i);
                    }
                }
                Ok(mask)
            }
        }
    })
}

fn show_diff(u: &Universe, got: Mask, want: Mask) -> String {
    let extra: Vec<&str> =
        (0..u.strings.len()).filter(|&i| got.get(i) && !want.get(i)).map(|i| u.strings[i].as_str()).take(5).collect();
    let missing: Vec<&str> =
        (0..u.strings.len()).filter(|&i| !got.get(i) && want.get(i)).map(|i| u.strings[i].as_str()).take(5).collect();
    format!("selected but should not be: {extra:?}; not selected but should be: {missing:?} (\"\" is the root path)")
}

fn check_text(
    u: &Universe,
    cwd: &[&str],
    ast: &Ast,
    text: &str,
    maybe_bare: bool,
    reference: AtomRef,
    t: &mut Tally,
) -> Result<(), Fail> {
    t.evals += 1;
    let shape = ast.shape();
    let what = format!("cwd=/ws/{} `{text}`", cwd.join("/"));
    let got = real_eval(u, cwd, text, maybe_bare)
        .map_err(|p| (format!("C31/panic/{shape}"), format!("{what}: panicked: {p}")))?;
    match reference.strict {
        Strict::Reject(_) => t.must_reject += 1,
        Strict::May => t.may += 1,
        Strict::Must => {}
    }
    match (got, reference.strict) {
        (Ok(_), Strict::Reject(why)) => Err((
            format!("C31/{shape}/accepted-escape"),
            format!("{what} was accepted although an argument {why}"),
        )),
        (Err(_), Strict::Reject(_)) => Ok(()),
        (Err(_), Strict::May) => {
            t.may_rejected += 1;
            Ok(())
        }
        (Err(e), Strict::Must) => Err((
            format!("C31/{shape}/rejected-valid"),
            format!("{what} was rejected: {e}"),
        )),
        (Ok(mask), _) => {
            t.accepted += 1;
            if mask != reference.mask {
                return Err((
                    format!("C31/{shape}/wrong-set"),
                    format!("{what}: {}", show_diff(u, mask, reference.mask)),
                ));
            }
            if !mask.is_empty() && mask != u.all {
                t.nontrivial += 1;
            }
            Ok(())
        }
    }
}

fn case_json(cwd: &[&str], ast: &Ast, text: &str, maybe_bare: bool) -> Value {
    json!({"cwd": cwd, "text": text, "maybe_bare": maybe_bare, "ast": ast.to_json()})
}

// ---------------------------------------------------------------------------------------
// Enumeration
// ---------------------------------------------------------------------------------------

fn arg_applies(kind: &str, arg: &str) -> bool {
    let k = kind_sem(kind);
    if arg.starts_with('/') {
        return !k.root && !k.icase;
    }
    true
}

fn atoms(kinds: &[&'static str], args: &[&'static str]) -> Vec<Atom> {
    let mut out = vec![];
    for &kind in kinds {
        for &arg in args {
            if arg_applies(kind, arg) {
                out.push(Atom { kind, arg, quote: Quote::Bare });
            }
        }
    }
    out
}

fn main() {
    let ctx = Ctx::from_args("C31", Level::Exploration);
    vcommon::silence_panics();
    let u = universe();
    if let Some((_sig, case)) = ctx.replay_case() {
        let cwd_owned: Vec<String> = serde_json::from_value(case["cwd"].clone()).unwrap();
        let cwd: Vec<&str> = cwd_owned.iter().map(|s| s.as_str()).collect();
        let ast = Ast::from_json(&case["ast"]);
        let text = case["text"].as_str().unwrap();
        let mut t = Tally::default();
        let reference = ast.reference(&u, &cwd);
        if let Err((sig, msg)) =
            check_text(&u, &cwd, &ast, text, case["maybe_bare"].as_bool().unwrap_or(false), reference, &mut t)
        {
            ctx.violation(&sig, msg, case);
        }
        ctx.finish(Coverage { evaluations: t.evals, ..Default::default() });
    }
    let thorough = ctx.thorough();
    let samples = Samples::new(4);
    let samples2 = Samples::new(5);
    let samples3 = Samples::new(2);

    // Self-check of the reference on the examples of the documentation and jj's doc comments.
    {
        let set = |cwd: &[&str], kind: &str, arg: &str| -> Vec<&str> {
            let r = atom_reference(&u, cwd, kind_sem(kind), arg);
            (0..u.strings.len()).filter(|&i| r.mask.get(i)).map(|i| u.strings[i].as_str()).collect()
        };
        let strict = |cwd: &[&str], kind: &str, arg: &str| atom_reference(&u, cwd, kind_sem(kind), arg).strict;
        let ok = set(&["a"], "glob", "*") == ["a/a", "a/b", "a/A", "a/B", "a/z", "a/*", "a/[ab]"]
            && set(&[], "file", "a/b") == ["a/b"]
            && set(&["a", "b"], "file", "../..") == [""]
            && set(&[], "root-glob", "a/**") == set(&["a"], "prefix-glob", "*")
            && set(&[], "glob", "**/b").contains(&"b")
            && set(&[], "glob", "**/b").contains(&"a/A/b")
            && !set(&[], "glob", "**/b").contains(&"b/a")
            && !set(&[], "glob", "a/**").contains(&"a")
            && set(&[], "glob-i", "a/b") == ["a/b", "a/B", "A/b", "A/B"]
            && set(&["a"], "glob-i", "b") == ["a/b", "a/B"]
            && set(&[], "file", "*") == ["*"]
            && set(&[], "", "[ab]") == set(&[], "prefix-glob", "[ab]")
            && set(&[], "", "[ab]").contains(&"b/z/z")
            && !set(&[], "", "[ab]").contains(&"[ab]")
            && set(&[], "root", ".").len() == u.strings.len()
            && matches!(strict(&[], "root", ".."), Strict::Reject(_))
            && matches!(strict(&["a"], "cwd", "../.."), Strict::Reject(_))
            && strict(&["a"], "cwd", "..") == Strict::Must
            && matches!(strict(&[], "glob", "/other"), Strict::Reject(_))
            && strict(&[], "root-file", "./b") == Strict::May;
        if !ok {
            vcommon::machinery_failure("reference semantics fail their self-check");
        }
    }

    let violation = |f: Fail, cwd: &[&str], ast: &Ast, text: &str, maybe_bare: bool| {
        ctx.violation(&f.0, f.1, case_json(cwd, ast, text, maybe_bare));
    };

    // ---- level 0: every atom (all kind spellings, all arguments, three quotings), alone and
    // negated, through parse() and parse_maybe_bare().
    let mut level0: Vec<Ast> = vec![Ast::All, Ast::None];
    for a in atoms(&ALL_KINDS, &ARGS) {
        for quote in [Quote::Bare, Quote::Double, Quote::Single] {
            level0.push(Ast::Atom(Atom { quote, ..a.clone() }));
        }
    }
    let n_atoms0 = level0.len();
    let icase_effective = std::sync::atomic::AtomicU64::new(0);
    let cwd_sensitive = std::sync::atomic::AtomicU64::new(0);
    let distinct_sets: std::sync::Mutex<HashSet<Mask>> = Default::default();
    let t0 = level0
        .par_iter()
        .map(|ast| {
            let mut t = Tally::default();
            let mut sets = vec![];
            for cwd in CWDS {
                let reference = ast.reference(&u, cwd);
                sets.push(reference.mask);
                for maybe_bare in [false, true] {
                    let text = ast.print(0, Style::Minimal);
                    if let Err(f) = check_text(&u, cwd, ast, &text, maybe_bare, reference, &mut t) {
                        violation(f, cwd, ast, &text, maybe_bare);
                    }
                }
                let neg = Ast::Not(Box::new(ast.clone()));
                let text = neg.print(0, Style::Minimal);
                let nref = neg.reference(&u, cwd);
                if let Err(f) = check_text(&u, cwd, &neg, &text, false, nref, &mut t) {
                    violation(f, cwd, &neg, &text, false);
                }
                if let Ast::Atom(a) = ast {
                    let k = kind_sem(a.kind);
                    if k.icase && a.quote == Quote::Bare {
                        let cs = atom_reference(&u, cwd, KindSem { icase: false, ..k }, a.arg);
                        if cs.mask != reference.mask {
                            icase_effective.fetch_add(1, std::sync::atomic::Ordering::Relaxed);
                        }
                    }
                }
            }
            if sets.iter().any(|s| *s != sets[0]) {
                cwd_sensitive.fetch_add(1, std::sync::atomic::Ordering::Relaxed);
            }
            distinct_sets.lock().unwrap().extend(sets);
            t
        })
        .reduce(Tally::default, Tally::add);

    // ---- level 1: x op y over the main kinds.
    let l1_args: &[&'static str] = if thorough {
        &ARGS
    } else {
        &[
            "a", "a/b", ".", "..", "../b", "B", "b/", "A/b", "*", "a/*", "**/b", "*/b", "a/**", "[ab]", "../*",
            "/ws/a",
        ]
    };
    let l1_kinds: &[&'static str] = if thorough { &ALL_KINDS } else { &MAIN_KINDS };
    let mut l1_atoms: Vec<Ast> = atoms(l1_kinds, l1_args).into_iter().map(Ast::Atom).collect();
    l1_atoms.push(Ast::All);
    l1_atoms.push(Ast::None);
    let n_atoms1 = l1_atoms.len();
    let l1_jobs: Vec<(usize, usize)> =
        (0..CWDS.len()).flat_map(|c| (0..n_atoms1).map(move |i| (c, i))).collect();
    let t1 = l1_jobs
        .par_iter()
        .map(|&(c, i)| {
            let cwd = CWDS[c];
            let mut t = Tally::default();
            for j in 0..n_atoms1 {
                for op in BINOPS {
                    let ast = bin(op, l1_atoms[i].clone(), l1_atoms[j].clone());
                    let reference = ast.reference(&u, cwd);
                    let styles: &[Style] =
                        if (i + j) % 8 == 0 { &[Style::Minimal, Style::Tight, Style::Full] } else { &[Style::Minimal] };
                    for &style in styles {
                        let text = ast.print(0, style);
                        if (i * 31 + j * 17) % 1009 == 3 && op == BinOp::Minus && style == Style::Minimal {
                            samples.offer(|| json!({"cwd": format!("/ws/{}", cwd.join("/")), "text": text}));
                        }
                        if let Err(f) = check_text(&u, cwd, &ast, &text, false, reference, &mut t) {
                            violation(f, cwd, &ast, &text, false);
                        }
                    }
                }
            }
            t
        })
        .reduce(Tally::default, Tally::add);

    // ---- level 2: precedence, associativity and nesting over a small atom set.
    let l2_kinds: &[&'static str] =
        if thorough {
            &["", "cwd", "file", "glob", "glob-i", "root", "root-file", "root-glob", "root-prefix-glob"]
        } else {
            &["", "file", "glob", "glob-i", "root"]
        };
    let l2_args: &[&'static str] =
        if thorough { &["a", "a/b", "..", "*", "**/b", "a/*", "B"] } else { &["a", "..", "*/b"] };
    let mut l2_atoms: Vec<Ast> = atoms(l2_kinds, l2_args).into_iter().map(Ast::Atom).collect();
    l2_atoms.push(Ast::All);
    if thorough {
        l2_atoms.push(Ast::None);
    }
    let n_atoms2 = l2_atoms.len();
    let l2_jobs: Vec<(usize, usize)> =
        (0..CWDS.len()).flat_map(|c| (0..n_atoms2).map(move |i| (c, i))).collect();
    let t2 = l2_jobs
        .par_iter()
        .map(|&(c, i)| {
            let cwd = CWDS[c];
            let mut t = Tally::default();
            let mut run = |ast: Ast, t: &mut Tally, sample: bool| {
                let reference = ast.reference(&u, cwd);
                let text = ast.print(0, Style::Minimal);
                if sample {
                    samples2.offer(|| json!({"cwd": format!("/ws/{}", cwd.join("/")), "text": text}));
                }
                if let Err(f) = check_text(&u, cwd, &ast, &text, false, reference, t) {
                    violation(f, cwd, &ast, &text, false);
                }
            };
            let x = &l2_atoms[i];
            // unary shapes
            run(Ast::Not(Box::new(Ast::Not(Box::new(x.clone())))), &mut t, false);
            for j in 0..n_atoms2 {
                let y = &l2_atoms[j];
                for op1 in BINOPS {
                    let inner = bin(op1, x.clone(), y.clone());
                    run(Ast::Not(Box::new(inner.clone())), &mut t, false);
                    run(bin(op1, Ast::Not(Box::new(x.clone())), y.clone()), &mut t, false);
                    run(bin(op1, x.clone(), Ast::Not(Box::new(y.clone()))), &mut t, false);
                    for k in 0..n_atoms2 {
                        let z = &l2_atoms[k];
                        for op2 in BINOPS {
                            let sample = (i + 3 * j + 7 * k) % 97 == 11 && op1 != op2;
                            run(bin(op2, inner.clone(), z.clone()), &mut t, sample);
                            run(bin(op2, z.clone(), inner.clone()), &mut t, false);
                        }
                    }
                }
            }
            t
        })
        .reduce(Tally::default, Tally::add);

    // ---- level 3: n-ary unions x1 | x2 | x3 | x4 [| x5] (the matcher builder groups the
    // patterns of a union by type; several globs share or do not share a directory).
    let mut l3_atoms: Vec<Ast> = [
        ("file", "a"),
        ("", "a/b"),
        ("glob", "*/b"),
        ("", "*/B"),
        ("root-glob-i", "a/*"),
        ("glob", "*"),
        ("root-file", "b"),
    ]
    .into_iter()
    .map(|(kind, arg)| Ast::Atom(Atom { kind, arg, quote: Quote::Bare }))
    .collect();
    l3_atoms.push(Ast::Not(Box::new(Ast::Atom(Atom { kind: "file", arg: "a/b", quote: Quote::Bare }))));
    let n_atoms3 = l3_atoms.len();
    let mut l3_jobs: Vec<(usize, Vec<usize>)> = vec![];
    for c in 0..CWDS.len() {
        for n in 4..=ctx.pick(4usize, 5usize) {
            vcommon::enumerate::odometer(&vec![n_atoms3; n], |idx| {
                l3_jobs.push((c, idx.to_vec()));
                true
            });
        }
    }
    let t3 = l3_jobs
        .par_iter()
        .map(|(c, idx)| {
            let cwd = CWDS[*c];
            let mut t = Tally::default();
            let mut ast = l3_atoms[idx[0]].clone();
            for &i in &idx[1..] {
                ast = bin(BinOp::Or, ast, l3_atoms[i].clone());
            }
            let reference = ast.reference(&u, cwd);
            let text = ast.print(0, Style::Minimal);
            if idx.iter().collect::<HashSet<_>>().len() == idx.len() && idx[0] == 2 && idx[1] == 5 {
                samples3.offer(|| json!({"cwd": format!("/ws/{}", cwd.join("/")), "text": text}));
            }
            if let Err(f) = check_text(&u, cwd, &ast, &text, false, reference, &mut t) {
                violation(f, cwd, &ast, &text, false);
            }
            t
        })
        .reduce(Tally::default, Tally::add);

    let total = t0.add(t1).add(t2).add(t3);
    let icase_effective = icase_effective.into_inner();
    let cwd_sensitive = cwd_sensitive.into_inner();
    let distinct_sets = distinct_sets.into_inner().unwrap().len();
    if ctx.violation_count() == 0 {
        for (name, n) in [
            ("accepted", total.accepted),
            ("must_reject", total.must_reject),
            ("nontrivial", total.nontrivial),
            ("icase_effective_atoms", icase_effective),
            ("cwd_sensitive_atoms", cwd_sensitive),
        ] {
            if n == 0 {
                vcommon::machinery_failure(&format!("vacuous: counter {name} is 0"));
            }
        }
    }
    let cov = Coverage {
        evaluations: total.evals,
        distinct_nontrivial: total.nontrivial,
        rule: format!(
            "expression strings printed from syntax trees and parsed by the real parser, for cwd in /ws, /ws/a, \
             /ws/a/b. Level 0: {n_atoms0} atoms (18 kind spellings incl. the default x {} arguments x bare/\"..\"/'..' \
             quoting, all(), none()), alone via parse() and parse_maybe_bare() and negated. Level 1: every x op y \
             for op in & ~ | over {n_atoms1} atoms ({} kind spellings x {} arguments + all() + none()); one in eight also \
             without whitespace and fully parenthesised. Level 2: ~~x, ~(x op y), ~x op y, x op ~y, (x op1 y) op2 z and \
             z op2 (x op1 y) printed with minimal parentheses over {n_atoms2} atoms. Level 3: every union x1 | .. | xn, \
             n = 4 (thorough: and 5), over {n_atoms3} atoms of different pattern types. Every (cwd, string, entry point) \
             is generated once. Each expression is evaluated on {} paths. Non-trivial = accepted expressions whose \
             selected set is neither empty nor the whole universe",
            ARGS.len(),
            l1_kinds.len(),
            l1_args.len(),
            u.strings.len(),
        ),
        samples: samples.take().into_iter().chain(samples2.take()).chain(samples3.take()).collect(),
        exhaustive: true,
        extra: [
            ("level0_evaluations".to_string(), json!(t0.evals)),
            ("level1_evaluations".to_string(), json!(t1.evals)),
            ("level2_evaluations".to_string(), json!(t2.evals)),
            ("level3_evaluations".to_string(), json!(t3.evals)),
            ("accepted_expressions".to_string(), json!(total.accepted)),
            ("expressions_that_must_be_rejected".to_string(), json!(total.must_reject)),
            ("either_outcome_allowed".to_string(), json!(total.may)),
            ("either_outcome_allowed_and_rejected".to_string(), json!(total.may_rejected)),
            ("icase_atoms_where_case_folding_changes_the_set".to_string(), json!(icase_effective)),
            ("atoms_whose_set_depends_on_cwd".to_string(), json!(cwd_sensitive)),
            ("distinct_atom_sets".to_string(), json!(distinct_sets)),
            ("universe_paths".to_string(), json!(u.strings.len())),
        ]
        .into_iter()
        .collect(),
        assumptions: vec![
            "glob semantics are those of the globset syntax page with literal_separator (the documentation links to it); `{a,b}` alternation, backslash escapes and `**` inside a component are not in the alphabet".into(),
            "arguments with '..' after a glob component, absolute arguments for root-* and *-i kinds are not generated (the documentation does not define them)".into(),
            "root-relative arguments containing '.' or '..' that stay inside the workspace may be rejected (jj documents that such input 'should not' be given), but must select the lexically normalised path if accepted".into(),
            "Unix separators only; aliases (fileset-aliases) are not exercised".into(),
        ],
        ..Default::default()
    };
    ctx.finish(cov);
}

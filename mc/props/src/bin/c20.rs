//! C20 — Shortest unique id prefixes are unique, minimal and resolvable.
//!
//! Bounded exhaustive enumeration over real repositories whose commit ids and change ids are
//! *chosen* by the harness (an in-memory commit backend takes the commit id from the
//! description; change ids via `CommitBuilder::set_change_id`). Enumerated: every subset (up
//! to k ids) of a shaped id pool (ids that differ from each other and from the root id at
//! chosen nibbles, before / at / after the 4-byte short key of `IdIndex`), every way of
//! sharing change ids (set partitions), two graph shapes, every assignment of the commits to
//! up to four transactions under two filler schedules (which decides the stack of index
//! segments: readonly segments and the uncommitted mutable segment), every descendant-closed
//! set of abandoned (hidden) commits, every disambiguation set over the chosen commits, and
//! bookmarks / tags named like id prefixes.
//!
//! Oracle (reference = plain `str::starts_with` over the hex strings of the model):
//!   (1) the prefix of the reported shortest length resolves to exactly that commit / change;
//!   (2) every shorter prefix is ambiguous or resolves to something else;
//!   (3) every queried prefix resolves to what brute force says (no match / that one id /
//!       ambiguous), with and without a disambiguation set (fallback to the whole index);
//!   (4) a change-id prefix returns exactly the visible commits of the change as visible (and
//!       only hidden commits of that change as hidden);
//! at three layers: `Index` / `Repo` trait methods, `IdPrefixIndex`, and `SymbolResolver`.

use std::collections::BTreeMap;
use std::collections::BTreeSet;
use std::collections::HashMap;
use std::pin::Pin;
use std::sync::Arc;
use std::sync::Mutex;
use std::sync::atomic::AtomicUsize;
use std::sync::atomic::Ordering;
use std::time::SystemTime;

use async_trait::async_trait;
use futures::AsyncRead;
use futures::StreamExt as _;
use futures::stream::BoxStream;
use jj_lib::backend::Backend;
use jj_lib::backend::BackendError;
use jj_lib::backend::BackendResult;
use jj_lib::backend::ChangeId;
use jj_lib::backend::Commit as BackendCommit;
use jj_lib::backend::CommitId;
use jj_lib::backend::CopyHistory;
use jj_lib::backend::CopyId;
use jj_lib::backend::CopyRecord;
use jj_lib::backend::FileId;
use jj_lib::backend::MillisSinceEpoch;
use jj_lib::backend::RelatedCopy;
use jj_lib::backend::Signature;
use jj_lib::backend::SigningFn;
use jj_lib::backend::SymlinkId;
use jj_lib::backend::Timestamp;
use jj_lib::backend::Tree as BackendTree;
use jj_lib::backend::TreeId;
use jj_lib::backend::make_root_commit;
use jj_lib::commit::Commit;
use jj_lib::default_index::DefaultReadonlyIndex;
use jj_lib::id_prefix::IdPrefixContext;
use jj_lib::index::Index;
use jj_lib::index::ResolvedChangeState;
use jj_lib::index::ResolvedChangeTargets;
use jj_lib::object_id::HexPrefix;
use jj_lib::object_id::ObjectId as _;
use jj_lib::object_id::PrefixResolution;
use jj_lib::op_store::RefTarget;
use jj_lib::repo::ReadonlyRepo;
use jj_lib::repo::Repo;
use jj_lib::repo_path::RepoPath;
use jj_lib::repo_path::RepoPathBuf;
use jj_lib::revset::RevsetExpression;
use jj_lib::revset::RevsetResolutionError;
use jj_lib::revset::SymbolResolver;
use jj_lib::revset::SymbolResolverExtension;
use jj_lib::settings::UserSettings;
use jj_lib::signing::Signer;
use pollster::FutureExt as _;
use rayon::prelude::*;
use serde_json::Value;
use serde_json::json;
use vcommon::Counter;
use vcommon::Coverage;
use vcommon::Ctx;
use vcommon::Level;
use vcommon::Samples;
use vcommon::catch;
use vcommon::machinery_failure;

const COMMIT_LEN: usize = 5; // bytes; > 4 so that both branches of IdIndex<_, _, 4> are used
const CHANGE_LEN: usize = 6;

// ---------------------------------------------------------------------------------------
// Tiny hex helpers of the harness (independent of jj's hex_util).

fn unhex(s: &str) -> Option<Vec<u8>> {
    if s.len() % 2 != 0 {
        return None;
    }
    let d = |c: u8| match c {
        b'0'..=b'9' => Some(c - b'0'),
        b'a'..=b'f' => Some(c - b'a' + 10),
        _ => None,
    };
    s.as_bytes().chunks(2).map(|p| Some(d(p[0])? * 16 + d(p[1])?)).collect()
}

/// jj shows change ids with the digits 0..f written as z..k.
fn reverse_hex(hex: &str) -> String {
    hex.chars()
        .map(|c| {
            let v = c.to_digit(16).expect("hex digit") as usize;
            "zyxwvutsrqponmlk".as_bytes()[v] as char
        })
        .collect()
}

fn is_hex(s: &str) -> bool {
    !s.is_empty() && s.chars().all(|c| matches!(c, '0'..='9' | 'a'..='f'))
}

fn is_reverse_hex(s: &str) -> bool {
    !s.is_empty() && s.chars().all(|c| matches!(c, 'k'..='z'))
}

// ---------------------------------------------------------------------------------------
// In-memory commit backend whose commit ids are chosen by the harness: the id of a commit is
// the hex string in its description.

#[derive(Default)]
struct MemData {
    commits: HashMap<CommitId, BackendCommit>,
}

struct MemBackend {
    root_commit_id: CommitId,
    root_change_id: ChangeId,
    empty_tree_id: TreeId,
    data: Mutex<MemData>,
}

impl std::fmt::Debug for MemBackend {
    fn fmt(&self, f: &mut std::fmt::Formatter<'_>) -> std::fmt::Result {
        f.debug_struct("MemBackend").finish_non_exhaustive()
    }
}

impl MemBackend {
    fn new() -> Self {
        MemBackend {
            root_commit_id: CommitId::from_bytes(&[0; COMMIT_LEN]),
            root_change_id: ChangeId::from_bytes(&[0; CHANGE_LEN]),
            empty_tree_id: TreeId::new(vec![0xee; 5]),
            data: Mutex::new(MemData::default()),
        }
    }
}

fn unsupported<T>(what: &str) -> BackendResult<T> {
    Err(BackendError::Unsupported(format!("c20 backend: {what}")))
}

#[async_trait]
impl Backend for MemBackend {
    fn name(&self) -> &str {
        "c20mem"
    }
    fn commit_id_length(&self) -> usize {
        COMMIT_LEN
    }
    fn change_id_length(&self) -> usize {
        CHANGE_LEN
    }
    fn root_commit_id(&self) -> &CommitId {
        &self.root_commit_id
    }
    fn root_change_id(&self) -> &ChangeId {
        &self.root_change_id
    }
    fn empty_tree_id(&self) -> &TreeId {
        &self.empty_tree_id
    }
    fn concurrency(&self) -> usize {
        1
    }
    async fn read_file(
        &self,
        _path: &RepoPath,
        _id: &FileId,
    ) -> BackendResult<Pin<Box<dyn AsyncRead + Send>>> {
        unsupported("read_file")
    }
    async fn write_file(
        &self,
        _path: &RepoPath,
        _contents: &mut (dyn AsyncRead + Send + Unpin),
    ) -> BackendResult<FileId> {
        unsupported("write_file")
    }
    async fn read_symlink(&self, _path: &RepoPath, _id: &SymlinkId) -> BackendResult<String> {
        unsupported("read_symlink")
    }
    async fn write_symlink(&self, _path: &RepoPath, _target: &str) -> BackendResult<SymlinkId> {
        unsupported("write_symlink")
    }
    async fn read_copy(&self, _id: &CopyId) -> BackendResult<CopyHistory> {
        unsupported("read_copy")
    }
    async fn write_copy(&self, _copy: &CopyHistory) -> BackendResult<CopyId> {
        unsupported("write_copy")
    }
    async fn get_related_copies(&self, _copy_id: &CopyId) -> BackendResult<Vec<RelatedCopy>> {
        unsupported("get_related_copies")
    }
    async fn read_tree(&self, _path: &RepoPath, id: &TreeId) -> BackendResult<BackendTree> {
        if id == &self.empty_tree_id {
            return Ok(BackendTree::default());
        }
        unsupported("read_tree of a non-empty tree")
    }
    async fn write_tree(&self, _path: &RepoPath, _contents: &BackendTree) -> BackendResult<TreeId> {
        unsupported("write_tree")
    }
    async fn read_commit(&self, id: &CommitId) -> BackendResult<BackendCommit> {
        if id == &self.root_commit_id {
            return Ok(make_root_commit(self.root_change_id.clone(), self.empty_tree_id.clone()));
        }
        let data = self.data.lock().unwrap();
        data.commits.get(id).cloned().ok_or_else(|| BackendError::ObjectNotFound {
            object_type: "commit".to_string(),
            hash: id.hex(),
            source: "not in the c20 backend".into(),
        })
    }
    async fn write_commit(
        &self,
        contents: BackendCommit,
        _sign_with: Option<&mut SigningFn>,
    ) -> BackendResult<(CommitId, BackendCommit)> {
        let bytes = unhex(contents.description.trim()).filter(|b| b.len() == COMMIT_LEN);
        let Some(bytes) = bytes else {
            return Err(BackendError::WriteObject {
                object_type: "commit",
                source: format!("description {:?} is not a chosen commit id", contents.description).into(),
            });
        };
        let id = CommitId::new(bytes);
        let mut data = self.data.lock().unwrap();
        if id == self.root_commit_id || data.commits.get(&id).is_some_and(|old| *old != contents) {
            return Err(BackendError::WriteObject {
                object_type: "commit",
                source: format!("commit id {} written twice with different contents", id.hex()).into(),
            });
        }
        data.commits.insert(id.clone(), contents.clone());
        Ok((id, contents))
    }
    fn get_copy_records(
        &self,
        _paths: Option<&[RepoPathBuf]>,
        _root: &CommitId,
        _head: &CommitId,
    ) -> BackendResult<BoxStream<'_, BackendResult<CopyRecord>>> {
        Ok(futures::stream::empty().boxed())
    }
    fn gc(&self, _index: &dyn Index, _keep_newer: SystemTime) -> BackendResult<()> {
        Ok(())
    }
}

static REPO_SEQ: AtomicUsize = AtomicUsize::new(0);

fn new_repo(scratch: &std::path::Path, settings: &UserSettings) -> (Arc<ReadonlyRepo>, std::path::PathBuf) {
    let dir = scratch.join(format!("repo{}", REPO_SEQ.fetch_add(1, Ordering::Relaxed)));
    std::fs::create_dir_all(&dir)
        .unwrap_or_else(|e| machinery_failure(&format!("cannot create repo dir: {e}")));
    let repo = ReadonlyRepo::init(
        settings,
        &dir,
        &|_settings, _store_path| Ok(Box::new(MemBackend::new())),
        Signer::from_settings(settings).unwrap(),
        ReadonlyRepo::default_op_store_initializer(),
        ReadonlyRepo::default_op_heads_store_initializer(),
        ReadonlyRepo::default_index_store_initializer(),
        ReadonlyRepo::default_submodule_store_initializer(),
    )
    .block_on()
    .unwrap_or_else(|e| machinery_failure(&format!("cannot init repo: {e}")));
    (repo, dir)
}

fn sig() -> Signature {
    Signature {
        name: "Verif".to_string(),
        email: "verif@example.com".to_string(),
        timestamp: Timestamp { timestamp: MillisSinceEpoch(1_000_000_000), tz_offset: 0 },
    }
}

// ---------------------------------------------------------------------------------------
// Id pools (simplest first). Root commit id = 0000000000, root change id = 000000000000.
// The 4-byte short key of the disambiguation `IdIndex` covers hex digits 0..8.

const COMMIT_POOL: [&str; 13] = [
    "0000000001", // differs from the root id in the last digit (after the short key)
    "0000000100", // differs from the root id in digit 7 (last digit of the short key)
    "ffffffffff",
    "fffffffffe", // same short key as ffffffffff
    "0000000010", // digit 8: first digit after the short key
    "8000000000",
    "7fffffffff",
    "ffffffff0f", // digit 8, same short key as ffffffffff
    "0001000000",
    "00000000ff",
    "0fffffffff",
    "1000000000",
    "0000001000",
];

const CHANGE_POOL: [&str; 13] = [
    "000000000001",
    "000000010000", // digit 7
    "ffffffffffff",
    "fffffffffffe",
    "000000001000", // digit 8
    "800000000000",
    "7fffffffffff",
    "ffffffff0fff", // digit 8
    "000100000000",
    "0000000000ff",
    "0fffffffffff",
    "100000000000",
    "000000100000",
];

/// Filler commits (only there to shape the segment stack); first digits unused by the pools.
const FILLER_DIGITS: [char; 11] = ['2', '3', '4', '5', '6', '9', 'a', 'b', 'c', 'd', 'e'];

fn filler(i: usize) -> (String, String) {
    let d = FILLER_DIGITS[i];
    (std::iter::repeat_n(d, COMMIT_LEN * 2).collect(), std::iter::repeat_n(d, CHANGE_LEN * 2).collect())
}

/// The change id paired with pool commit `i`: a fixed permutation of the pool, so that the
/// change-id sets range over all subsets while their arrangement is decorrelated from the
/// commit ids.
fn paired_change(i: usize, n_pool: usize) -> &'static str {
    let a = (3..).find(|a| gcd(*a, n_pool) == 1).unwrap();
    CHANGE_POOL[(a * i + 1) % n_pool]
}

fn gcd(a: usize, b: usize) -> usize {
    if b == 0 { a } else { gcd(b, a % b) }
}

// ---------------------------------------------------------------------------------------
// Cases.

#[derive(Clone, Debug, serde::Serialize, serde::Deserialize, PartialEq, Eq)]
struct NodeSpec {
    id: String,
    change: String,
    /// hex id of the parent; `None` = root commit
    parent: Option<String>,
    filler: bool,
}

#[derive(Clone, Debug, serde::Serialize, serde::Deserialize, PartialEq, Eq)]
enum Disamb {
    /// no disambiguation revset
    None,
    /// `all()` = the visible commits
    All,
    /// `commits([..])`
    Commits(Vec<String>),
}

#[derive(Clone, Debug, serde::Serialize, serde::Deserialize, PartialEq, Eq)]
struct RefSpec {
    /// "bookmark" or "tag"
    kind: String,
    name: String,
    target: String,
}

#[derive(Clone, Debug)]
struct LayoutCase {
    /// transactions in order; the last one is observed uncommitted and committed
    txs: Vec<Vec<NodeSpec>>,
    /// each entry: commits to abandon (in this order) in one extra transaction
    hidden_options: Vec<Vec<String>>,
    /// all disambiguation subsets, absent ids and ref variants
    deep: bool,
    /// unused pool ids to query as absent ids
    absent_commits: Vec<String>,
    absent_changes: Vec<String>,
}

/// Which single observation a replay re-executes.
#[derive(Clone, Debug, serde::Serialize, serde::Deserialize, PartialEq, Eq)]
struct Selector {
    /// "mutable" | "readonly" | "hidden-mutable" | "hidden-readonly" | "ref"
    flavour: String,
    hidden: Vec<String>,
    disamb: Option<Disamb>,
    refspec: Option<RefSpec>,
}

// ---------------------------------------------------------------------------------------
// The model of one observation point and the boring reference.

#[derive(Clone, Debug)]
struct MC {
    id: String,
    change: String,
    parent: Option<usize>,
    visible: bool,
    /// index of the index segment holding the commit (0 = oldest)
    seg: usize,
    chosen: bool,
}

#[derive(Clone, Debug)]
struct Model {
    commits: Vec<MC>, // [0] = root
    refspec: Option<RefSpec>,
    /// "mutable-top" or "readonly"
    top: &'static str,
    num_segments: usize,
}

#[derive(Clone, PartialEq, Eq, Debug)]
enum Res {
    No,
    Single(String),
    Ambig,
}

impl Res {
    fn kind(&self) -> &'static str {
        match self {
            Res::No => "nomatch",
            Res::Single(_) => "single",
            Res::Ambig => "ambiguous",
        }
    }
}

/// Brute force: which distinct ids of `universe` start with `prefix`.
fn ref_resolve<'a>(prefix: &str, universe: impl Iterator<Item = &'a str>) -> Res {
    let mut first: Option<&str> = None;
    for y in universe {
        if y.starts_with(prefix) {
            match first {
                None => first = Some(y),
                Some(f) if f == y => {}
                Some(_) => return Res::Ambig,
            }
        }
    }
    match first {
        None => Res::No,
        Some(f) => Res::Single(f.to_string()),
    }
}

/// Smallest `l >= min_len` such that no *other* id of the universe starts with `x[..l]`.
fn ref_shortest(x: &str, universe: &BTreeSet<&str>, min_len: usize) -> usize {
    let scan = (min_len..=x.len())
        .find(|&l| universe.iter().all(|y| *y == x || !y.starts_with(&x[..l])))
        .unwrap_or(x.len() + 1);
    // second formulation: 1 + longest common prefix with any other id
    let common = |a: &str, b: &str| a.bytes().zip(b.bytes()).take_while(|(p, q)| p == q).count();
    let formula = universe
        .iter()
        .filter(|y| **y != x)
        .map(|y| common(x, y) + 1)
        .max()
        .unwrap_or(0)
        .max(min_len);
    if scan != formula {
        machinery_failure(&format!("reference shortest length inconsistent for {x}: {scan} vs {formula}"));
    }
    scan
}

impl Model {
    fn commit_universe(&self) -> BTreeSet<&str> {
        self.commits.iter().map(|c| c.id.as_str()).collect()
    }
    fn change_universe(&self) -> BTreeSet<&str> {
        self.commits.iter().map(|c| c.change.as_str()).collect()
    }
    fn commits_of(&self, change: &str) -> BTreeSet<String> {
        self.commits.iter().filter(|c| c.change == change).map(|c| c.id.clone()).collect()
    }
    fn visible_of(&self, change: &str) -> BTreeSet<String> {
        self.commits.iter().filter(|c| c.change == change && c.visible).map(|c| c.id.clone()).collect()
    }
    fn by_id(&self, id: &str) -> Option<&MC> {
        self.commits.iter().find(|c| c.id == id)
    }
    fn heads(&self) -> BTreeSet<String> {
        let mut has_visible_child = vec![false; self.commits.len()];
        for c in &self.commits {
            if let (true, Some(p)) = (c.visible, c.parent) {
                has_visible_child[p] = true;
            }
        }
        self.commits
            .iter()
            .enumerate()
            .filter(|(i, c)| c.visible && !has_visible_child[*i])
            .map(|(_, c)| c.id.clone())
            .collect()
    }
    /// The disambiguation set as commit indices (None = no set configured).
    fn disamb_set(&self, d: &Disamb) -> Option<Vec<usize>> {
        match d {
            Disamb::None => None,
            Disamb::All => Some((0..self.commits.len()).filter(|&i| self.commits[i].visible).collect()),
            Disamb::Commits(ids) => Some(
                ids.iter()
                    .map(|id| {
                        self.commits
                            .iter()
                            .position(|c| c.id == *id)
                            .unwrap_or_else(|| machinery_failure("disambiguation id not in the model"))
                    })
                    .collect(),
            ),
        }
    }
    fn ref_commit(&self, prefix: &str, dset: &Option<Vec<usize>>) -> Res {
        if let Some(set) = dset {
            if prefix.is_empty() {
                return Res::Ambig;
            }
            match ref_resolve(prefix, set.iter().map(|&i| self.commits[i].id.as_str())) {
                Res::No => {}
                other => return other,
            }
        }
        ref_resolve(prefix, self.commits.iter().map(|c| c.id.as_str()))
    }
    fn ref_change(&self, prefix: &str, dset: &Option<Vec<usize>>) -> Res {
        if let Some(set) = dset {
            if prefix.is_empty() {
                return Res::Ambig;
            }
            match ref_resolve(prefix, set.iter().map(|&i| self.commits[i].change.as_str())) {
                Res::No => {}
                other => return other,
            }
        }
        ref_resolve(prefix, self.commits.iter().map(|c| c.change.as_str()))
    }
    fn ref_commit_len(&self, x: &str, dset: &Option<Vec<usize>>) -> usize {
        if let Some(set) = dset {
            let u: BTreeSet<&str> = set.iter().map(|&i| self.commits[i].id.as_str()).collect();
            if u.contains(x) {
                return ref_shortest(x, &u, 1);
            }
        }
        ref_shortest(x, &self.commit_universe(), 0)
    }
    fn ref_change_len(&self, x: &str, dset: &Option<Vec<usize>>) -> usize {
        if let Some(set) = dset {
            let u: BTreeSet<&str> = set.iter().map(|&i| self.commits[i].change.as_str()).collect();
            if u.contains(x) {
                return ref_shortest(x, &u, 1);
            }
        }
        ref_shortest(x, &self.change_universe(), 0)
    }
}

// ---------------------------------------------------------------------------------------
// Observations of the real code, normalised.

#[derive(Clone, PartialEq, Eq, Debug)]
struct Targets {
    visible: BTreeSet<String>,
    hidden: BTreeSet<String>,
    duplicates: bool,
}

#[derive(Clone, PartialEq, Eq, Debug)]
enum TRes {
    No,
    Single(Targets),
    Ambig,
}

impl TRes {
    fn kind(&self) -> &'static str {
        match self {
            TRes::No => "nomatch",
            TRes::Single(_) => "single",
            TRes::Ambig => "ambiguous",
        }
    }
}

fn norm_commit(r: PrefixResolution<CommitId>) -> Res {
    match r {
        PrefixResolution::NoMatch => Res::No,
        PrefixResolution::SingleMatch(id) => Res::Single(id.hex()),
        PrefixResolution::AmbiguousMatch => Res::Ambig,
    }
}

fn norm_targets(t: &ResolvedChangeTargets) -> Targets {
    let mut out = Targets { visible: BTreeSet::new(), hidden: BTreeSet::new(), duplicates: false };
    for (id, state) in &t.targets {
        let fresh = match state {
            ResolvedChangeState::Visible => out.visible.insert(id.hex()),
            ResolvedChangeState::Hidden => out.hidden.insert(id.hex()),
        };
        if !fresh {
            out.duplicates = true;
        }
    }
    if out.visible.intersection(&out.hidden).next().is_some() {
        out.duplicates = true;
    }
    out
}

fn norm_change(r: PrefixResolution<ResolvedChangeTargets>) -> TRes {
    match r {
        PrefixResolution::NoMatch => TRes::No,
        PrefixResolution::SingleMatch(t) => TRes::Single(norm_targets(&t)),
        PrefixResolution::AmbiguousMatch => TRes::Ambig,
    }
}

fn hp(prefix: &str) -> HexPrefix {
    HexPrefix::try_from_hex(prefix).unwrap_or_else(|| machinery_failure("bad hex prefix in the harness"))
}

#[derive(Default)]
struct Stats {
    evaluations: Counter,
    queries: Counter,
    observations: Counter,
    nontrivial_observations: Counter,
    layout_cases: Counter,
    obs_segments: [Counter; 6],
    obs_mutable_top: Counter,
    obs_readonly: Counter,
    cross_segment_neighbor: Counter,
    cross_segment_ambiguous: Counter,
    change_spans_segments: Counter,
    change_divergent: Counter,
    change_visible_and_hidden: Counter,
    change_hidden_only: Counter,
    disamb_shortens: Counter,
    disamb_single_where_index_ambiguous: Counter,
    disamb_fallback_hits: Counter,
    disamb_long_prefix_queries: Counter,
    disamb_same_short_key_neighbors: Counter,
    ref_variants: Counter,
    ref_variants_skipped: Counter,
    ref_lengthens: Counter,
    symbol_divergent: Counter,
    root_only_len0: Counter,
    absent_queries: Counter,
}

struct Fail {
    sig: String,
    msg: String,
    disamb: Option<Disamb>,
}

/// The two kinds of ids share one oracle: a prefix resolves to a *subject* (a commit id, or a
/// change id = a set of commits some of which are visible). For commit ids the subject's
/// members and visible members are the commit itself (hidden commits resolve like any other).
#[derive(Clone, Copy, PartialEq, Eq)]
enum Kind {
    Commit,
    Change,
}

impl Kind {
    fn name(self) -> &'static str {
        match self {
            Kind::Commit => "commit",
            Kind::Change => "change",
        }
    }
}

fn members(m: &Model, kind: Kind, id: &str) -> BTreeSet<String> {
    match kind {
        Kind::Commit => [id.to_string()].into(),
        Kind::Change => m.commits_of(id),
    }
}

fn visible_members(m: &Model, kind: Kind, id: &str) -> BTreeSet<String> {
    match kind {
        Kind::Commit => [id.to_string()].into(),
        Kind::Change => m.visible_of(id),
    }
}

fn commit_as_targets(r: Res) -> TRes {
    match r {
        Res::No => TRes::No,
        Res::Ambig => TRes::Ambig,
        Res::Single(id) => {
            TRes::Single(Targets { visible: [id].into(), hidden: BTreeSet::new(), duplicates: false })
        }
    }
}

/// What the oracle says about a `Single` result claimed for subject `c`.
fn targets_defect(m: &Model, kind: Kind, c: &str, t: &Targets) -> Option<(&'static str, String)> {
    let all = members(m, kind, c);
    let vis = visible_members(m, kind, c);
    let k = kind.name();
    if t.duplicates {
        return Some(("targets-duplicated", format!("targets of {k} {c} contain a commit twice: {t:?}")));
    }
    if let Some(x) = t.visible.iter().chain(&t.hidden).find(|x| !all.contains(*x)) {
        return Some(("targets-foreign", format!("commit {x} reported for {k} {c} is not that {k}")));
    }
    if let Some(x) = t.visible.iter().find(|x| !vis.contains(*x)) {
        return Some(("hidden-reported-visible", format!("hidden commit {x} of {k} {c} reported as visible")));
    }
    if let Some(x) = vis.iter().find(|x| !t.visible.contains(*x)) {
        return Some(("visible-missing", format!("visible commit {x} of {k} {c} not reported as visible: {t:?}")));
    }
    None
}

/// Is `r` an acceptable answer where the reference says `e`?
fn result_ok(m: &Model, kind: Kind, e: &Res, r: &TRes) -> bool {
    match (e, r) {
        (Res::No, TRes::No) | (Res::Ambig, TRes::Ambig) => true,
        (Res::Single(c), TRes::Single(t)) => targets_defect(m, kind, c, t).is_none(),
        // a change without any visible commit may also be reported as "no match"
        (Res::Single(c), TRes::No) => visible_members(m, kind, c).is_empty(),
        _ => false,
    }
}

struct Subject {
    id: String,
    present: bool,
    /// filler ids are only queried with their short prefixes
    filler: bool,
}

/// One API surface for one kind of id.
struct Surface<'a> {
    kind: Kind,
    resolve_api: &'static str,
    shortest_api: &'static str,
    /// real resolution of a hex prefix (Err = error or panic message, with a clause name)
    resolve: &'a dyn Fn(&str) -> Result<TRes, (&'static str, String)>,
    /// real shortest length for an id; `None` = not asked for this id
    shortest: &'a dyn Fn(&str) -> Option<Result<usize, (&'static str, String)>>,
    /// reference resolution and reference length
    expect: &'a dyn Fn(&str) -> Res,
    want_len: &'a dyn Fn(&str) -> usize,
    /// whether the "absent id: the length matches nothing" clause applies
    absent_len_clause: bool,
    context: String,
    /// vacuity hooks: once per distinct prefix / once per present subject
    on_prefix: &'a dyn Fn(&str, &Res),
    on_subject: &'a dyn Fn(&str, usize),
}

/// Clauses (1)-(4) for every subject on one surface.
fn probe(m: &Model, s: &Surface, subjects: &[Subject], st: &Stats, fail: &dyn Fn(&str, String)) {
    let kind = s.kind;
    let k = kind.name();
    let mut cache: HashMap<String, (TRes, bool)> = HashMap::new();
    let mut resolve_at = |p: &str| -> (TRes, bool) {
        if let Some(hit) = cache.get(p) {
            return hit.clone();
        }
        st.queries.inc();
        let e = (s.expect)(p);
        (s.on_prefix)(p, &e);
        let r = match (s.resolve)(p) {
            Ok(r) => r,
            Err((clause, msg)) => {
                fail(&format!("{k}/{clause}"), format!("{}({p:?}): {msg}{}", s.resolve_api, s.context));
                cache.insert(p.to_string(), (TRes::No, false));
                return (TRes::No, false);
            }
        };
        let ok = result_ok(m, kind, &e, &r);
        if !ok {
            match (&e, &r) {
                (Res::Single(c), TRes::Single(t)) => {
                    let (clause, msg) = targets_defect(m, kind, c, t).unwrap();
                    fail(&format!("{k}/targets/{clause}"), format!("{}({p:?}): {msg}{}", s.resolve_api, s.context));
                }
                _ => fail(
                    &format!("{k}/resolve/expected-{}-got-{}", e.kind(), r.kind()),
                    format!("{}({p:?}) = {r:?}, brute force over the model says {e:?}{}", s.resolve_api, s.context),
                ),
            }
        }
        cache.insert(p.to_string(), (r.clone(), ok));
        (r, ok)
    };
    for sub in subjects {
        let x = sub.id.as_str();
        // (3)/(4): every prefix of the id (fillers: the short ones and the full id)
        for j in 0..=x.len() {
            if !sub.filler || j <= 2 || j == x.len() {
                resolve_at(&x[..j]);
            }
        }
        let Some(len) = (s.shortest)(x) else { continue };
        st.queries.inc();
        let len = match len {
            Ok(l) => l,
            Err((clause, msg)) => {
                fail(&format!("{k}/{clause}"), format!("{}({x}): {msg}{}", s.shortest_api, s.context));
                continue;
            }
        };
        let want = (s.want_len)(x);
        if !sub.present {
            st.absent_queries.inc();
            if s.absent_len_clause {
                let at = (len <= x.len()).then(|| resolve_at(&x[..len]).0);
                if at != Some(TRes::No) {
                    fail(
                        &format!("{k}/absent-id-length-matches-something"),
                        format!(
                            "{} of the absent id {x} = {len}, documented to match nothing, but that prefix resolves to {at:?}{}",
                            s.shortest_api, s.context
                        ),
                    );
                }
            }
            continue;
        }
        (s.on_subject)(x, want);
        let mine = members(m, kind, x);
        let mut all_ok = true;
        // (1) the shown prefix resolves to exactly this subject
        let at = (len <= x.len()).then(|| {
            let (r, ok) = resolve_at(&x[..len]);
            all_ok &= ok;
            r
        });
        let c1 = match &at {
            Some(TRes::Single(t)) => targets_defect(m, kind, x, t).is_none(),
            Some(TRes::No) => visible_members(m, kind, x).is_empty(),
            _ => false,
        };
        // (2) every shorter prefix is ambiguous or resolves to something else
        let mut c2 = true;
        for j in 0..len.min(x.len() + 1) {
            let (r, ok) = resolve_at(&x[..j]);
            all_ok &= ok;
            c2 &= match &r {
                TRes::Ambig => true,
                TRes::Single(t) => {
                    (!t.visible.is_empty() || !t.hidden.is_empty())
                        && t.visible.iter().chain(&t.hidden).all(|y| !mine.contains(y))
                }
                TRes::No => false,
            };
        }
        if !c1 {
            fail(
                &format!("{k}/shown-prefix-does-not-resolve"),
                format!("{}({x}) = {len}, but that prefix resolves to {at:?} (reference length {want}){}", s.shortest_api, s.context),
            );
        }
        if !c2 {
            fail(
                &format!("{k}/shorter-prefix-not-ambiguous"),
                format!(
                    "{}({x}) = {len}, but a shorter prefix is neither ambiguous nor something else (reference length {want}){}",
                    s.shortest_api, s.context
                ),
            );
        }
        // second formulation of the same fact: if every resolution agreed with brute force,
        // clauses (1)+(2) hold exactly when the length is the reference length
        if all_ok && ((c1 && c2) != (len == want)) {
            machinery_failure(&format!(
                "oracle inconsistency for {k} {x}: clauses {c1}/{c2}, length {len}, reference {want}{}",
                s.context
            ));
        }
    }
}

fn err2<T, E: std::fmt::Display>(r: Result<Result<T, E>, String>) -> Result<T, (&'static str, String)> {
    match r {
        Ok(Ok(v)) => Ok(v),
        Ok(Err(e)) => Err(("error", format!("error: {e}"))),
        Err(p) => Err(("panic", format!("panicked: {p}"))),
    }
}

fn subjects_of(m: &Model, kind: Kind, absent: &[String]) -> Vec<Subject> {
    let mut out: Vec<Subject> = vec![];
    match kind {
        Kind::Commit => {
            for c in &m.commits {
                out.push(Subject { id: c.id.clone(), present: true, filler: c.parent.is_some() && !c.chosen });
            }
        }
        Kind::Change => {
            for c in &m.commits {
                if !out.iter().any(|s| s.id == c.change) {
                    out.push(Subject { id: c.change.clone(), present: true, filler: c.parent.is_some() && !c.chosen });
                }
            }
        }
    }
    for a in absent {
        out.push(Subject { id: a.clone(), present: false, filler: false });
    }
    out
}

/// Layer 1: the `Index` / `Repo` trait methods (no disambiguation set involved). Returns
/// whether the observation point is non-trivial (see `Coverage::rule`).
fn check_index_layer(repo: &dyn Repo, m: &Model, absent_commits: &[String], absent_changes: &[String], st: &Stats, out: &mut Vec<Fail>) -> bool {
    st.evaluations.inc();
    let top = m.top;
    let fails: std::cell::RefCell<Vec<Fail>> = Default::default();
    let fail = |clause: &str, msg: String| {
        fails.borrow_mut().push(Fail { sig: format!("C20/index/{clause}/{top}"), msg, disamb: None });
    };
    let nontrivial = std::cell::Cell::new(false);
    let index = repo.index();
    let cu = m.commit_universe();
    let hu = m.change_universe();
    // ---- commit ids
    probe(
        m,
        &Surface {
            kind: Kind::Commit,
            resolve_api: "Index::resolve_commit_id_prefix",
            shortest_api: "Index::shortest_unique_commit_id_prefix_len",
            resolve: &|p| err2(catch(|| index.resolve_commit_id_prefix(&hp(p)).block_on())).map(|r| commit_as_targets(norm_commit(r))),
            shortest: &|x| Some(err2(catch(|| index.shortest_unique_commit_id_prefix_len(&CommitId::new(unhex(x).unwrap())).block_on()))),
            expect: &|p| ref_resolve(p, cu.iter().copied()),
            want_len: &|x| ref_shortest(x, &cu, 0),
            absent_len_clause: true,
            context: String::new(),
            on_prefix: &|p, e| {
                if *e == Res::Ambig {
                    let mut segs = m.commits.iter().filter(|c| c.id.starts_with(p)).map(|c| c.seg);
                    let first = segs.next();
                    if segs.any(|s| Some(s) != first) {
                        st.cross_segment_ambiguous.inc();
                    }
                }
            },
            on_subject: &|x, want| {
                if want == 0 {
                    st.root_only_len0.inc();
                    return;
                }
                // the ids that force the length all live in other segments
                let me = m.by_id(x).unwrap();
                let mut forcing = m.commits.iter().filter(|c| c.id != x && c.id.starts_with(&x[..want - 1]));
                if forcing.clone().next().is_some() && forcing.all(|c| c.seg != me.seg) {
                    st.cross_segment_neighbor.inc();
                    nontrivial.set(true);
                }
            },
        },
        &subjects_of(m, Kind::Commit, absent_commits),
        st,
        &fail,
    );
    // ---- change ids
    probe(
        m,
        &Surface {
            kind: Kind::Change,
            resolve_api: "Repo::resolve_change_id_prefix",
            shortest_api: "Repo::shortest_unique_change_id_prefix_len",
            resolve: &|p| err2(catch(|| repo.resolve_change_id_prefix(&hp(p)).block_on())).map(norm_change),
            shortest: &|x| Some(err2(catch(|| repo.shortest_unique_change_id_prefix_len(&ChangeId::new(unhex(x).unwrap())).block_on()))),
            expect: &|p| ref_resolve(p, hu.iter().copied()),
            want_len: &|x| ref_shortest(x, &hu, 0),
            absent_len_clause: true,
            context: String::new(),
            on_prefix: &|_p, e| {
                if let Res::Single(c) = e {
                    let mut segs = m.commits.iter().filter(|k| k.change == *c).map(|k| k.seg);
                    let first = segs.next();
                    if segs.any(|s| Some(s) != first) {
                        st.change_spans_segments.inc();
                        nontrivial.set(true);
                    }
                }
            },
            on_subject: &|x, _want| {
                let vis = m.visible_of(x).len();
                let all = m.commits_of(x).len();
                if vis >= 2 {
                    st.change_divergent.inc();
                }
                if vis >= 1 && all > vis {
                    st.change_visible_and_hidden.inc();
                    nontrivial.set(true);
                }
                if vis == 0 {
                    st.change_hidden_only.inc();
                }
            },
        },
        &subjects_of(m, Kind::Change, absent_changes),
        st,
        &fail,
    );
    // ---- complete change ids through Repo::resolve_change_id
    for (x, present) in hu.iter().map(|c| (c.to_string(), true)).chain(absent_changes.iter().map(|c| (c.clone(), false))) {
        st.queries.inc();
        match err2(catch(|| repo.resolve_change_id(&ChangeId::new(unhex(&x).unwrap())).block_on())) {
            Ok(r) => {
                let r = match r {
                    None => TRes::No,
                    Some(t) => TRes::Single(norm_targets(&t)),
                };
                let e = if present { Res::Single(x.clone()) } else { Res::No };
                if !result_ok(m, Kind::Change, &e, &r) {
                    fail("change/resolve-full-id", format!("Repo::resolve_change_id({x}) = {r:?}, the model says {e:?}"));
                }
            }
            Err((clause, msg)) => fail(&format!("change/{clause}"), format!("Repo::resolve_change_id({x}): {msg}")),
        }
    }
    out.extend(fails.into_inner());
    nontrivial.get()
}

fn disamb_expression(d: &Disamb) -> Option<Arc<jj_lib::revset::UserRevsetExpression>> {
    match d {
        Disamb::None => None,
        Disamb::All => Some(RevsetExpression::all()),
        Disamb::Commits(ids) => Some(RevsetExpression::commits(
            ids.iter().map(|x| CommitId::new(unhex(x).unwrap())).collect(),
        )),
    }
}

fn make_context(d: &Disamb) -> IdPrefixContext {
    let ctx = IdPrefixContext::default();
    match disamb_expression(d) {
        None => ctx,
        Some(e) => ctx.disambiguate_within(e),
    }
}

/// Layer 2: `IdPrefixIndex` with disambiguation set `d` (only called without refs).
fn check_idprefix_layer(repo: &dyn Repo, m: &Model, d: &Disamb, absent_commits: &[String], absent_changes: &[String], st: &Stats, out: &mut Vec<Fail>) {
    st.evaluations.inc();
    let top = m.top;
    let dname = match d {
        Disamb::None => "no-set",
        _ => "with-set",
    };
    let fails: std::cell::RefCell<Vec<Fail>> = Default::default();
    let fail = |clause: &str, msg: String| {
        fails.borrow_mut().push(Fail { sig: format!("C20/idprefix/{dname}/{clause}/{top}"), msg, disamb: Some(d.clone()) });
    };
    let ctx = make_context(d);
    let idx = match err2(catch(|| ctx.populate(repo))) {
        Ok(i) => i,
        Err((clause, msg)) => {
            fail(&format!("populate-{clause}"), format!("IdPrefixContext::populate: {msg}"));
            out.extend(fails.into_inner());
            return;
        }
    };
    let dset = m.disamb_set(d);
    let cu = m.commit_universe();
    let hu = m.change_universe();
    let context = format!(" (disambiguation set {d:?})");
    probe(
        m,
        &Surface {
            kind: Kind::Commit,
            resolve_api: "IdPrefixIndex::resolve_commit_prefix",
            shortest_api: "IdPrefixIndex::shortest_commit_prefix_len",
            resolve: &|p| err2(catch(|| idx.resolve_commit_prefix(repo, &hp(p)))).map(|r| commit_as_targets(norm_commit(r))),
            shortest: &|x| {
                if !cu.contains(x) {
                    return None;
                }
                let cid = CommitId::new(unhex(x).unwrap());
                let exact = err2(catch(|| idx.shortest_commit_prefix_len_exact(repo, &cid)));
                let shown = err2(catch(|| idx.shortest_commit_prefix_len(repo, &cid)));
                match (&exact, &shown) {
                    (Ok(a), Ok(b)) if a != b => Some(Err((
                        "shown-differs-from-exact-without-refs",
                        format!("shown length {b} differs from the exact length {a} although no bookmark or tag exists"),
                    ))),
                    _ => Some(shown),
                }
            },
            expect: &|p| m.ref_commit(p, &dset),
            want_len: &|x| m.ref_commit_len(x, &dset),
            absent_len_clause: false,
            context: context.clone(),
            on_prefix: &|p, _e| {
                if let Some(set) = &dset {
                    if p.len() > 8 {
                        st.disamb_long_prefix_queries.inc();
                    }
                    let in_set = ref_resolve(p, set.iter().map(|&i| m.commits[i].id.as_str()));
                    let whole = ref_resolve(p, cu.iter().copied());
                    if !p.is_empty() && in_set == Res::No && whole != Res::No {
                        st.disamb_fallback_hits.inc();
                    }
                    if matches!(in_set, Res::Single(_)) && whole == Res::Ambig {
                        st.disamb_single_where_index_ambiguous.inc();
                    }
                }
            },
            on_subject: &|x, want| {
                if let Some(set) = &dset {
                    if want < ref_shortest(x, &cu, 0) {
                        st.disamb_shortens.inc();
                    }
                    if set.iter().any(|&i| m.commits[i].id == x)
                        && set.iter().any(|&i| m.commits[i].id != x && m.commits[i].id[..8] == x[..8])
                    {
                        st.disamb_same_short_key_neighbors.inc();
                    }
                }
            },
        },
        &subjects_of(m, Kind::Commit, absent_commits),
        st,
        &fail,
    );
    probe(
        m,
        &Surface {
            kind: Kind::Change,
            resolve_api: "IdPrefixIndex::resolve_change_prefix",
            shortest_api: "IdPrefixIndex::shortest_change_prefix_len",
            resolve: &|p| err2(catch(|| idx.resolve_change_prefix(repo, &hp(p)).block_on())).map(norm_change),
            shortest: &|x| {
                if !hu.contains(x) {
                    return None;
                }
                Some(err2(catch(|| idx.shortest_change_prefix_len(repo, &ChangeId::new(unhex(x).unwrap())).block_on())))
            },
            expect: &|p| m.ref_change(p, &dset),
            want_len: &|x| m.ref_change_len(x, &dset),
            absent_len_clause: false,
            context: context.clone(),
            on_prefix: &|_p, _e| {},
            on_subject: &|x, want| {
                if dset.is_some() && want < ref_shortest(x, &hu, 0) {
                    st.disamb_shortens.inc();
                }
            },
        },
        &subjects_of(m, Kind::Change, absent_changes),
        st,
        &fail,
    );
    out.extend(fails.into_inner());
}

/// Outcome of resolving a symbol, as a set of commits or "ambiguous".
#[derive(Clone, PartialEq, Eq, Debug)]
enum Sym {
    Commits(BTreeSet<String>), // Ok(id) = 1 element; divergent change = several; unknown = empty
    AmbiguousCommit,
    AmbiguousChange,
    Other(String),
}

fn real_symbol(resolver: &SymbolResolver, repo: &dyn Repo, s: &str) -> Result<Sym, String> {
    match catch(|| resolver.resolve_symbol(repo, s)) {
        Err(p) => Err(p),
        Ok(Ok(id)) => Ok(Sym::Commits([id.hex()].into())),
        Ok(Err(RevsetResolutionError::NoSuchRevision { .. })) => Ok(Sym::Commits(BTreeSet::new())),
        Ok(Err(RevsetResolutionError::AmbiguousCommitIdPrefix(_))) => Ok(Sym::AmbiguousCommit),
        Ok(Err(RevsetResolutionError::AmbiguousChangeIdPrefix(_))) => Ok(Sym::AmbiguousChange),
        Ok(Err(RevsetResolutionError::DivergentChangeId { visible_targets, .. })) => {
            Ok(Sym::Commits(visible_targets.into_iter().map(|(_, id)| id.hex()).collect()))
        }
        Ok(Err(e)) => Ok(Sym::Other(format!("{e}"))),
    }
}

/// What the documented resolution order says: tags, bookmarks, commit-id prefix, change-id
/// prefix (shown in reverse hex).
fn ref_symbol(m: &Model, s: &str, dset: &Option<Vec<usize>>) -> Sym {
    if let Some(r) = &m.refspec {
        if r.name == s {
            return Sym::Commits([r.target.clone()].into());
        }
    }
    if is_hex(s) {
        return match m.ref_commit(s, dset) {
            Res::Single(id) => Sym::Commits([id].into()),
            Res::Ambig => Sym::AmbiguousCommit,
            Res::No => Sym::Commits(BTreeSet::new()),
        };
    }
    if is_reverse_hex(s) {
        let hex: String = s.chars().map(|c| char::from_digit(('z' as u32) - (c as u32), 16).unwrap()).collect();
        return match m.ref_change(&hex, dset) {
            Res::Single(c) => Sym::Commits(m.visible_of(&c)),
            Res::Ambig => Sym::AmbiguousChange,
            Res::No => Sym::Commits(BTreeSet::new()),
        };
    }
    Sym::Commits(BTreeSet::new())
}

/// Layer 3: the shown prefixes through `SymbolResolver` (with refs taking precedence).
fn check_symbol_layer(repo: &dyn Repo, m: &Model, d: &Disamb, st: &Stats, out: &mut Vec<Fail>) {
    st.evaluations.inc();
    let top = m.top;
    let rname = match &m.refspec {
        None => "no-ref".to_string(),
        Some(r) => format!("{}-named-like-prefix", r.kind),
    };
    let mut fail = |clause: &str, msg: String| {
        out.push(Fail { sig: format!("C20/symbol/{rname}/{clause}/{top}"), msg, disamb: Some(d.clone()) });
    };
    let ctx = make_context(d);
    let idx = match catch(|| ctx.populate(repo)) {
        Ok(Ok(i)) => i,
        Ok(Err(e)) => return fail("populate-error", format!("IdPrefixContext::populate: {e}")),
        Err(e) => return fail("populate-panic", format!("IdPrefixContext::populate panicked: {e}")),
    };
    let no_ext: &[Box<dyn SymbolResolverExtension>] = &[];
    let resolver = SymbolResolver::new(repo, no_ext).with_id_prefix_context(&ctx);
    let dset = m.disamb_set(d);
    let mut subjects: Vec<(bool, String, String, BTreeSet<String>)> = vec![]; // (is_commit, id, shown text, target set)
    for c in &m.commits {
        subjects.push((true, c.id.clone(), c.id.clone(), [c.id.clone()].into()));
    }
    for c in m.change_universe() {
        subjects.push((false, c.to_string(), reverse_hex(c), m.visible_of(c)));
    }
    for (is_commit, id, text, target) in &subjects {
        let kind = if *is_commit { "commit" } else { "change" };
        st.queries.inc();
        let len = if *is_commit {
            catch(|| idx.shortest_commit_prefix_len(repo, &CommitId::new(unhex(id).unwrap())))
        } else {
            catch(|| idx.shortest_change_prefix_len(repo, &ChangeId::new(unhex(id).unwrap())).block_on())
        };
        let len = match len {
            Ok(Ok(l)) => l,
            Ok(Err(e)) => {
                fail(&format!("{kind}/error"), format!("shortest prefix length of {id}: {e}"));
                continue;
            }
            Err(e) => {
                fail(&format!("{kind}/panic"), format!("shortest prefix length of {id} panicked: {e}"));
                continue;
            }
        };
        if len == 0 || len > text.len() {
            if len > text.len() {
                fail(&format!("{kind}/shown-length-too-long"), format!("shortest prefix length of {id} is {len} > {}", text.len()));
            }
            continue; // a single-commit repository: nothing to type
        }
        if target.is_empty() {
            continue; // a change without visible commits is not shown
        }
        let exact = if *is_commit { m.ref_commit_len(id, &dset) } else { m.ref_change_len(id, &dset) };
        if m.refspec.is_some() && len > exact.max(1) {
            st.ref_lengthens.inc();
        }
        for j in 1..=len {
            let s = &text[..j];
            st.queries.inc();
            let got = match real_symbol(&resolver, repo, s) {
                Ok(g) => g,
                Err(p) => {
                    fail(&format!("{kind}/panic"), format!("resolve_symbol({s:?}) panicked: {p}"));
                    continue;
                }
            };
            let want = ref_symbol(m, s, &dset);
            if got != want {
                fail(
                    &format!("{kind}/resolve-mismatch"),
                    format!("resolve_symbol({s:?}) = {got:?}, reference says {want:?} (set {d:?}, ref {:?})", m.refspec),
                );
            }
            if j == len {
                if got != Sym::Commits(target.clone()) {
                    fail(
                        &format!("{kind}/shown-prefix-does-not-resolve"),
                        format!("{kind} {id} is shown as {s:?} (length {len}) but that resolves to {got:?}, not {target:?} (set {d:?}, ref {:?})", m.refspec),
                    );
                }
                if target.len() > 1 {
                    st.symbol_divergent.inc();
                }
            } else {
                let ok = match &got {
                    Sym::AmbiguousCommit | Sym::AmbiguousChange => true,
                    // "resolves to something else": anything but exactly this commit / change. (A
                    // prefix that selects a hidden-only change inside the disambiguation set
                    // resolves to nothing; the reference comparison above pins that down.)
                    Sym::Commits(set) => set != target,
                    Sym::Other(_) => false,
                };
                if !ok {
                    fail(
                        &format!("{kind}/shorter-prefix-not-ambiguous"),
                        format!("{kind} {id} is shown with {len} digits but the shorter {s:?} resolves to {got:?} (set {d:?}, ref {:?})", m.refspec),
                    );
                }
            }
        }
    }
}

// ---------------------------------------------------------------------------------------
// Building a layout case with the real API and observing it.

fn levels(repo: &Arc<ReadonlyRepo>) -> Vec<u32> {
    let ro: &DefaultReadonlyIndex = repo
        .readonly_index()
        .downcast_ref()
        .unwrap_or_else(|| machinery_failure("not the default index"));
    ro.stats().commit_levels.iter().map(|l| l.num_commits).collect()
}

struct Env {
    scratch: std::path::PathBuf,
    settings: UserSettings,
}

/// Builds the model of an observation point: commits written so far in creation order,
/// segment sizes (oldest first; includes the mutable segment if any), hidden ids.
fn make_model(written: &[NodeSpec], seg_sizes: &[u32], hidden: &[String], top: &'static str) -> Model {
    let mut commits = vec![MC {
        id: "0".repeat(COMMIT_LEN * 2),
        change: "0".repeat(CHANGE_LEN * 2),
        parent: None,
        visible: true,
        seg: 0,
        chosen: false,
    }];
    for n in written {
        let parent = match &n.parent {
            None => 0,
            Some(p) => commits
                .iter()
                .position(|c| c.id == *p)
                .unwrap_or_else(|| machinery_failure("parent not written before child")),
        };
        commits.push(MC {
            id: n.id.clone(),
            change: n.change.clone(),
            parent: Some(parent),
            visible: !hidden.contains(&n.id),
            seg: 0,
            chosen: !n.filler,
        });
    }
    let total: u32 = seg_sizes.iter().sum();
    if total as usize != commits.len() {
        machinery_failure(&format!("segment sizes {seg_sizes:?} do not add up to {} commits", commits.len()));
    }
    let mut pos = 0usize;
    for (s, size) in seg_sizes.iter().enumerate() {
        for _ in 0..*size {
            commits[pos].seg = s;
            pos += 1;
        }
    }
    // hidden sets must be descendant-closed, otherwise the model's visibility is wrong
    for c in &commits {
        if let Some(p) = c.parent {
            if c.visible && !commits[p].visible {
                machinery_failure("hidden set is not descendant-closed");
            }
        }
    }
    Model { commits, refspec: None, top, num_segments: seg_sizes.iter().filter(|s| **s > 0).count() }
}

fn check_heads(repo: &dyn Repo, m: &Model) {
    let real: BTreeSet<String> = repo.view().heads().iter().map(|h| h.hex()).collect();
    if real != m.heads() {
        machinery_failure(&format!("view heads {real:?} differ from the model's {:?}", m.heads()));
    }
}

/// All disambiguation sets of the deep mode: none, all(), every non-empty subset of
/// {root} + chosen commits.
fn deep_disambs(m: &Model) -> Vec<Disamb> {
    let mut out = vec![Disamb::None, Disamb::All];
    let base: Vec<&MC> = m.commits.iter().filter(|c| c.chosen || c.parent.is_none()).collect();
    for mask in 1u32..(1 << base.len()) {
        out.push(Disamb::Commits(
            (0..base.len()).filter(|i| mask >> i & 1 == 1).map(|i| base[i].id.clone()).collect(),
        ));
    }
    out
}

fn light_disambs(m: &Model) -> Vec<Disamb> {
    let chosen: Vec<String> = m.commits.iter().filter(|c| c.chosen).map(|c| c.id.clone()).collect();
    let mut out = vec![Disamb::None];
    if !chosen.is_empty() {
        out.push(Disamb::Commits(chosen));
    }
    out
}

/// Ref variants of the deep mode: bookmarks and tags named like the shown prefix of a chosen
/// commit / change (and one digit shorter), pointing at a visible commit that the name is not
/// a prefix of.
fn ref_variants(m: &Model, st: &Stats) -> Vec<RefSpec> {
    let mut names: BTreeSet<String> = BTreeSet::new();
    let cu = m.commit_universe();
    let hu = m.change_universe();
    for c in m.commits.iter().filter(|c| c.chosen || c.parent.is_none()) {
        let l = ref_shortest(&c.id, &cu, 0);
        for n in [l, l.saturating_sub(1)] {
            if n >= 1 && n < c.id.len() {
                names.insert(c.id[..n].to_string());
            }
        }
        let l = ref_shortest(&c.change, &hu, 0);
        let text = reverse_hex(&c.change);
        for n in [l, l.saturating_sub(1)] {
            if n >= 1 && n < text.len() {
                names.insert(text[..n].to_string());
            }
        }
    }
    let mut out = vec![];
    for name in names {
        let target = m
            .commits
            .iter()
            .find(|c| c.visible && !c.id.starts_with(&name) && !reverse_hex(&c.change).starts_with(&name));
        match target {
            None => st.ref_variants_skipped.inc(),
            Some(t) => {
                for kind in ["bookmark", "tag"] {
                    out.push(RefSpec { kind: kind.to_string(), name: name.clone(), target: t.id.clone() });
                }
            }
        }
    }
    out
}

struct Runner<'a> {
    env: &'a Env,
    st: &'a Stats,
    case: &'a LayoutCase,
    /// `Some` = replay exactly this observation
    only: Option<&'a Selector>,
    fails: Vec<(Fail, Selector)>,
}

impl Runner<'_> {
    fn wants(&self, flavour: &str, hidden: &[String]) -> bool {
        match self.only {
            None => true,
            Some(s) => {
                let f = if s.flavour == "ref" {
                    if hidden.is_empty() { "readonly" } else { "hidden-readonly" }
                } else {
                    s.flavour.as_str()
                };
                f == flavour && s.hidden == hidden
            }
        }
    }

    fn observe(&mut self, repo: &dyn Repo, m: &Model, flavour: &str, hidden: &[String]) {
        let st = self.st;
        check_heads(repo, m);
        let mut out = vec![];
        let only_disamb: Option<Option<Disamb>> = self.only.map(|s| s.disamb.clone());
        let is_ref_replay = self.only.is_some_and(|s| s.flavour == "ref");
        if !is_ref_replay {
            st.observations.inc();
            st.obs_segments[m.num_segments.min(5)].inc();
            if m.top == "readonly" {
                st.obs_readonly.inc()
            } else {
                st.obs_mutable_top.inc()
            }
            if (only_disamb.is_none() || only_disamb == Some(None))
                && check_index_layer(repo, m, &self.case.absent_commits, &self.case.absent_changes, st, &mut out)
            {
                st.nontrivial_observations.inc();
            }
            let disambs = if self.case.deep { deep_disambs(m) } else { light_disambs(m) };
            let no_absent: Vec<String> = vec![];
            let (ac, ah) = if self.case.deep {
                (&self.case.absent_commits, &self.case.absent_changes)
            } else {
                (&no_absent, &no_absent)
            };
            for d in &disambs {
                if let Some(Some(want)) = &only_disamb {
                    if want != d {
                        continue;
                    }
                } else if only_disamb == Some(None) {
                    continue;
                }
                check_idprefix_layer(repo, m, d, ac, ah, st, &mut out);
                check_symbol_layer(repo, m, d, st, &mut out);
            }
        }
        for f in out {
            let sel = Selector { flavour: flavour.to_string(), hidden: hidden.to_vec(), disamb: f.disamb.clone(), refspec: None };
            self.fails.push((f, sel));
        }
    }

    /// Ref variants on top of a committed repository (a fresh uncommitted transaction).
    fn observe_refs(&mut self, repo: &Arc<ReadonlyRepo>, m: &Model, hidden: &[String]) {
        if !self.case.deep {
            return;
        }
        let variants = match self.only {
            None => ref_variants(m, self.st),
            Some(s) if s.flavour == "ref" => vec![s.refspec.clone().unwrap_or_else(|| machinery_failure("ref replay without ref"))],
            Some(_) => return,
        };
        for r in variants {
            self.st.ref_variants.inc();
            let mut tx = repo.start_transaction();
            let target = RefTarget::normal(CommitId::new(unhex(&r.target).unwrap()));
            if r.kind == "tag" {
                tx.repo_mut().set_local_tag_target(r.name.as_str().as_ref(), target);
            } else {
                tx.repo_mut().set_local_bookmark_target(r.name.as_str().as_ref(), target);
            }
            let mut mm = m.clone();
            mm.refspec = Some(r.clone());
            mm.top = "readonly"; // the transaction adds no commit
            let chosen: Vec<String> = m.commits.iter().filter(|c| c.chosen).map(|c| c.id.clone()).collect();
            let mut disambs = vec![Disamb::None];
            if !chosen.is_empty() {
                disambs.push(Disamb::Commits(chosen));
            }
            let mut out = vec![];
            for d in &disambs {
                if let Some(s) = self.only {
                    if s.disamb.as_ref() != Some(d) {
                        continue;
                    }
                }
                check_symbol_layer(tx.repo(), &mm, d, self.st, &mut out);
            }
            for f in out {
                let sel = Selector { flavour: "ref".to_string(), hidden: hidden.to_vec(), disamb: f.disamb.clone(), refspec: Some(r.clone()) };
                self.fails.push((f, sel));
            }
        }
    }

    fn run(&mut self) {
        let case = self.case;
        self.st.layout_cases.inc();
        let (mut repo, dir) = new_repo(&self.env.scratch, &self.env.settings);
        let mut written: Vec<NodeSpec> = vec![];
        let mut commits: HashMap<String, Commit> = HashMap::new();
        let n_tx = case.txs.len();
        for (t, nodes) in case.txs.iter().enumerate() {
            let mut tx = repo.start_transaction();
            for n in nodes {
                let parent = match &n.parent {
                    None => repo.store().root_commit_id().clone(),
                    Some(p) => CommitId::new(unhex(p).unwrap()),
                };
                let tree = repo.store().empty_merged_tree();
                let commit = tx
                    .repo_mut()
                    .new_commit(vec![parent], tree)
                    .set_change_id(ChangeId::new(unhex(&n.change).unwrap()))
                    .set_description(n.id.clone())
                    .set_author(sig())
                    .set_committer(sig())
                    .write()
                    .block_on()
                    .unwrap_or_else(|e| machinery_failure(&format!("cannot write commit {}: {e:?}", n.id)));
                if commit.id().hex() != n.id {
                    machinery_failure("backend did not use the chosen commit id");
                }
                commits.insert(n.id.clone(), commit);
                written.push(n.clone());
            }
            let last = t + 1 == n_tx;
            if last && self.wants("mutable", &[]) {
                let mut sizes = levels(&repo);
                sizes.push(nodes.len() as u32);
                let m = make_model(&written, &sizes, &[], "mutable-top");
                self.observe(tx.repo(), &m, "mutable", &[]);
            }
            repo = tx
                .commit(format!("tx {t}"))
                .block_on()
                .unwrap_or_else(|e| machinery_failure(&format!("cannot commit transaction: {e:?}")));
        }
        let base_sizes = levels(&repo);
        let base_model = make_model(&written, &base_sizes, &[], "readonly");
        if self.wants("readonly", &[]) {
            self.observe(repo.as_ref(), &base_model, "readonly", &[]);
            self.observe_refs(&repo, &base_model, &[]);
        }
        for hidden in &case.hidden_options {
            if hidden.is_empty() {
                continue;
            }
            if !(self.wants("hidden-mutable", hidden) || self.wants("hidden-readonly", hidden)) {
                continue;
            }
            let mut tx = repo.start_transaction();
            for h in hidden {
                tx.repo_mut().record_abandoned_commit(&commits[h]);
                let n = tx
                    .repo_mut()
                    .rebase_descendants()
                    .block_on()
                    .unwrap_or_else(|e| machinery_failure(&format!("rebase_descendants: {e:?}")));
                if n != 0 {
                    machinery_failure("abandoning a leaf rebased something");
                }
            }
            if self.wants("hidden-mutable", hidden) {
                let mut sizes = base_sizes.clone();
                sizes.push(0);
                let m = make_model(&written, &sizes, hidden, "mutable-top");
                self.observe(tx.repo(), &m, "hidden-mutable", hidden);
            }
            let hrepo = tx
                .commit("abandon")
                .block_on()
                .unwrap_or_else(|e| machinery_failure(&format!("cannot commit transaction: {e:?}")));
            if self.wants("hidden-readonly", hidden) {
                let sizes = levels(&hrepo);
                if sizes != base_sizes {
                    machinery_failure("abandoning changed the index layout");
                }
                let m = make_model(&written, &sizes, hidden, "readonly");
                self.observe(hrepo.as_ref(), &m, "hidden-readonly", hidden);
                self.observe_refs(&hrepo, &m, hidden);
            }
        }
        drop(repo);
        let _ = std::fs::remove_dir_all(&dir);
    }
}

fn case_json(case: &LayoutCase, sel: &Selector) -> Value {
    json!({
        "txs": case.txs,
        "deep": case.deep,
        "absent_commits": case.absent_commits,
        "absent_changes": case.absent_changes,
        "observation": sel,
    })
}

fn run_layout_case(env: &Env, st: &Stats, case: &LayoutCase, only: Option<&Selector>) -> Vec<(Fail, Selector)> {
    let mut r = Runner { env, st, case, only, fails: vec![] };
    r.run();
    r.fails
}

// ---------------------------------------------------------------------------------------
// Enumeration.

#[derive(Clone, Debug)]
struct Part {
    name: &'static str,
    n_pool: usize,
    kmax: usize,
    all_partitions: bool,
    /// maximal number of abandoned commits
    hmax: usize,
    schedules: Vec<[usize; 4]>,
}

#[derive(Clone, Copy, PartialEq, Eq, Debug)]
enum Shape {
    Flat,
    Chain,
}

/// All layout cases for one id subset.
fn cases_for_subset(part: &Part, subset: &[usize], out: &mut Vec<LayoutCase>) {
    let k = subset.len();
    let mut partitions: Vec<Vec<u8>> = vec![];
    if k == 0 {
        partitions.push(vec![]);
    } else if part.all_partitions {
        vcommon::enumerate::rgs(k, |p| partitions.push(p.to_vec()));
    } else {
        partitions.push((0..k as u8).collect());
    }
    let absent_commits: Vec<String> =
        (0..part.n_pool).filter(|i| !subset.contains(i)).map(|i| COMMIT_POOL[i].to_string()).collect();
    let shapes: &[Shape] = if k >= 2 { &[Shape::Flat, Shape::Chain] } else { &[Shape::Flat] };
    for partition in &partitions {
        // change of commit i = paired change of the first member of its block
        let changes: Vec<&str> = (0..k)
            .map(|i| {
                let first = (0..k).find(|j| partition[*j] == partition[i]).unwrap();
                paired_change(subset[first], part.n_pool)
            })
            .collect();
        let absent_changes: Vec<String> =
            CHANGE_POOL[..part.n_pool].iter().filter(|c| !changes.contains(*c)).map(|c| c.to_string()).collect();
        for &shape in shapes {
            for schedule in &part.schedules {
                let dims = vec![4usize; k];
                vcommon::enumerate::odometer(&dims, |a| {
                    // slot t exists iff it has fillers or commits; existing slots form a prefix
                    let exists: Vec<bool> = (0..4).map(|t| schedule[t] > 0 || a.contains(&t)).collect();
                    // (k = 0 without fillers: the freshly initialised repository, root commit only)
                    if (1..4).any(|t| exists[t] && !exists[t - 1]) || (!exists[0] && k > 0) {
                        return true;
                    }
                    let mut txs: Vec<Vec<NodeSpec>> = vec![];
                    let mut filler_no = 0;
                    let mut last_chosen: Option<String> = None;
                    let mut order: Vec<String> = vec![];
                    for t in 0..4 {
                        if !exists[t] {
                            continue;
                        }
                        let mut nodes = vec![];
                        for _ in 0..schedule[t] {
                            let (id, change) = filler(filler_no);
                            filler_no += 1;
                            nodes.push(NodeSpec { id, change, parent: None, filler: true });
                        }
                        for i in 0..k {
                            if a[i] != t {
                                continue;
                            }
                            let id = COMMIT_POOL[subset[i]].to_string();
                            let parent = if shape == Shape::Chain { last_chosen.clone() } else { None };
                            last_chosen = Some(id.clone());
                            order.push(id.clone());
                            nodes.push(NodeSpec { id, change: changes[i].to_string(), parent, filler: false });
                        }
                        txs.push(nodes);
                    }
                    // hidden options: descendant-closed sets, abandoned leaves first
                    let mut hidden_options: Vec<Vec<String>> = vec![];
                    match shape {
                        Shape::Flat => {
                            for mask in 1u32..(1 << k) {
                                if mask.count_ones() as usize <= part.hmax {
                                    hidden_options.push((0..k).filter(|i| mask >> i & 1 == 1).map(|i| order[i].clone()).collect());
                                }
                            }
                        }
                        Shape::Chain => {
                            for h in 1..=k.min(part.hmax) {
                                hidden_options.push(order.iter().rev().take(h).cloned().collect());
                            }
                        }
                    }
                    let deep = schedule.iter().all(|f| *f == 0) && a.iter().all(|s| *s == 0);
                    out.push(LayoutCase {
                        txs,
                        hidden_options,
                        deep,
                        absent_commits: absent_commits.clone(),
                        absent_changes: absent_changes.clone(),
                    });
                    true
                });
            }
        }
    }
}

/// What happens when a bookmark is named like a *full* commit id (outside the enumerated
/// bound: `disambiguate_prefix_with_refs` documents that it does not handle this).
fn observe_full_id_shadowing(env: &Env) -> Value {
    let (repo, dir) = new_repo(&env.scratch, &env.settings);
    let mut tx = repo.start_transaction();
    let mut ids = vec![];
    for (id, change) in [("0000000001", "000000000001"), ("ffffffffff", "ffffffffffff")] {
        let tree = repo.store().empty_merged_tree();
        let c = tx
            .repo_mut()
            .new_commit(vec![repo.store().root_commit_id().clone()], tree)
            .set_change_id(ChangeId::new(unhex(change).unwrap()))
            .set_description(id)
            .set_author(sig())
            .set_committer(sig())
            .write()
            .block_on()
            .unwrap_or_else(|e| machinery_failure(&format!("cannot write commit: {e:?}")));
        ids.push(c.id().clone());
    }
    tx.repo_mut().set_local_bookmark_target("0000000001".as_ref(), RefTarget::normal(ids[1].clone()));
    let ctx = IdPrefixContext::default();
    let result = catch(|| {
        let idx = ctx.populate(tx.repo()).map_err(|e| e.to_string())?;
        let len = idx.shortest_commit_prefix_len(tx.repo(), &ids[0]).map_err(|e| e.to_string())?;
        let no_ext: &[Box<dyn SymbolResolverExtension>] = &[];
        let resolver = SymbolResolver::new(tx.repo(), no_ext).with_id_prefix_context(&ctx);
        let got = resolver.resolve_symbol(tx.repo(), &"0000000001"[..len.min(10)]).map(|i| i.hex()).map_err(|e| e.to_string());
        Ok::<_, String>((len, got))
    });
    drop(tx);
    drop(repo);
    let _ = std::fs::remove_dir_all(&dir);
    match result {
        Ok(Ok((len, got))) => json!({
            "scenario": "commit 0000000001 exists, bookmark named 0000000001 points at ffffffffff",
            "shown_length": len,
            "shown_symbol_resolves_to": format!("{got:?}"),
            "note": "not part of the verdict: a ref named like a complete id is outside the bound",
        }),
        other => json!({"error": format!("{other:?}")}),
    }
}

fn main() {
    let ctx = Ctx::from_args("C20", Level::Exploration);
    vcommon::silence_panics();
    let env = Env { scratch: ctx.scratch().to_path_buf(), settings: testutils::user_settings() };
    let st = Stats::default();

    if let Some((_sig, case)) = ctx.replay_case() {
        let txs: Vec<Vec<NodeSpec>> = serde_json::from_value(case["txs"].clone())
            .unwrap_or_else(|e| machinery_failure(&format!("bad replay case: {e}")));
        let sel: Selector = serde_json::from_value(case["observation"].clone())
            .unwrap_or_else(|e| machinery_failure(&format!("bad replay case: {e}")));
        let strings = |v: &Value| -> Vec<String> { serde_json::from_value(v.clone()).unwrap_or_default() };
        let lc = LayoutCase {
            txs,
            hidden_options: vec![sel.hidden.clone()],
            deep: case["deep"].as_bool().unwrap_or(false),
            absent_commits: strings(&case["absent_commits"]),
            absent_changes: strings(&case["absent_changes"]),
        };
        for (f, s) in run_layout_case(&env, &st, &lc, Some(&sel)) {
            ctx.violation(&f.sig, f.msg, case_json(&lc, &s));
        }
        ctx.finish(Coverage { evaluations: st.evaluations.get(), ..Default::default() });
    }

    let no_fill = [0usize, 0, 0, 0];
    let fill = [8usize, 3, 0, 0];
    let parts: Vec<Part> = if ctx.quick() {
        vec![
            Part { name: "ids", n_pool: 8, kmax: 3, all_partitions: false, hmax: 1, schedules: vec![no_fill, fill] },
            Part { name: "changes", n_pool: 4, kmax: 3, all_partitions: true, hmax: 3, schedules: vec![no_fill, fill] },
        ]
    } else {
        vec![
            Part { name: "ids", n_pool: 13, kmax: 3, all_partitions: false, hmax: 1, schedules: vec![no_fill, fill] },
            Part { name: "ids4", n_pool: 9, kmax: 4, all_partitions: false, hmax: 1, schedules: vec![no_fill, fill] },
            Part { name: "changes", n_pool: 7, kmax: 3, all_partitions: true, hmax: 3, schedules: vec![no_fill, fill] },
            Part { name: "changes4", n_pool: 5, kmax: 4, all_partitions: true, hmax: 4, schedules: vec![no_fill] },
        ]
    };

    let samples = Samples::new(6);
    let mut part_counts: BTreeMap<String, Value> = BTreeMap::new();
    for part in &parts {
        let subsets = vcommon::enumerate::subsets_up_to(part.n_pool, part.kmax);
        let before = st.layout_cases.get();
        let t0 = ctx.elapsed_s();
        subsets.par_iter().for_each(|subset| {
            if part.name.ends_with('4') && subset.len() < 4 {
                return; // smaller subsets are covered by the sibling part with the larger pool
            }
            let mut cases = vec![];
            cases_for_subset(part, subset, &mut cases);
            cases.par_iter().for_each(|case| {
                let fails = run_layout_case(&env, &st, case, None);
                if fails.is_empty() {
                    if case.txs.len() >= 3 && !case.hidden_options.is_empty() {
                        samples.offer(|| json!({"txs": case.txs, "hidden_options": case.hidden_options, "deep": case.deep}));
                    }
                }
                for (f, sel) in fails {
                    ctx.violation(&f.sig, f.msg, case_json(case, &sel));
                }
            });
        });
        part_counts.insert(
            part.name.to_string(),
            json!({"pool": part.n_pool, "kmax": part.kmax, "all_partitions": part.all_partitions, "hmax": part.hmax,
                   "schedules": part.schedules, "layout_cases": st.layout_cases.get() - before,
                   "wall_s": ((ctx.elapsed_s() - t0) * 10.0).round() / 10.0}),
        );
    }
    let shadow = observe_full_id_shadowing(&env);

    // vacuity gates
    let vac: Vec<(&str, u64)> = vec![
        ("observations with >= 3 segments", st.obs_segments[3].get() + st.obs_segments[4].get() + st.obs_segments[5].get()),
        ("mutable-top observations", st.obs_mutable_top.get()),
        ("cross-segment nearest neighbour", st.cross_segment_neighbor.get()),
        ("cross-segment ambiguity", st.cross_segment_ambiguous.get()),
        ("change id spanning segments", st.change_spans_segments.get()),
        ("divergent change", st.change_divergent.get()),
        ("change with visible and hidden commits", st.change_visible_and_hidden.get()),
        ("hidden-only change", st.change_hidden_only.get()),
        ("disambiguation set shortens a prefix", st.disamb_shortens.get()),
        ("disambiguation fallback to the whole index", st.disamb_fallback_hits.get()),
        ("single in set where ambiguous in index", st.disamb_single_where_index_ambiguous.get()),
        ("prefix longer than the short key", st.disamb_long_prefix_queries.get()),
        ("set members sharing the short key", st.disamb_same_short_key_neighbors.get()),
        ("ref lengthens a shown prefix", st.ref_lengthens.get()),
        ("divergent change through the symbol resolver", st.symbol_divergent.get()),
    ];
    for (name, n) in &vac {
        if *n == 0 {
            machinery_failure(&format!("vacuous run: no case with '{name}'"));
        }
    }

    let mut extra: BTreeMap<String, Value> = BTreeMap::new();
    extra.insert("parts".into(), json!(part_counts));
    extra.insert("layout_cases".into(), json!(st.layout_cases.get()));
    extra.insert("observation_points".into(), json!(st.observations.get()));
    extra.insert("api_queries_compared".into(), json!(st.queries.get()));
    extra.insert(
        "observations_by_number_of_segments".into(),
        json!((0..6).map(|i| st.obs_segments[i].get()).collect::<Vec<_>>()),
    );
    extra.insert("observations_readonly".into(), json!(st.obs_readonly.get()));
    extra.insert("vacuity".into(), json!(vac.iter().map(|(k, v)| (k.to_string(), *v)).collect::<BTreeMap<_, _>>()));
    extra.insert("ref_variants".into(), json!(st.ref_variants.get()));
    extra.insert("ref_variants_skipped_no_target".into(), json!(st.ref_variants_skipped.get()));
    extra.insert("absent_id_queries".into(), json!(st.absent_queries.get()));
    extra.insert("single_commit_repo_len0".into(), json!(st.root_only_len0.get()));
    extra.insert("full_id_shadowed_by_bookmark_observation".into(), shadow);
    extra.insert("id_lengths_bytes".into(), json!({"commit": COMMIT_LEN, "change": CHANGE_LEN}));
    let cov = Coverage {
        evaluations: st.evaluations.get(),
        distinct_nontrivial: st.nontrivial_observations.get(),
        rule: "evaluations = (observation point, layer, disambiguation set / ref) oracle runs; an observation point \
               = (layout case, uncommitted|committed, hidden set), each generated once; non-trivial = observation \
               points where the id that forces some commit's shortest prefix lives in another index segment, or a \
               change id spans segments, or a change has both visible and hidden commits"
            .into(),
        samples: samples.take(),
        exhaustive: true,
        extra,
        assumptions: vec![
            "commit ids are 5 bytes and change ids 6 bytes (the algorithms are length-generic; real ids are 20/16 bytes)".into(),
            "the in-memory commit backend of the harness is trusted; index, op store and op heads are jj's own on tmpfs".into(),
            "a change without visible commits may resolve to 'no match' or to hidden-only targets; hidden targets may be omitted".into(),
            "bookmarks/tags named like a complete id are outside the bound (jj documents that it does not lengthen past the full id)".into(),
        ],
        ..Default::default()
    };
    ctx.finish(cov);
}

//! C32 — Workspace path conversion is lossless and confined.
//!
//! Bounded-exhaustive over (a) every file-system input string built from a small component
//! alphabet (plain, with a space, non-ASCII in NFC and NFD, `.`, `..`, `...`, empty = doubled
//! separator, a non-UTF-8 byte) up to a length, relative and absolute, with and without a
//! trailing separator, from several working directories and two workspace roots, through
//! `RepoPathBuf::parse_fs_path` and `RepoPathBuf::from_relative_path`; (b) every repository
//! path string over a component alphabet (incl. `.`, `..`, empty, `a\b`, `C:`, `.jj`, `.git`)
//! up to a length through `from_internal_string`, `to_fs_path` (several bases) and back through
//! `parse_fs_path`, `from_relative_path` and `RepoPathUiConverter`.
//!
//! The reference is a byte-level lexical normaliser (split on `/`, drop empty and `.`, pop on
//! `..`), written here and never calling jj.

use std::collections::HashSet;
use std::ffi::OsStr;
use std::os::unix::ffi::OsStrExt as _;
use std::path::Path;
use std::path::PathBuf;

use jj_lib::repo_path::RepoPath;
use jj_lib::repo_path::RepoPathBuf;
use jj_lib::repo_path::RepoPathUiConverter;
use rayon::prelude::*;
use serde_json::Value;
use serde_json::json;
use vcommon::Coverage;
use vcommon::Ctx;
use vcommon::Level;
use vcommon::Samples;
use vcommon::catch;

type Bytes = Vec<u8>;
type Fail = (String, String);

// ---------------------------------------------------------------------------------------
// Reference: lexical path algebra on bytes
// ---------------------------------------------------------------------------------------

fn split(path: &[u8]) -> Vec<&[u8]> {
    path.split(|b| *b == b'/').filter(|c| !c.is_empty()).collect()
}

/// Result of resolving components lexically starting from an (already normal) stack.
struct Resolved {
    stack: Vec<Bytes>,
    /// a `..` was applied to the empty stack (i.e. above `/` for absolute paths)
    past_root: bool,
}

fn resolve(start: &[&[u8]], comps: &[&[u8]]) -> Resolved {
    let mut stack: Vec<Bytes> = start.iter().map(|c| c.to_vec()).collect();
    let mut past_root = false;
    for c in comps {
        if *c == b"." {
            continue;
        }
        if *c == b".." {
            if stack.pop().is_none() {
                past_root = true;
            }
            continue;
        }
        stack.push(c.to_vec());
    }
    Resolved { stack, past_root }
}

#[derive(Debug, Clone, PartialEq, Eq)]
enum Expect {
    /// must be accepted with exactly these components
    Must(Vec<Bytes>),
    /// the statement leaves it open whether the input is accepted, but if it is, the result
    /// must be these components
    May(Vec<Bytes>),
    /// must be rejected
    Reject(&'static str),
}

fn is_utf8(comps: &[Bytes]) -> bool {
    comps.iter().all(|c| std::str::from_utf8(c).is_ok())
}

/// What `parse_fs_path(cwd, base, input)` has to return.
fn expect_parse_fs_path(cwd: &[u8], base: &[u8], input: &[u8]) -> Expect {
    let input_comps = split(input);
    let r = if input.first() == Some(&b'/') {
        resolve(&[], &input_comps)
    } else {
        resolve(&split(cwd), &input_comps)
    };
    let base_comps = split(base);
    let inside = r.stack.len() >= base_comps.len()
        && r.stack.iter().zip(&base_comps).all(|(a, b)| a.as_slice() == *b);
    if !inside {
        return Expect::Reject("outside the workspace");
    }
    let rest: Vec<Bytes> = r.stack[base_comps.len()..].to_vec();
    if !is_utf8(&rest) {
        return Expect::Reject("not representable (non-UTF-8)");
    }
    if r.past_root {
        // "/.." is "/" for the kernel; jj keeps the ".." and then rejects. Both are fine.
        return Expect::May(rest);
    }
    Expect::Must(rest)
}

/// What `from_relative_path(input)` has to return.
fn expect_from_relative_path(input: &[u8]) -> Expect {
    if input.first() == Some(&b'/') {
        return Expect::Reject("absolute path is not workspace-relative");
    }
    let comps = split(input);
    let r = resolve(&[], &comps);
    if r.past_root {
        return Expect::Reject("escapes the workspace");
    }
    if !is_utf8(&r.stack) {
        return Expect::Reject("not representable (non-UTF-8)");
    }
    if comps.iter().any(|c| *c == b"." || *c == b"..") {
        // documented: "The input path should not contain redundant `.` or `..`"
        return Expect::May(r.stack);
    }
    Expect::Must(r.stack)
}

fn join(comps: &[Bytes]) -> Bytes {
    comps.join(&b'/')
}

fn lossy(b: &[u8]) -> String {
    String::from_utf8_lossy(b).into_owned()
}

fn path_of(b: &[u8]) -> &Path {
    Path::new(OsStr::from_bytes(b))
}

// ---------------------------------------------------------------------------------------
// Oracles
// ---------------------------------------------------------------------------------------

/// The three forbidden kinds of component in a produced repository path.
fn bad_repo_path_string(s: &str) -> bool {
    !s.is_empty() && s.split('/').any(|c| c.is_empty() || c == "." || c == "..")
}

fn judge(
    func: &str,
    what: &str,
    got: Result<RepoPathBuf, String>,
    expect: &Expect,
) -> Result<Option<RepoPathBuf>, Fail> {
    match got {
        Ok(p) => {
            let s = p.as_internal_file_string().to_owned();
            if bad_repo_path_string(&s) {
                return Err((
                    format!("C32/{func}/bad-component"),
                    format!("{what} = {s:?}: repository path with an empty, '.' or '..' component"),
                ));
            }
            match expect {
                Expect::Must(c) | Expect::May(c) => {
                    if s.as_bytes() != join(c).as_slice() {
                        return Err((
                            format!("C32/{func}/wrong-path"),
                            format!("{what} = {s:?}, expected {:?}", lossy(&join(c))),
                        ));
                    }
                    Ok(Some(p))
                }
                Expect::Reject(why) => Err((
                    format!("C32/{func}/accepted-invalid"),
                    format!("{what} = {s:?}, but the input is {why}"),
                )),
            }
        }
        Err(e) => match expect {
            Expect::Must(c) => Err((
                format!("C32/{func}/rejected-valid"),
                format!("{what} failed ({e}), expected {:?}", lossy(&join(c))),
            )),
            _ => Ok(None),
        },
    }
}

/// Confinement of a produced file-system path: `base` followed by normal components only.
fn check_confined(what: &str, base: &[u8], fs: &Path) -> Result<(), Fail> {
    let fs_bytes = fs.as_os_str().as_bytes();
    let base_comps = split(base);
    let comps = split(fs_bytes);
    // "" base and root path give "."
    if base_comps.is_empty() && base.first() != Some(&b'/') && fs_bytes == b"." {
        return Ok(());
    }
    let absolute_ok = (base.first() == Some(&b'/')) == (fs_bytes.first() == Some(&b'/'));
    let prefix_ok = comps.len() >= base_comps.len()
        && comps.iter().zip(&base_comps).all(|(a, b)| a == b);
    let rest_ok = prefix_ok
        && comps[base_comps.len()..]
            .iter()
            .all(|c| *c != b".." && *c != b"." && !c.is_empty());
    if !(absolute_ok && prefix_ok && rest_ok) {
        return Err((
            "C32/to_fs_path/escapes-base".into(),
            format!("{what} = {:?} is not `base` followed by plain names", lossy(fs_bytes)),
        ));
    }
    Ok(())
}

const CWDS: &[&str] = &["/ws", "/ws/a", "/ws/a/b", "/", "/other"];
const BASES: &[&str] = &["/ws", "/"];

/// One file-system input through `parse_fs_path` (all cwds x bases) and
/// `from_relative_path`. Returns tallies.
#[derive(Default, Clone, Copy)]
struct Tally {
    evals: u64,
    nontrivial: u64,
    accepted: u64,
    rejected_outside: u64,
    rejected_unrepresentable: u64,
    past_root: u64,
    may_cases: u64,
    fs_roundtrips: u64,
    repo_roundtrips: u64,
    to_fs_rejected: u64,
    to_fs_accepted: u64,
    internal_rejected: u64,
}

impl Tally {
    fn add(mut self, o: Tally) -> Tally {
        self.evals += o.evals;
        self.nontrivial += o.nontrivial;
        self.accepted += o.accepted;
        self.rejected_outside += o.rejected_outside;
        self.rejected_unrepresentable += o.rejected_unrepresentable;
        self.past_root += o.past_root;
        self.may_cases += o.may_cases;
        self.fs_roundtrips += o.fs_roundtrips;
        self.repo_roundtrips += o.repo_roundtrips;
        self.to_fs_rejected += o.to_fs_rejected;
        self.to_fs_accepted += o.to_fs_accepted;
        self.internal_rejected += o.internal_rejected;
        self
    }
}

fn needs_normalisation(input: &[u8]) -> bool {
    let mut prev_slash = false;
    for (i, b) in input.iter().enumerate() {
        if *b == b'/' {
            if prev_slash || i + 1 == input.len() {
                return true;
            }
            prev_slash = true;
        } else {
            prev_slash = false;
        }
    }
    input.split(|b| *b == b'/').any(|c| c == b"." || c == b"..")
}

fn check_parse_fs_path(cwd: &str, base: &str, input: &[u8], t: &mut Tally) -> Result<(), Fail> {
    let expect = expect_parse_fs_path(cwd.as_bytes(), base.as_bytes(), input);
    let what = format!("parse_fs_path(cwd={cwd:?}, base={base:?}, {:?})", lossy(input));
    t.evals += 1;
    let got = catch(|| RepoPathBuf::parse_fs_path(Path::new(cwd), Path::new(base), path_of(input)))
        .map_err(|e| ("C32/parse_fs_path/panic".to_string(), format!("{what} panicked: {e}")))?
        .map_err(|e| e.to_string());
    match &expect {
        Expect::Must(_) => {
            if needs_normalisation(input) {
                t.nontrivial += 1;
            }
        }
        Expect::May(_) => {
            t.may_cases += 1;
            t.past_root += 1;
        }
        Expect::Reject(why) => {
            t.nontrivial += 1;
            if why.starts_with("outside") {
                t.rejected_outside += 1;
            } else {
                t.rejected_unrepresentable += 1;
            }
        }
    }
    let Some(p) = judge("parse_fs_path", &what, got, &expect)? else {
        return Ok(());
    };
    t.accepted += 1;
    // fs -> repo -> fs: the produced path denotes the same location as the input.
    let fs = catch(|| p.to_fs_path(Path::new(base)))
        .map_err(|e| ("C32/to_fs_path/panic".to_string(), format!("{what}: to_fs_path panicked: {e}")))?
        .map_err(|e| {
            (
                "C32/roundtrip/fs-repo-fs/to_fs_path-failed".to_string(),
                format!("{what} = {p:?} but to_fs_path({base:?}) fails: {e}"),
            )
        })?;
    check_confined(&format!("{what} -> to_fs_path"), base.as_bytes(), &fs)?;
    let (Expect::Must(c) | Expect::May(c)) = &expect else { unreachable!() };
    let mut want: Vec<Bytes> = split(base.as_bytes()).iter().map(|c| c.to_vec()).collect();
    want.extend(c.iter().cloned());
    let have: Vec<Bytes> = split(fs.as_os_str().as_bytes()).iter().map(|c| c.to_vec()).collect();
    if have != want {
        return Err((
            "C32/roundtrip/fs-repo-fs".into(),
            format!("{what} = {p:?}; to_fs_path gives {fs:?}, a different location than the input"),
        ));
    }
    t.fs_roundtrips += 1;
    Ok(())
}

fn check_from_relative_path(input: &[u8], t: &mut Tally) -> Result<(), Fail> {
    let expect = expect_from_relative_path(input);
    let what = format!("from_relative_path({:?})", lossy(input));
    t.evals += 1;
    let got = catch(|| RepoPathBuf::from_relative_path(path_of(input)))
        .map_err(|e| ("C32/from_relative_path/panic".to_string(), format!("{what} panicked: {e}")))?
        .map_err(|e| e.to_string());
    match &expect {
        Expect::Must(_) => {
            if needs_normalisation(input) {
                t.nontrivial += 1;
            }
        }
        Expect::May(_) => t.may_cases += 1,
        Expect::Reject(_) => t.nontrivial += 1,
    }
    if judge("from_relative_path", &what, got, &expect)?.is_some() {
        t.accepted += 1;
    }
    Ok(())
}

const TO_FS_BASES: &[&str] = &["/ws", "/", "", "rel/dir"];

/// One repository-path string.
fn check_repo_string(s: &str, t: &mut Tally) -> Result<(), Fail> {
    t.evals += 1;
    let comps: Vec<&str> = if s.is_empty() { vec![] } else { s.split('/').collect() };
    let has_empty = comps.iter().any(|c| c.is_empty());
    let has_dots = comps.iter().any(|c| *c == "." || *c == "..");
    let got = catch(|| RepoPath::from_internal_string(s).map(|p| p.to_owned()))
        .map_err(|e| ("C32/from_internal_string/panic".to_string(), format!("{s:?}: {e}")))?;
    let p = match got {
        Ok(p) => {
            if has_empty {
                return Err((
                    "C32/from_internal_string/accepted-empty-component".into(),
                    format!("from_internal_string({s:?}) accepted a path with an empty component"),
                ));
            }
            if p.as_internal_file_string() != s {
                return Err((
                    "C32/from_internal_string/changed".into(),
                    format!("from_internal_string({s:?}) = {p:?}"),
                ));
            }
            p
        }
        Err(_) => {
            if !has_empty {
                return Err((
                    "C32/from_internal_string/rejected-valid".into(),
                    format!("from_internal_string({s:?}) rejected a path without empty components"),
                ));
            }
            t.internal_rejected += 1;
            return Ok(());
        }
    };
    t.nontrivial += 1;
    for base in TO_FS_BASES {
        t.evals += 1;
        let what = format!("RepoPath({s:?}).to_fs_path({base:?})");
        let r = catch(|| p.to_fs_path(Path::new(base)))
            .map_err(|e| ("C32/to_fs_path/panic".to_string(), format!("{what} panicked: {e}")))?;
        match r {
            Err(e) => {
                if !has_dots {
                    return Err((
                        "C32/to_fs_path/rejected-valid".into(),
                        format!("{what} failed ({e}) although every component is a plain name"),
                    ));
                }
                t.to_fs_rejected += 1;
            }
            Ok(fs) => {
                check_confined(&what, base.as_bytes(), &fs)?;
                if has_dots {
                    return Err((
                        "C32/to_fs_path/accepted-dot-component".into(),
                        format!("{what} = {fs:?} although the path has a '.' or '..' component"),
                    ));
                }
                t.to_fs_accepted += 1;
                // exact shape: base + components
                let mut want = PathBuf::from(base);
                for c in &comps {
                    want.push(c);
                }
                if want.as_os_str().is_empty() {
                    want.push(".");
                }
                if fs.as_os_str().as_bytes() != want.as_os_str().as_bytes()
                    && split(fs.as_os_str().as_bytes()) != split(want.as_os_str().as_bytes())
                {
                    return Err((
                        "C32/to_fs_path/wrong-path".into(),
                        format!("{what} = {fs:?}, expected {want:?}"),
                    ));
                }
                // repo -> fs -> repo
                if base.starts_with('/') {
                    for cwd in CWDS {
                        t.evals += 1;
                        let back = catch(|| {
                            RepoPathBuf::parse_fs_path(Path::new(cwd), Path::new(base), &fs)
                        })
                        .map_err(|e| ("C32/parse_fs_path/panic".to_string(), format!("{what}: {e}")))?;
                        if back.as_ref().ok() != Some(&p) {
                            return Err((
                                "C32/roundtrip/repo-fs-repo".into(),
                                format!(
                                    "{what} = {fs:?}, but parse_fs_path(cwd={cwd:?}, base={base:?}, ..) gives {back:?}"
                                ),
                            ));
                        }
                        t.repo_roundtrips += 1;
                        // through the UI converter (cwd-relative display string)
                        let conv = RepoPathUiConverter::Fs {
                            cwd: PathBuf::from(cwd),
                            base: PathBuf::from(base),
                        };
                        let shown = catch(|| conv.format_file_path(&p))
                            .map_err(|e| ("C32/format_file_path/panic".to_string(), format!("{what}: {e}")))?;
                        let back = catch(|| conv.parse_file_path(&shown))
                            .map_err(|e| ("C32/parse_file_path/panic".to_string(), format!("{what}: {e}")))?;
                        if back.as_ref().ok() != Some(&p) {
                            return Err((
                                "C32/roundtrip/ui".into(),
                                format!(
                                    "cwd={cwd:?} base={base:?}: format_file_path({s:?}) = {shown:?}, parsed back as {back:?}"
                                ),
                            ));
                        }
                        t.repo_roundtrips += 1;
                    }
                } else if base.is_empty() {
                    t.evals += 1;
                    let back = catch(|| RepoPathBuf::from_relative_path(&fs))
                        .map_err(|e| ("C32/from_relative_path/panic".to_string(), format!("{what}: {e}")))?;
                    if back.as_ref().ok() != Some(&p) {
                        return Err((
                            "C32/roundtrip/repo-rel-repo".into(),
                            format!("{what} = {fs:?}, but from_relative_path gives {back:?}"),
                        ));
                    }
                    t.repo_roundtrips += 1;
                }
            }
        }
    }
    Ok(())
}

// ---------------------------------------------------------------------------------------
// Enumeration
// ---------------------------------------------------------------------------------------

const FS_COMPONENTS: &[&[u8]] = &[
    b"a",
    b"b c",
    "\u{e9}".as_bytes(),  // é (NFC)
    "e\u{301}".as_bytes(), // é (NFD)
    b".",
    b"..",
    b"",
    b"...",
    b"\xff",
];
const FS_PREFIXES: &[&str] = &["", "/", "/ws/", "/other/"];

/// Builds the input string; `None` if this (prefix, comps, trailing) triple is a second
/// spelling of a string that another triple already produces.
fn fs_input(prefix: &str, comps: &[usize], trailing: bool) -> Option<Bytes> {
    let names: Vec<&[u8]> = comps.iter().map(|&i| FS_COMPONENTS[i]).collect();
    if names.len() == 1 && names[0].is_empty() {
        return None;
    }
    if names.last().is_some_and(|c| c.is_empty()) && !trailing {
        return None;
    }
    if prefix.is_empty() {
        if names.first().is_some_and(|c| c.is_empty()) || (names.is_empty() && trailing) {
            return None;
        }
    }
    let mut s: Bytes = prefix.as_bytes().to_vec();
    s.extend(names.join(&b'/'));
    if trailing {
        s.push(b'/');
    }
    Some(s)
}

const REPO_COMPONENTS: &[&str] = &[
    "a", ".", "..", "", "a\\b", "C:", ".jj", ".git", "b c", "\u{e9}", "e\u{301}", "...", "~", "-",
];

fn repo_string(comps: &[usize]) -> Option<String> {
    if comps.len() == 1 && REPO_COMPONENTS[comps[0]].is_empty() {
        return None; // same string as the root path
    }
    Some(comps.iter().map(|&i| REPO_COMPONENTS[i]).collect::<Vec<_>>().join("/"))
}

fn run_fs_input(input: &[u8], t: &mut Tally, mut report: impl FnMut(Fail, Value)) {
    for cwd in CWDS {
        for base in BASES {
            if let Err(f) = check_parse_fs_path(cwd, base, input, t) {
                report(
                    f,
                    json!({"kind": "parse_fs_path", "cwd": cwd, "base": base,
                           "input_bytes": input, "input_lossy": lossy(input)}),
                );
            }
        }
    }
    if let Err(f) = check_from_relative_path(input, t) {
        report(
            f,
            json!({"kind": "from_relative_path", "input_bytes": input, "input_lossy": lossy(input)}),
        );
    }
}

fn main() {
    let ctx = Ctx::from_args("C32", Level::Exploration);
    vcommon::silence_panics();
    if let Some((_sig, case)) = ctx.replay_case() {
        let mut t = Tally::default();
        let r = match case["kind"].as_str().unwrap_or("") {
            "parse_fs_path" => {
                let input: Bytes = serde_json::from_value(case["input_bytes"].clone()).unwrap();
                check_parse_fs_path(
                    case["cwd"].as_str().unwrap(),
                    case["base"].as_str().unwrap(),
                    &input,
                    &mut t,
                )
            }
            "from_relative_path" => {
                let input: Bytes = serde_json::from_value(case["input_bytes"].clone()).unwrap();
                check_from_relative_path(&input, &mut t)
            }
            "repo_path" => check_repo_string(case["string"].as_str().unwrap(), &mut t),
            other => vcommon::machinery_failure(&format!("unknown replay kind {other}")),
        };
        if let Err((sig, msg)) = r {
            ctx.violation(&sig, msg, case);
        }
        ctx.finish(Coverage { evaluations: t.evals, ..Default::default() });
    }

    let max_fs = ctx.pick(5usize, 7usize);
    let max_repo = ctx.pick(4usize, 5usize);
    let samples = Samples::new(8);

    // Self-check of the enumerator: no string is generated twice (up to 3 components).
    {
        let mut seen: HashSet<Bytes> = HashSet::new();
        for n in 0..=3usize {
            vcommon::enumerate::odometer(&vec![FS_COMPONENTS.len(); n], |idx| {
                for prefix in FS_PREFIXES {
                    for trailing in [false, true] {
                        if let Some(s) = fs_input(prefix, idx, trailing) {
                            if !seen.insert(s.clone()) {
                                vcommon::machinery_failure(&format!(
                                    "enumerator produced {:?} twice",
                                    lossy(&s)
                                ));
                            }
                        }
                    }
                }
                true
            });
        }
    }
    // Self-check of the reference on a few hand-computed cases.
    {
        let e = |cwd: &str, base: &str, input: &str| {
            expect_parse_fs_path(cwd.as_bytes(), base.as_bytes(), input.as_bytes())
        };
        let b = |v: &[&str]| v.iter().map(|s| s.as_bytes().to_vec()).collect::<Vec<_>>();
        let ok = e("/ws/a", "/ws", "../b//c/./") == Expect::Must(b(&["b", "c"]))
            && e("/ws", "/ws", "") == Expect::Must(vec![])
            && matches!(e("/ws", "/ws", ".."), Expect::Reject(_))
            && matches!(e("/other", "/ws", "a"), Expect::Reject(_))
            && e("/other", "/ws", "../ws/a") == Expect::Must(b(&["a"]))
            && e("/", "/ws", "/../ws/a") == Expect::May(b(&["a"]))
            && e("/other", "/", "a") == Expect::Must(b(&["other", "a"]))
            && expect_from_relative_path(b"a//b/") == Expect::Must(b(&["a", "b"]))
            && expect_from_relative_path(b"./a") == Expect::May(b(&["a"]))
            && matches!(expect_from_relative_path(b"a/../../b"), Expect::Reject(_))
            && matches!(expect_from_relative_path(b"/a"), Expect::Reject(_));
        if !ok {
            vcommon::machinery_failure("reference normaliser fails its self-check");
        }
    }

    // (a) file-system inputs. Shard by the first two components.
    let mut shards: Vec<Vec<usize>> = vec![vec![]];
    for i in 0..FS_COMPONENTS.len() {
        shards.push(vec![i]);
    }
    let mut work: Vec<(Vec<usize>, bool)> = shards.iter().map(|s| (s.clone(), false)).collect();
    for i in 0..FS_COMPONENTS.len() {
        for j in 0..FS_COMPONENTS.len() {
            work.push((vec![i, j], true)); // true: extend with every suffix
        }
    }
    let fs_tally = work
        .par_iter()
        .map(|(head, extend)| {
            let mut t = Tally::default();
            let mut one = |comps: &[usize], t: &mut Tally| {
                for prefix in FS_PREFIXES {
                    for trailing in [false, true] {
                        let Some(input) = fs_input(prefix, comps, trailing) else { continue };
                        if comps.len() >= 3
                            && comps[0] != comps[1]
                            && comps.iter().any(|&i| FS_COMPONENTS[i] == b"..")
                            && (input.len() + comps[0]) % 7 == 3
                        {
                            samples.offer(|| json!({"fs_input": lossy(&input), "cwds": CWDS, "bases": BASES}));
                        }
                        run_fs_input(&input, t, |(sig, msg), case| ctx.violation(&sig, msg, case));
                    }
                }
            };
            if !*extend {
                one(head, &mut t);
            } else {
                for extra in 0..=(max_fs - 2) {
                    vcommon::enumerate::odometer(&vec![FS_COMPONENTS.len(); extra], |tail| {
                        let mut comps = head.clone();
                        comps.extend_from_slice(tail);
                        one(&comps, &mut t);
                        true
                    });
                }
            }
            t
        })
        .reduce(Tally::default, Tally::add);

    // (b) repository path strings
    let mut repo_work: Vec<Vec<usize>> = vec![vec![]];
    for n in 1..=max_repo {
        vcommon::enumerate::odometer(&vec![REPO_COMPONENTS.len(); n], |idx| {
            repo_work.push(idx.to_vec());
            true
        });
    }
    let repo_tally = repo_work
        .par_iter()
        .map(|comps| {
            let mut t = Tally::default();
            let Some(s) = repo_string(comps) else { return t };
            if comps.len() == 3 {
                samples.offer(|| json!({"repo_path": s, "bases": TO_FS_BASES}));
            }
            if let Err((sig, msg)) = check_repo_string(&s, &mut t) {
                ctx.violation(&sig, msg, json!({"kind": "repo_path", "string": s}));
            }
            t
        })
        .reduce(Tally::default, Tally::add);

    let t = fs_tally.add(repo_tally);
    // Vacuity: every clause must have been exercised.
    for (name, n) in [
        ("accepted", t.accepted),
        ("rejected_outside", t.rejected_outside),
        ("rejected_unrepresentable", t.rejected_unrepresentable),
        ("past_root", t.past_root),
        ("fs_roundtrips", t.fs_roundtrips),
        ("repo_roundtrips", t.repo_roundtrips),
        ("to_fs_rejected", t.to_fs_rejected),
        ("to_fs_accepted", t.to_fs_accepted),
        ("internal_rejected", t.internal_rejected),
    ] {
        // (a violation can legitimately starve a counter, e.g. nothing is rejected any more)
        if n == 0 && ctx.violation_count() == 0 {
            vcommon::machinery_failure(&format!("vacuous: counter {name} is 0"));
        }
    }
    let cov = Coverage {
        evaluations: t.evals,
        distinct_nontrivial: t.nontrivial,
        rule: format!(
            "every string prefix+c1/../cn[+/] with prefix in {FS_PREFIXES:?}, n <= {max_fs}, components from \
             a 9-element alphabet (a, 'b c', NFC and NFD e-acute, '.', '..', empty, '...', byte 0xff), \
             each spelling generated once (checked), through parse_fs_path for cwd in {CWDS:?} x base in \
             {BASES:?} and through from_relative_path; every repository path string of <= {max_repo} \
             components over {REPO_COMPONENTS:?} through from_internal_string, to_fs_path for bases \
             {TO_FS_BASES:?} and back. Each (function, arguments) tuple is distinct. Non-trivial = fs \
             cases that need normalisation ('.', '..', doubled or trailing separator) or must be rejected, \
             and every accepted repository path string"
        ),
        samples: samples.take(),
        exhaustive: true,
        extra: [
            ("accepted_fs_inputs".to_string(), json!(t.accepted)),
            ("rejected_outside_workspace".to_string(), json!(t.rejected_outside)),
            ("rejected_non_utf8".to_string(), json!(t.rejected_unrepresentable)),
            ("dotdot_above_root_cases".to_string(), json!(t.past_root)),
            ("either_outcome_allowed_cases".to_string(), json!(t.may_cases)),
            ("fs_repo_fs_roundtrips".to_string(), json!(t.fs_roundtrips)),
            ("repo_fs_repo_roundtrips".to_string(), json!(t.repo_roundtrips)),
            ("to_fs_path_rejected_dot_components".to_string(), json!(t.to_fs_rejected)),
            ("to_fs_path_accepted".to_string(), json!(t.to_fs_accepted)),
            ("from_internal_string_rejected".to_string(), json!(t.internal_rejected)),
            ("max_fs_components".to_string(), json!(max_fs)),
            ("max_repo_components".to_string(), json!(max_repo)),
        ]
        .into_iter()
        .collect(),
        assumptions: vec![
            "Unix path semantics (separator '/', no prefixes/drive letters); Windows-specific branches are not reachable here".into(),
            "lexical semantics: symlinks are not considered (jj's conversion is documented as lexical)".into(),
            "a '..' applied to '/' may be either rejected or treated as '/' (both accepted)".into(),
            "from_relative_path on inputs with '.'/'..' components may reject, but must not return a wrong path".into(),
            format!("inputs longer than {max_fs} components / component spellings outside the alphabet are not explored"),
        ],
        ..Default::default()
    };
    ctx.finish(cov);
}

//! C16 — Operations and views round-trip and are content-addressed.
//!
//! Bounded-exhaustive enumeration of `op_store::View` and `op_store::Operation` values as
//! t-wise products of per-field ("slot") alphabets around two base values, each value pushed
//! through a real `SimpleOpStore` on tmpfs:
//!   * `read(write(v)) == v` through a *fresh* store instance,
//!   * the id is the BLAKE2b-512 digest of exactly the bytes `ContentHash` feeds to the
//!     hasher (captured with a `DigestUpdate` that appends to a `Vec<u8>`), does not depend
//!     on container insertion order and is the same when the value is written again by
//!     another store instance,
//!   * *injective encoding*: over the whole enumerated set two values that feed the same
//!     byte string to the hasher must be equal values (decided on the byte strings, never
//!     on hash collisions).
//! The proto (on-disk) encoding needs no separate injectivity clause: it is implied by the
//! round trip (two values with the same file both read back as themselves only if equal).

use std::collections::BTreeMap;
use std::collections::HashSet;
use std::path::Path;
use std::path::PathBuf;

use blake2::Blake2b512;
use blake2::Digest as _;
use jj_lib::backend::CommitId;
use jj_lib::backend::MillisSinceEpoch;
use jj_lib::backend::Timestamp;
use jj_lib::content_hash::ContentHash;
use jj_lib::content_hash::DigestUpdate;
use jj_lib::merge::Merge;
use jj_lib::object_id::ObjectId as _;
use jj_lib::op_store::OpStore as _;
use jj_lib::op_store::Operation;
use jj_lib::op_store::OperationId;
use jj_lib::op_store::OperationMetadata;
use jj_lib::op_store::RefTarget;
use jj_lib::op_store::RemoteRef;
use jj_lib::op_store::RemoteRefState;
use jj_lib::op_store::RemoteView;
use jj_lib::op_store::RootOperationData;
use jj_lib::op_store::TimestampRange;
use jj_lib::op_store::View;
use jj_lib::op_store::ViewId;
use jj_lib::ref_name::GitRefNameBuf;
use jj_lib::ref_name::RefNameBuf;
use jj_lib::ref_name::RemoteNameBuf;
use jj_lib::ref_name::WorkspaceNameBuf;
use jj_lib::simple_op_store::SimpleOpStore;
use pollster::FutureExt as _;
use rayon::prelude::*;
use serde_json::Value;
use serde_json::json;
use vcommon::Counter;
use vcommon::Coverage;
use vcommon::Ctx;
use vcommon::Level;
use vcommon::Samples;
use vcommon::catch;
use vcommon::fnv;
use vcommon::machinery_failure;

// ------------------------------------------------------------------------------------------
// capture of the hashed encoding

struct Capture(Vec<u8>);

impl DigestUpdate for Capture {
    fn update(&mut self, data: &[u8]) {
        self.0.extend_from_slice(data);
    }
}

fn hashed_bytes(x: &impl ContentHash) -> Vec<u8> {
    let mut c = Capture(Vec::with_capacity(256));
    x.hash(&mut c);
    c.0
}

// ------------------------------------------------------------------------------------------
// alphabets

/// Commit ids of different lengths chosen so that {I0,I2} and {I1,I3} concatenate to the same
/// bytes (`aa|bbcc` vs `aabb|cc`): an encoding without per-element length prefixes collides.
fn commit_ids() -> Vec<CommitId> {
    vec![
        CommitId::new(vec![0xaa]),
        CommitId::new(vec![0xaa, 0xbb]),
        CommitId::new(vec![0xbb, 0xcc]),
        CommitId::new(vec![0xcc]),
    ]
}

/// Level 1: every ref target with 1 and 3 terms over {absent, I0, I1} (so an absent term occurs
/// in every position) plus two hand-picked 5-term targets. Level 2: plus all 243 5-term targets.
/// Level 0 (used for the 3-wise pass): absent, two normal targets and three 3-term conflicts with
/// the absent term first / in the middle / last. Index 0 is the absent target.
fn ref_targets(level: u8) -> Vec<RefTarget> {
    let ids = commit_ids();
    let term = |d: usize| -> Option<CommitId> {
        match d {
            0 => None,
            1 => Some(ids[0].clone()),
            _ => Some(ids[1].clone()),
        }
    };
    let mut out = vec![];
    for arity in [1usize, 3, 5] {
        let dims = vec![3usize; arity];
        vcommon::enumerate::odometer(&dims, |t| {
            let keep = match level {
                0 => arity == 1 || t == [1, 0, 2] || t == [0, 1, 2] || t == [2, 1, 0],
                1 => arity < 5 || t == [1, 0, 2, 1, 0] || t == [0, 1, 0, 2, 1],
                _ => true,
            };
            if keep {
                let terms: Vec<Option<CommitId>> = t.iter().map(|&d| term(d)).collect();
                out.push(RefTarget::from_merge(Merge::from_vec(terms)));
            }
            true
        });
    }
    assert!(out[0].is_absent());
    out
}

const N0: &str = "a";
const N1: &str = "\u{fc} b";
const REMOTE_SLOTS: [(&str, bool, &str); 5] = [
    // (remote, is_tag, ref name)
    ("origin", false, N0),
    ("origin", false, N1),
    ("git", false, N0),
    ("origin", true, N0),
    ("up", true, N1),
];
const GIT_REF_NAMES: [&str; 2] = ["refs/heads/a", "refs/tags/a"];
const WS_NAMES: [&str; 2] = ["default", "w 2"];

struct ViewSpace {
    ids: Vec<CommitId>,
    targets: Vec<RefTarget>,
    dims: Vec<usize>,
    bases: Vec<Vec<u16>>,
}

// slot numbers
const S_HEADS: usize = 0;
const S_LB: usize = 1; // 2 slots
const S_LT: usize = 3; // 2 slots
const S_RV: usize = 5; // 5 slots
const S_EMPTY_REMOTE: usize = 10;
const S_GIT_REFS: usize = 11; // 2 slots
const S_GIT_HEADS: usize = 13; // 2 slots
const S_WC: usize = 15; // 2 slots
const VIEW_SLOTS: usize = 17;

impl ViewSpace {
    fn new(level: u8) -> Self {
        let ids = commit_ids();
        let targets = ref_targets(level);
        let nt = targets.len();
        let mut dims = vec![0usize; VIEW_SLOTS];
        dims[S_HEADS] = 1 << ids.len();
        for i in 0..2 {
            dims[S_LB + i] = nt; // 0 = no entry, k = targets[k] (present targets only)
            dims[S_LT + i] = 1 + nt; // 0 = no entry, k = targets[k-1]
            dims[S_GIT_REFS + i] = 1 + nt;
            dims[S_GIT_HEADS + i] = 1 + nt;
            dims[S_WC + i] = 1 + ids.len();
        }
        for i in 0..5 {
            dims[S_RV + i] = 1 + 2 * nt; // 0 = no entry, else targets[(k-1)/2] x {New, Tracked}
        }
        dims[S_EMPTY_REMOTE] = 2;
        // base 0: the empty view. base 1: a view where every field is populated.
        let conflict = targets
            .iter()
            .position(|t| t.as_merge().as_slice() == [Some(ids[0].clone()), None, Some(ids[1].clone())])
            .unwrap() as u16;
        let mut rich = vec![0u16; VIEW_SLOTS];
        rich[S_HEADS] = 0b0101;
        rich[S_LB] = 1; // normal(I0)
        rich[S_LB + 1] = conflict;
        rich[S_LT] = 2 + 1; // normal(I1)
        rich[S_LT + 1] = 0;
        rich[S_RV] = 1 + 2 * 1 + 1; // origin a: normal(I0), Tracked
        rich[S_RV + 1] = 1 + 2 * conflict; // origin N1: conflict, New
        rich[S_RV + 2] = 1 + 2 * 2 + 1; // git a: normal(I1), Tracked
        rich[S_RV + 3] = 1 + 2 * 1; // origin tag a: normal(I0), New
        rich[S_RV + 4] = 1 + 2 * 0 + 1; // up tag N1: absent, Tracked
        rich[S_EMPTY_REMOTE] = 1;
        rich[S_GIT_REFS] = 1 + 1;
        rich[S_GIT_REFS + 1] = 1 + conflict;
        rich[S_GIT_HEADS] = 1 + 2;
        rich[S_GIT_HEADS + 1] = 1 + 1;
        rich[S_WC] = 1;
        rich[S_WC + 1] = 3;
        ViewSpace {
            ids,
            targets,
            dims,
            bases: vec![vec![0u16; VIEW_SLOTS], rich],
        }
    }

    fn build(&self, idx: &[u16]) -> View {
        let mut view = View {
            head_ids: HashSet::new(),
            local_bookmarks: BTreeMap::new(),
            local_tags: BTreeMap::new(),
            remote_views: BTreeMap::new(),
            git_refs: BTreeMap::new(),
            git_heads: BTreeMap::new(),
            wc_commit_ids: BTreeMap::new(),
        };
        for (i, id) in self.ids.iter().enumerate() {
            if idx[S_HEADS] >> i & 1 == 1 {
                view.head_ids.insert(id.clone());
            }
        }
        let names = [N0, N1];
        for i in 0..2 {
            let k = idx[S_LB + i] as usize;
            if k > 0 {
                view.local_bookmarks
                    .insert(RefNameBuf::from(names[i]), self.targets[k].clone());
            }
            let k = idx[S_LT + i] as usize;
            if k > 0 {
                view.local_tags
                    .insert(RefNameBuf::from(names[i]), self.targets[k - 1].clone());
            }
            let k = idx[S_GIT_REFS + i] as usize;
            if k > 0 {
                view.git_refs
                    .insert(GitRefNameBuf::from(GIT_REF_NAMES[i]), self.targets[k - 1].clone());
            }
            let k = idx[S_GIT_HEADS + i] as usize;
            if k > 0 {
                view.git_heads
                    .insert(WorkspaceNameBuf::from(WS_NAMES[i]), self.targets[k - 1].clone());
            }
            let k = idx[S_WC + i] as usize;
            if k > 0 {
                view.wc_commit_ids
                    .insert(WorkspaceNameBuf::from(WS_NAMES[i]), self.ids[k - 1].clone());
            }
        }
        for (i, (remote, is_tag, name)) in REMOTE_SLOTS.iter().enumerate() {
            let k = idx[S_RV + i] as usize;
            if k > 0 {
                let remote_ref = RemoteRef {
                    target: self.targets[(k - 1) / 2].clone(),
                    state: if (k - 1) % 2 == 0 {
                        RemoteRefState::New
                    } else {
                        RemoteRefState::Tracked
                    },
                };
                let rv = view
                    .remote_views
                    .entry(RemoteNameBuf::from(*remote))
                    .or_default();
                let map = if *is_tag { &mut rv.tags } else { &mut rv.bookmarks };
                map.insert(RefNameBuf::from(*name), remote_ref);
            }
        }
        if idx[S_EMPTY_REMOTE] == 1 {
            view.remote_views
                .entry(RemoteNameBuf::from("e"))
                .or_default();
        }
        view
    }
}

fn op_id(last: u8, fill: u8) -> Vec<u8> {
    let mut v = vec![fill; 64];
    v[63] = last;
    v
}

const STRINGS: [&str; 6] = ["", "a", "b", "ab", "\u{fc}\n x", "a\0"];
const MILLIS: [i64; 5] = [0, -1, 1500, i64::MAX, i64::MIN];
const TZS: [i32; 5] = [0, 60, -720, i32::MAX, i32::MIN];

struct OpSpace {
    view_ids: Vec<ViewId>,
    parents: Vec<Vec<OperationId>>,
    workspace_names: Vec<Option<WorkspaceNameBuf>>,
    attributes: Vec<BTreeMap<String, String>>,
    predecessors: Vec<Option<BTreeMap<CommitId, Vec<CommitId>>>>,
    dims: Vec<usize>,
    bases: Vec<Vec<u16>>,
}

const O_VIEW: usize = 0;
const O_PARENTS: usize = 1;
const O_START_MS: usize = 2;
const O_START_TZ: usize = 3;
const O_END_MS: usize = 4;
const O_END_TZ: usize = 5;
const O_DESC: usize = 6;
const O_HOST: usize = 7;
const O_USER: usize = 8;
const O_SNAPSHOT: usize = 9;
const O_WS: usize = 10;
const O_ATTRS: usize = 11;
const O_PREDS: usize = 12;
const OP_SLOTS: usize = 13;

impl OpSpace {
    fn new() -> Self {
        let ids = commit_ids();
        let view_ids = vec![
            ViewId::new(op_id(0, 0)),
            ViewId::new(op_id(0x11, 0x11)),
            ViewId::new(op_id(0x12, 0x11)),
        ];
        let p = |n: u8| OperationId::new(op_id(n, if n == 0 { 0 } else { 0x22 }));
        let parents = vec![
            vec![p(0)],
            vec![p(1)],
            vec![p(1), p(2)],
            vec![p(2), p(1)],
            vec![p(1), p(1)],
            vec![p(1), p(2), p(3)],
        ];
        let workspace_names = vec![
            None,
            Some(WorkspaceNameBuf::from("")),
            Some(WorkspaceNameBuf::from("a")),
            Some(WorkspaceNameBuf::from("default")),
            Some(WorkspaceNameBuf::from("w 2")),
        ];
        // every map with <= 2 keys from {"", "a", "ab"} and values from {"", "b"}
        let keys = ["", "a", "ab"];
        let vals = ["", "b"];
        let mut attributes = vec![BTreeMap::new()];
        for k in 0..3 {
            for v in 0..2 {
                attributes.push([(keys[k].to_string(), vals[v].to_string())].into_iter().collect());
            }
        }
        for (k1, k2) in [(0, 1), (0, 2), (1, 2)] {
            for v1 in 0..2 {
                for v2 in 0..2 {
                    attributes.push(
                        [
                            (keys[k1].to_string(), vals[v1].to_string()),
                            (keys[k2].to_string(), vals[v2].to_string()),
                        ]
                        .into_iter()
                        .collect(),
                    );
                }
            }
        }
        // None, Some({}), every map with <= 2 keys from {I0,I1,I2} and values from 4 lists
        let lists: Vec<Vec<CommitId>> = vec![
            vec![],
            vec![ids[2].clone()],
            vec![ids[2].clone(), ids[3].clone()],
            vec![ids[3].clone(), ids[2].clone()],
        ];
        let mut predecessors = vec![None, Some(BTreeMap::new())];
        for k in 0..3 {
            for l in &lists {
                predecessors.push(Some([(ids[k].clone(), l.clone())].into_iter().collect()));
            }
        }
        for (k1, k2) in [(0, 1), (0, 2), (1, 2)] {
            for l1 in &lists {
                for l2 in &lists {
                    predecessors.push(Some(
                        [(ids[k1].clone(), l1.clone()), (ids[k2].clone(), l2.clone())]
                            .into_iter()
                            .collect(),
                    ));
                }
            }
        }
        let mut dims = vec![0usize; OP_SLOTS];
        dims[O_VIEW] = view_ids.len();
        dims[O_PARENTS] = parents.len();
        dims[O_START_MS] = MILLIS.len();
        dims[O_END_MS] = MILLIS.len();
        dims[O_START_TZ] = TZS.len();
        dims[O_END_TZ] = TZS.len();
        dims[O_DESC] = STRINGS.len();
        dims[O_HOST] = STRINGS.len();
        dims[O_USER] = STRINGS.len();
        dims[O_SNAPSHOT] = 2;
        dims[O_WS] = workspace_names.len();
        dims[O_ATTRS] = attributes.len();
        dims[O_PREDS] = predecessors.len();
        let mut rich = vec![0u16; OP_SLOTS];
        rich[O_VIEW] = 1;
        rich[O_PARENTS] = 2;
        rich[O_START_MS] = 2;
        rich[O_START_TZ] = 1;
        rich[O_END_MS] = 2;
        rich[O_END_TZ] = 2;
        rich[O_DESC] = 3;
        rich[O_HOST] = 1;
        rich[O_USER] = 2;
        rich[O_SNAPSHOT] = 1;
        rich[O_WS] = 3;
        rich[O_ATTRS] = 8;
        rich[O_PREDS] = 20;
        OpSpace {
            view_ids,
            parents,
            workspace_names,
            attributes,
            predecessors,
            dims,
            bases: vec![vec![0u16; OP_SLOTS], rich],
        }
    }

    fn build(&self, idx: &[u16]) -> Operation {
        let ts = |ms: usize, tz: usize| Timestamp {
            timestamp: MillisSinceEpoch(MILLIS[idx[ms] as usize]),
            tz_offset: TZS[idx[tz] as usize],
        };
        Operation {
            view_id: self.view_ids[idx[O_VIEW] as usize].clone(),
            parents: self.parents[idx[O_PARENTS] as usize].clone(),
            metadata: OperationMetadata {
                time: TimestampRange {
                    start: ts(O_START_MS, O_START_TZ),
                    end: ts(O_END_MS, O_END_TZ),
                },
                description: STRINGS[idx[O_DESC] as usize].to_string(),
                hostname: STRINGS[idx[O_HOST] as usize].to_string(),
                username: STRINGS[idx[O_USER] as usize].to_string(),
                is_snapshot: idx[O_SNAPSHOT] == 1,
                workspace_name: self.workspace_names[idx[O_WS] as usize].clone(),
                attributes: self.attributes[idx[O_ATTRS] as usize].clone(),
            },
            commit_predecessors: self.predecessors[idx[O_PREDS] as usize].clone(),
        }
    }
}

// ------------------------------------------------------------------------------------------
// t-wise enumeration around a base: every index vector that differs from the base in at most
// `t` slots, each exactly once. A task = the base itself, or (first varied slot, value).

#[derive(Clone, Debug)]
struct Task {
    base: usize,
    first: Option<(usize, u16)>,
}

fn tasks(dims: &[usize], bases: &[Vec<u16>]) -> Vec<Task> {
    let mut out = vec![];
    for (b, base) in bases.iter().enumerate() {
        out.push(Task { base: b, first: None });
        for p in 0..dims.len() {
            for v in 0..dims[p] as u16 {
                if v != base[p] {
                    out.push(Task { base: b, first: Some((p, v)) });
                }
            }
        }
    }
    out
}

fn run_task(task: &Task, dims: &[usize], base: &[u16], t: usize, f: &mut impl FnMut(&[u16])) {
    fn rec(
        cur: &mut Vec<u16>,
        base: &[u16],
        dims: &[usize],
        start: usize,
        left: usize,
        f: &mut impl FnMut(&[u16]),
    ) {
        for p in start..dims.len() {
            for v in 0..dims[p] as u16 {
                if v == base[p] {
                    continue;
                }
                cur[p] = v;
                f(cur);
                if left > 1 {
                    rec(cur, base, dims, p + 1, left - 1, f);
                }
            }
            cur[p] = base[p];
        }
    }
    let mut cur = base.to_vec();
    match task.first {
        None => f(&cur),
        Some((p, v)) => {
            cur[p] = v;
            f(&cur);
            if t > 1 {
                rec(&mut cur, base, dims, p + 1, t - 1, f);
            }
        }
    }
}

/// Packs (base, varied slots) into 64 bits: 2 bits base, 2 bits count, 3 x (5 bits slot, 10 bits value).
fn encode(base_no: usize, base: &[u16], cur: &[u16]) -> u64 {
    let mut code = base_no as u64;
    let mut n = 0u64;
    let mut shift = 4;
    for p in 0..cur.len() {
        if cur[p] != base[p] {
            assert!(n < 3 && p < 32 && cur[p] < 1024);
            code |= ((p as u64) << 10 | cur[p] as u64) << shift;
            shift += 15;
            n += 1;
        }
    }
    code | n << 2
}

fn decode(code: u64, bases: &[Vec<u16>]) -> Vec<u16> {
    let mut cur = bases[(code & 3) as usize].clone();
    let n = code >> 2 & 3;
    let mut shift = 4;
    for _ in 0..n {
        let pv = code >> shift & 0x7fff;
        cur[(pv >> 10) as usize] = (pv & 1023) as u16;
        shift += 15;
    }
    cur
}

// ------------------------------------------------------------------------------------------
// JSON (replay files and samples)

fn target_to_json(t: &RefTarget) -> Value {
    json!(t.as_merge().iter().map(|x| x.as_ref().map(|id| id.hex())).collect::<Vec<_>>())
}

fn target_from_json(v: &Value) -> RefTarget {
    let terms: Vec<Option<CommitId>> = v
        .as_array()
        .unwrap()
        .iter()
        .map(|x| x.as_str().map(|h| CommitId::try_from_hex(h).unwrap()))
        .collect();
    RefTarget::from_merge(Merge::from_vec(terms))
}

fn remote_ref_to_json(r: &RemoteRef) -> Value {
    json!({"target": target_to_json(&r.target),
           "state": if r.state == RemoteRefState::New { "new" } else { "tracked" }})
}

fn remote_ref_from_json(v: &Value) -> RemoteRef {
    RemoteRef {
        target: target_from_json(&v["target"]),
        state: if v["state"] == "new" { RemoteRefState::New } else { RemoteRefState::Tracked },
    }
}

fn obj<'a>(v: &'a Value) -> impl Iterator<Item = (&'a String, &'a Value)> {
    v.as_object().unwrap().iter()
}

fn view_to_json(view: &View) -> Value {
    let mut heads: Vec<String> = view.head_ids.iter().map(|id| id.hex()).collect();
    heads.sort();
    let tmap = |it: &mut dyn Iterator<Item = (String, &RefTarget)>| -> Value {
        Value::Object(it.map(|(k, t)| (k, target_to_json(t))).collect())
    };
    let rmap = |m: &BTreeMap<RefNameBuf, RemoteRef>| -> Value {
        Value::Object(m.iter().map(|(k, r)| (k.as_str().to_string(), remote_ref_to_json(r))).collect())
    };
    json!({
        "head_ids": heads,
        "local_bookmarks": tmap(&mut view.local_bookmarks.iter().map(|(k, t)| (k.as_str().to_string(), t))),
        "local_tags": tmap(&mut view.local_tags.iter().map(|(k, t)| (k.as_str().to_string(), t))),
        "remote_views": Value::Object(view.remote_views.iter().map(|(k, rv)| {
            (k.as_str().to_string(), json!({"bookmarks": rmap(&rv.bookmarks), "tags": rmap(&rv.tags)}))
        }).collect()),
        "git_refs": tmap(&mut view.git_refs.iter().map(|(k, t)| (k.as_str().to_string(), t))),
        "git_heads": tmap(&mut view.git_heads.iter().map(|(k, t)| (k.as_str().to_string(), t))),
        "wc_commit_ids": Value::Object(view.wc_commit_ids.iter().map(|(k, id)| {
            (k.as_str().to_string(), json!(id.hex()))
        }).collect()),
    })
}

fn view_from_json(v: &Value) -> View {
    View {
        head_ids: v["head_ids"]
            .as_array()
            .unwrap()
            .iter()
            .map(|h| CommitId::try_from_hex(h.as_str().unwrap()).unwrap())
            .collect(),
        local_bookmarks: obj(&v["local_bookmarks"])
            .map(|(k, t)| (RefNameBuf::from(k), target_from_json(t)))
            .collect(),
        local_tags: obj(&v["local_tags"])
            .map(|(k, t)| (RefNameBuf::from(k), target_from_json(t)))
            .collect(),
        remote_views: obj(&v["remote_views"])
            .map(|(k, rv)| {
                let m = |x: &Value| -> BTreeMap<RefNameBuf, RemoteRef> {
                    obj(x).map(|(k, r)| (RefNameBuf::from(k), remote_ref_from_json(r))).collect()
                };
                (
                    RemoteNameBuf::from(k),
                    RemoteView { bookmarks: m(&rv["bookmarks"]), tags: m(&rv["tags"]) },
                )
            })
            .collect(),
        git_refs: obj(&v["git_refs"])
            .map(|(k, t)| (GitRefNameBuf::from(k), target_from_json(t)))
            .collect(),
        git_heads: obj(&v["git_heads"])
            .map(|(k, t)| (WorkspaceNameBuf::from(k), target_from_json(t)))
            .collect(),
        wc_commit_ids: obj(&v["wc_commit_ids"])
            .map(|(k, h)| (WorkspaceNameBuf::from(k), CommitId::try_from_hex(h.as_str().unwrap()).unwrap()))
            .collect(),
    }
}

fn op_to_json(op: &Operation) -> Value {
    let ts = |t: &Timestamp| json!([t.timestamp.0, t.tz_offset]);
    json!({
        "view_id": op.view_id.hex(),
        "parents": op.parents.iter().map(|p| p.hex()).collect::<Vec<_>>(),
        "start": ts(&op.metadata.time.start),
        "end": ts(&op.metadata.time.end),
        "description": op.metadata.description,
        "hostname": op.metadata.hostname,
        "username": op.metadata.username,
        "is_snapshot": op.metadata.is_snapshot,
        "workspace_name": op.metadata.workspace_name.as_ref().map(|w| w.as_str().to_string()),
        "attributes": op.metadata.attributes,
        "commit_predecessors": op.commit_predecessors.as_ref().map(|m| {
            m.iter().map(|(k, l)| json!([k.hex(), l.iter().map(|x| x.hex()).collect::<Vec<_>>()])).collect::<Vec<_>>()
        }),
    })
}

fn op_from_json(v: &Value) -> Operation {
    let ts = |x: &Value| Timestamp {
        timestamp: MillisSinceEpoch(x[0].as_i64().unwrap()),
        tz_offset: x[1].as_i64().unwrap() as i32,
    };
    let s = |x: &Value| x.as_str().unwrap().to_string();
    Operation {
        view_id: ViewId::try_from_hex(v["view_id"].as_str().unwrap()).unwrap(),
        parents: v["parents"]
            .as_array()
            .unwrap()
            .iter()
            .map(|p| OperationId::try_from_hex(p.as_str().unwrap()).unwrap())
            .collect(),
        metadata: OperationMetadata {
            time: TimestampRange { start: ts(&v["start"]), end: ts(&v["end"]) },
            description: s(&v["description"]),
            hostname: s(&v["hostname"]),
            username: s(&v["username"]),
            is_snapshot: v["is_snapshot"].as_bool().unwrap(),
            workspace_name: v["workspace_name"].as_str().map(WorkspaceNameBuf::from),
            attributes: obj(&v["attributes"]).map(|(k, x)| (k.clone(), s(x))).collect(),
        },
        commit_predecessors: v["commit_predecessors"].as_array().map(|entries| {
            entries
                .iter()
                .map(|e| {
                    (
                        CommitId::try_from_hex(e[0].as_str().unwrap()).unwrap(),
                        e[1].as_array()
                            .unwrap()
                            .iter()
                            .map(|x| CommitId::try_from_hex(x.as_str().unwrap()).unwrap())
                            .collect(),
                    )
                })
                .collect()
        }),
    }
}

// ------------------------------------------------------------------------------------------
// oracles

/// A copy whose containers were filled in the opposite order (fresh `HashSet` hasher state).
fn rebuilt_view(v: &View) -> View {
    let mut heads: Vec<&CommitId> = v.head_ids.iter().collect();
    heads.sort();
    heads.reverse();
    fn rev<K: Ord + Clone, V: Clone>(m: &BTreeMap<K, V>) -> BTreeMap<K, V> {
        let mut out = BTreeMap::new();
        for (k, v) in m.iter().rev() {
            out.insert(k.clone(), v.clone());
        }
        out
    }
    let mut head_ids = HashSet::new();
    for h in heads {
        head_ids.insert(h.clone());
    }
    View {
        head_ids,
        local_bookmarks: rev(&v.local_bookmarks),
        local_tags: rev(&v.local_tags),
        remote_views: v
            .remote_views
            .iter()
            .rev()
            .map(|(k, rv)| {
                (k.clone(), RemoteView { bookmarks: rev(&rv.bookmarks), tags: rev(&rv.tags) })
            })
            .collect(),
        git_refs: rev(&v.git_refs),
        git_heads: rev(&v.git_heads),
        wc_commit_ids: rev(&v.wc_commit_ids),
    }
}

fn rebuilt_op(op: &Operation) -> Operation {
    let mut out = op.clone();
    let mut attrs = BTreeMap::new();
    for (k, v) in op.metadata.attributes.iter().rev() {
        attrs.insert(k.clone(), v.clone());
    }
    out.metadata.attributes = attrs;
    out.commit_predecessors = op.commit_predecessors.as_ref().map(|m| {
        let mut o = BTreeMap::new();
        for (k, v) in m.iter().rev() {
            o.insert(k.clone(), v.clone());
        }
        o
    });
    out
}

fn view_diff_field(a: &View, b: &View) -> &'static str {
    if a.head_ids != b.head_ids {
        "head_ids"
    } else if a.local_bookmarks != b.local_bookmarks {
        "local_bookmarks"
    } else if a.local_tags != b.local_tags {
        "local_tags"
    } else if a.remote_views != b.remote_views {
        "remote_views"
    } else if a.git_refs != b.git_refs {
        "git_refs"
    } else if a.git_heads != b.git_heads {
        "git_heads"
    } else if a.wc_commit_ids != b.wc_commit_ids {
        "wc_commit_ids"
    } else {
        "none"
    }
}

fn op_diff_field(a: &Operation, b: &Operation) -> &'static str {
    if a.view_id != b.view_id {
        "view_id"
    } else if a.parents != b.parents {
        "parents"
    } else if a.metadata.time != b.metadata.time {
        "time"
    } else if a.metadata.description != b.metadata.description {
        "description"
    } else if a.metadata.hostname != b.metadata.hostname {
        "hostname"
    } else if a.metadata.username != b.metadata.username {
        "username"
    } else if a.metadata.is_snapshot != b.metadata.is_snapshot {
        "is_snapshot"
    } else if a.metadata.workspace_name != b.metadata.workspace_name {
        "workspace_name"
    } else if a.metadata.attributes != b.metadata.attributes {
        "attributes"
    } else if a.commit_predecessors != b.commit_predecessors {
        "commit_predecessors"
    } else {
        "none"
    }
}

fn root_data() -> RootOperationData {
    RootOperationData { root_commit_id: CommitId::new(vec![0; 4]) }
}

fn new_store_dir(root: &Path, name: &str) -> PathBuf {
    let dir = root.join(name);
    let _ = std::fs::remove_dir_all(&dir);
    std::fs::create_dir_all(&dir).unwrap_or_else(|e| machinery_failure(&format!("scratch: {e}")));
    if let Err(e) = SimpleOpStore::init(&dir, root_data()) {
        machinery_failure(&format!("cannot initialise op store: {e}"));
    }
    dir
}

type Failures = Vec<(String, String)>;

/// All single-value clauses for a view. `expect_read` is what must come back (the view itself,
/// except in the separately counted "explicit absent local bookmark" observation).
fn check_view(dir: &Path, view: &View, expect_read: &View, fails: &mut Failures) -> Vec<u8> {
    let bytes = hashed_bytes(view);
    let twin = rebuilt_view(view);
    if &twin != view {
        machinery_failure("rebuilt view is not equal to the original");
    }
    if hashed_bytes(&twin) != bytes {
        fails.push((
            "C16/view/hash-depends-on-insertion-order".into(),
            "the bytes fed to the hasher differ for two equal views built in different orders".into(),
        ));
    }
    let writer = SimpleOpStore::load(dir, root_data());
    let id = match catch(|| writer.write_view(view).block_on()) {
        Ok(Ok(id)) => id,
        Ok(Err(e)) => {
            fails.push(("C16/view/write-failed".into(), format!("write_view failed: {e}")));
            return bytes;
        }
        Err(p) => {
            fails.push(("C16/view/write-failed".into(), format!("write_view panicked: {p}")));
            return bytes;
        }
    };
    if id.as_bytes() != Blake2b512::digest(&bytes).as_slice() {
        fails.push((
            "C16/view/id-not-hash-of-encoding".into(),
            format!("view id {} is not BLAKE2b-512 of the bytes ContentHash feeds to the hasher", id.hex()),
        ));
    }
    let reader = SimpleOpStore::load(dir, root_data());
    match catch(|| reader.read_view(&id).block_on()) {
        Ok(Ok(read)) => {
            if &read != expect_read {
                let field = view_diff_field(&read, expect_read);
                fails.push((
                    format!("C16/view/roundtrip/{field}"),
                    format!(
                        "read_view(write_view(v)) != v in {field}: read back {}",
                        view_to_json(&read)
                    ),
                ));
            }
        }
        Ok(Err(e)) => fails.push(("C16/view/read-failed".into(), format!("read_view failed: {e}"))),
        Err(p) => fails.push(("C16/view/read-failed".into(), format!("read_view panicked: {p}"))),
    }
    match catch(|| reader.write_view(&twin).block_on()) {
        Ok(Ok(id2)) if id2 == id => {}
        other => fails.push((
            "C16/view/id-not-deterministic".into(),
            format!("writing an equal view again gave {:?} instead of {}", other.map(|r| r.map(|i| i.hex()).map_err(|e| e.to_string())), id.hex()),
        )),
    }
    let _ = std::fs::remove_file(dir.join("views").join(id.hex()));
    bytes
}

fn check_op(dir: &Path, op: &Operation, fails: &mut Failures) -> Vec<u8> {
    let bytes = hashed_bytes(op);
    let twin = rebuilt_op(op);
    if &twin != op {
        machinery_failure("rebuilt operation is not equal to the original");
    }
    if hashed_bytes(&twin) != bytes {
        fails.push((
            "C16/operation/hash-depends-on-insertion-order".into(),
            "the bytes fed to the hasher differ for two equal operations built in different orders".into(),
        ));
    }
    let writer = SimpleOpStore::load(dir, root_data());
    let id = match catch(|| writer.write_operation(op).block_on()) {
        Ok(Ok(id)) => id,
        Ok(Err(e)) => {
            fails.push(("C16/operation/write-failed".into(), format!("write_operation failed: {e}")));
            return bytes;
        }
        Err(p) => {
            fails.push(("C16/operation/write-failed".into(), format!("write_operation panicked: {p}")));
            return bytes;
        }
    };
    if id.as_bytes() != Blake2b512::digest(&bytes).as_slice() {
        fails.push((
            "C16/operation/id-not-hash-of-encoding".into(),
            format!("operation id {} is not BLAKE2b-512 of the hashed encoding", id.hex()),
        ));
    }
    let reader = SimpleOpStore::load(dir, root_data());
    match catch(|| reader.read_operation(&id).block_on()) {
        Ok(Ok(read)) => {
            if &read != op {
                let field = op_diff_field(&read, op);
                fails.push((
                    format!("C16/operation/roundtrip/{field}"),
                    format!(
                        "read_operation(write_operation(o)) != o in {field}: read back {}",
                        op_to_json(&read)
                    ),
                ));
            }
        }
        Ok(Err(e)) => {
            fails.push(("C16/operation/read-failed".into(), format!("read_operation failed: {e}")));
        }
        Err(p) => {
            fails.push(("C16/operation/read-failed".into(), format!("read_operation panicked: {p}")));
        }
    }
    match catch(|| reader.write_operation(&twin).block_on()) {
        Ok(Ok(id2)) if id2 == id => {}
        other => fails.push((
            "C16/operation/id-not-deterministic".into(),
            format!("writing an equal operation again gave {:?} instead of {}", other.map(|r| r.map(|i| i.hex()).map_err(|e| e.to_string())), id.hex()),
        )),
    }
    let _ = std::fs::remove_file(dir.join("operations").join(id.hex()));
    bytes
}

/// Injectivity of the hashed encoding over a set of (fingerprint, case) pairs: equal byte
/// strings must come from equal values. Returns (distinct values, duplicate values).
fn scan_collisions<T: PartialEq>(
    mut fps: Vec<(u64, u64)>,
    rebuild: &(dyn Fn(u64) -> T + Sync),
    bytes_of: &(dyn Fn(&T) -> Vec<u8> + Sync),
    mut report: impl FnMut(&T, &T),
) -> (u64, u64) {
    fps.par_sort_unstable();
    let mut distinct = 0u64;
    let mut dups = 0u64;
    let mut i = 0;
    while i < fps.len() {
        let mut j = i + 1;
        while j < fps.len() && fps[j].0 == fps[i].0 {
            j += 1;
        }
        if j == i + 1 {
            distinct += 1;
        } else {
            // same fingerprint: decide on the real byte strings and values
            let group: Vec<(T, Vec<u8>)> = fps[i..j]
                .iter()
                .map(|&(_, c)| {
                    let v = rebuild(c);
                    let b = bytes_of(&v);
                    (v, b)
                })
                .collect();
            let mut reps: Vec<usize> = vec![];
            for k in 0..group.len() {
                let mut dup = false;
                for &r in &reps {
                    if group[r].0 == group[k].0 {
                        dup = true;
                        break;
                    }
                    if group[r].1 == group[k].1 {
                        report(&group[r].0, &group[k].0);
                    }
                }
                if dup {
                    dups += 1;
                } else {
                    reps.push(k);
                    distinct += 1;
                }
            }
        }
        i = j;
    }
    (distinct, dups)
}

// ------------------------------------------------------------------------------------------

struct ViewStats {
    conflicted: Counter,
    absent_term_first: Counter,
    absent_term_middle: Counter,
    absent_term_last: Counter,
    remote_new: Counter,
    remote_tracked: Counter,
    remote_tag: Counter,
    remote_absent_target: Counter,
    two_workspaces: Counter,
    multi_head: Counter,
}

fn view_stats(v: &View, s: &ViewStats) -> bool {
    let mut targets: Vec<&RefTarget> = vec![];
    targets.extend(v.local_bookmarks.values());
    targets.extend(v.local_tags.values());
    targets.extend(v.git_refs.values());
    targets.extend(v.git_heads.values());
    let (mut rn, mut rt, mut rtag, mut rabs) = (false, false, false, false);
    for rv in v.remote_views.values() {
        for (is_tag, m) in [(false, &rv.bookmarks), (true, &rv.tags)] {
            for r in m.values() {
                targets.push(&r.target);
                rtag |= is_tag;
                rabs |= r.target.is_absent();
                match r.state {
                    RemoteRefState::New => rn = true,
                    RemoteRefState::Tracked => rt = true,
                }
            }
        }
    }
    let (mut c, mut af, mut am, mut al) = (false, false, false, false);
    for t in targets {
        let terms = t.as_merge().as_slice();
        if terms.len() >= 3 {
            c = true;
            af |= terms[0].is_none();
            al |= terms[terms.len() - 1].is_none();
            am |= terms[1..terms.len() - 1].iter().any(|x| x.is_none());
        }
    }
    let mut bump = |b: bool, ctr: &Counter| {
        if b {
            ctr.inc();
        }
    };
    bump(c, &s.conflicted);
    bump(af, &s.absent_term_first);
    bump(am, &s.absent_term_middle);
    bump(al, &s.absent_term_last);
    bump(rn, &s.remote_new);
    bump(rt, &s.remote_tracked);
    bump(rtag, &s.remote_tag);
    bump(rabs, &s.remote_absent_target);
    bump(v.wc_commit_ids.len() >= 2, &s.two_workspaces);
    bump(v.head_ids.len() >= 2, &s.multi_head);
    c || rn || rt
}

fn main() {
    let ctx = Ctx::from_args("C16", Level::Exploration);
    vcommon::silence_panics();
    let scratch = ctx.scratch().to_path_buf();

    if let Some((_sig, case)) = ctx.replay_case() {
        let dir = new_store_dir(&scratch, "replay");
        let mut fails = vec![];
        match case["kind"].as_str().unwrap_or("") {
            "view" => {
                let v = view_from_json(&case["view"]);
                check_view(&dir, &v, &v, &mut fails);
            }
            "operation" => {
                let o = op_from_json(&case["operation"]);
                check_op(&dir, &o, &mut fails);
            }
            "view-collision" => {
                let a = view_from_json(&case["a"]);
                let b = view_from_json(&case["b"]);
                if a != b && hashed_bytes(&a) == hashed_bytes(&b) {
                    fails.push((
                        "C16/view/hash-encoding-collision".into(),
                        "two different views feed identical bytes to the hasher".into(),
                    ));
                }
            }
            "operation-collision" => {
                let a = op_from_json(&case["a"]);
                let b = op_from_json(&case["b"]);
                if a != b && hashed_bytes(&a) == hashed_bytes(&b) {
                    fails.push((
                        "C16/operation/hash-encoding-collision".into(),
                        "two different operations feed identical bytes to the hasher".into(),
                    ));
                }
            }
            "view-absent-local-bookmark" => {
                let v = view_from_json(&case["view"]);
                let mut n = v.clone();
                n.local_bookmarks.retain(|_, t| t.is_present());
                check_view(&dir, &v, &n, &mut fails);
            }
            other => machinery_failure(&format!("unknown replay kind {other}")),
        }
        for (sig, msg) in fails {
            ctx.violation(&sig, msg, case.clone());
        }
        ctx.finish(Coverage { evaluations: 1, ..Default::default() });
    }

    let evals = Counter::new();
    let nontrivial = Counter::new();
    let view_samples = Samples::new(3);
    let op_samples = Samples::new(3);
    let mut extra: BTreeMap<String, Value> = BTreeMap::new();

    // ---------------- views ----------------
    // pass A: pairs of slots over the full target alphabet (thorough: with all 243 5-term targets);
    // pass B (thorough): triples of slots over the quick alphabet.
    let vstats = ViewStats {
        conflicted: Counter::new(),
        absent_term_first: Counter::new(),
        absent_term_middle: Counter::new(),
        absent_term_last: Counter::new(),
        remote_new: Counter::new(),
        remote_tracked: Counter::new(),
        remote_tag: Counter::new(),
        remote_absent_target: Counter::new(),
        two_workspaces: Counter::new(),
        multi_head: Counter::new(),
    };
    let mut view_passes: Vec<(&str, u8, usize)> = vec![("pairs", ctx.pick(1, 2), 2)];
    if ctx.thorough() {
        view_passes.push(("triples-small-alphabet", 0, 3));
    }
    let mut views_total = 0u64;
    let mut view_distinct_total = 0u64;
    for (pass_name, level, t) in view_passes {
        let space = ViewSpace::new(level);
        let task_list = tasks(&space.dims, &space.bases);
        let fps: Vec<(u64, u64)> = task_list
            .par_iter()
            .enumerate()
            .flat_map_iter(|(tn, task)| {
                let dir = new_store_dir(&scratch, &format!("v-{pass_name}-{tn}"));
                let base = &space.bases[task.base];
                let mut out = vec![];
                run_task(task, &space.dims, base, t, &mut |idx| {
                    let view = space.build(idx);
                    let mut fails = vec![];
                    let bytes = check_view(&dir, &view, &view, &mut fails);
                    evals.inc();
                    let nt = view_stats(&view, &vstats);
                    if nt {
                        nontrivial.inc();
                        // the populated base value, and a few cases with a 5-term target
                        let five = |k: u16| k > 0 && space.targets[(k as usize - 1) / 2].as_merge().as_slice().len() == 5;
                        if idx == &base[..] && task.base == 1
                            || (task.base == 0 && five(idx[S_RV + 3]) && idx[S_RV + 3] % 2 == 0 && idx[S_WC] != 0)
                        {
                            view_samples.offer(|| json!({"kind": "view", "view": view_to_json(&view)}));
                        }
                    }
                    for (sig, msg) in fails {
                        ctx.violation(&sig, msg, json!({"kind": "view", "view": view_to_json(&view)}));
                    }
                    out.push((fnv(&bytes), encode(task.base, base, idx)));
                });
                let _ = std::fs::remove_dir_all(&dir);
                out
            })
            .collect();
        let n = fps.len() as u64;
        views_total += n;
        let (distinct, dups) = scan_collisions(
            fps,
            &|code| space.build(&decode(code, &space.bases)),
            &|v: &View| hashed_bytes(v),
            |a, b| {
                ctx.violation(
                    "C16/view/hash-encoding-collision",
                    "two different views feed identical bytes to the hasher",
                    json!({"kind": "view-collision", "a": view_to_json(a), "b": view_to_json(b)}),
                );
            },
        );
        view_distinct_total += distinct;
        extra.insert(format!("views_{pass_name}"), json!({"cases": n, "distinct_values": distinct,
            "duplicates": dups, "slots": VIEW_SLOTS, "ref_target_alphabet": space.targets.len(), "t": t}));
    }

    // Observation (not part of the verdict unless the result is neither the view nor its
    // normal form): `local_bookmarks` entries whose target is absent. `jj_lib::view::View`
    // never stores such an entry (set_local_bookmark_target removes it), and the on-disk
    // form cannot represent it, so it is read back without the entry.
    let absent_lb_cases = Counter::new();
    {
        let space = ViewSpace::new(1);
        let dir = new_store_dir(&scratch, "v-absent-lb");
        for base in &space.bases {
            for slot in [S_LB, S_LB + 1] {
                for other in 0..VIEW_SLOTS {
                    if other == slot {
                        continue;
                    }
                    for v in 0..space.dims[other] as u16 {
                        let mut idx = base.clone();
                        idx[other] = v;
                        idx[slot] = 0;
                        let mut view = space.build(&idx);
                        let name = if slot == S_LB { N0 } else { N1 };
                        let expect = view.clone();
                        view.local_bookmarks.insert(RefNameBuf::from(name), RefTarget::absent());
                        let mut fails = vec![];
                        check_view(&dir, &view, &expect, &mut fails);
                        absent_lb_cases.inc();
                        for (sig, msg) in fails {
                            ctx.violation(
                                &sig,
                                msg,
                                json!({"kind": "view-absent-local-bookmark", "view": view_to_json(&view)}),
                            );
                        }
                    }
                }
            }
        }
    }
    extra.insert(
        "views_with_explicit_absent_local_bookmark_entry".into(),
        json!({"cases": absent_lb_cases.get(),
               "expected": "read back without that entry (normal form of jj_lib::view::View); everything else identical"}),
    );

    // ---------------- operations ----------------
    let ospace = OpSpace::new();
    let ot = ctx.pick(2, 3);
    let o_pred_none = Counter::new();
    let o_pred_empty = Counter::new();
    let o_pred_some = Counter::new();
    let o_multi_parent = Counter::new();
    let o_negative_time = Counter::new();
    let o_ws_none = Counter::new();
    let o_snapshot = Counter::new();
    let ops_evals = Counter::new();
    let otasks = tasks(&ospace.dims, &ospace.bases);
    let ofps: Vec<(u64, u64)> = otasks
        .par_iter()
        .enumerate()
        .flat_map_iter(|(tn, task)| {
            let dir = new_store_dir(&scratch, &format!("o-{tn}"));
            let base = &ospace.bases[task.base];
            let mut out = vec![];
            run_task(task, &ospace.dims, base, ot, &mut |idx| {
                let op = ospace.build(idx);
                let mut fails = vec![];
                let bytes = check_op(&dir, &op, &mut fails);
                evals.inc();
                ops_evals.inc();
                match &op.commit_predecessors {
                    None => o_pred_none.inc(),
                    Some(m) if m.is_empty() => o_pred_empty.inc(),
                    Some(_) => o_pred_some.inc(),
                }
                if op.parents.len() > 1 {
                    o_multi_parent.inc();
                }
                if op.metadata.time.start.timestamp.0 < 0 || op.metadata.time.end.timestamp.0 < 0 {
                    o_negative_time.inc();
                }
                if op.metadata.workspace_name.is_none() {
                    o_ws_none.inc();
                }
                if op.metadata.is_snapshot {
                    o_snapshot.inc();
                }
                let nt = op.parents.len() > 1
                    || op.commit_predecessors.as_ref().is_some_and(|m| !m.is_empty())
                    || !op.metadata.attributes.is_empty();
                if nt {
                    nontrivial.inc();
                    if task.base == 1 && (idx == &base[..] || idx[O_PREDS] > 40 && idx[O_START_MS] == 1) {
                        op_samples.offer(|| json!({"kind": "operation", "operation": op_to_json(&op)}));
                    }
                }
                for (sig, msg) in fails {
                    ctx.violation(&sig, msg, json!({"kind": "operation", "operation": op_to_json(&op)}));
                }
                out.push((fnv(&bytes), encode(task.base, base, idx)));
            });
            let _ = std::fs::remove_dir_all(&dir);
            out
        })
        .collect();
    let (odistinct, odups) = scan_collisions(
        ofps,
        &|code| ospace.build(&decode(code, &ospace.bases)),
        &|o: &Operation| hashed_bytes(o),
        |a, b| {
            ctx.violation(
                "C16/operation/hash-encoding-collision",
                "two different operations feed identical bytes to the hasher",
                json!({"kind": "operation-collision", "a": op_to_json(a), "b": op_to_json(b)}),
            );
        },
    );

    // vacuity
    let vac = [
        ("views_conflicted_target", vstats.conflicted.get()),
        ("views_absent_first_term", vstats.absent_term_first.get()),
        ("views_absent_middle_term", vstats.absent_term_middle.get()),
        ("views_absent_last_term", vstats.absent_term_last.get()),
        ("views_remote_new", vstats.remote_new.get()),
        ("views_remote_tracked", vstats.remote_tracked.get()),
        ("views_remote_tag", vstats.remote_tag.get()),
        ("views_remote_absent_target", vstats.remote_absent_target.get()),
        ("views_two_workspaces", vstats.two_workspaces.get()),
        ("views_multi_head", vstats.multi_head.get()),
        ("ops_predecessors_none", o_pred_none.get()),
        ("ops_predecessors_empty", o_pred_empty.get()),
        ("ops_predecessors_nonempty", o_pred_some.get()),
        ("ops_multi_parent", o_multi_parent.get()),
        ("ops_negative_time", o_negative_time.get()),
        ("ops_workspace_none", o_ws_none.get()),
        ("ops_is_snapshot", o_snapshot.get()),
    ];
    for (k, n) in vac {
        if n == 0 {
            machinery_failure(&format!("vacuous: counter {k} is zero"));
        }
        extra.insert(k.to_string(), json!(n));
    }
    extra.insert("views".into(), json!(views_total));
    extra.insert("views_distinct_values".into(), json!(view_distinct_total));
    extra.insert(
        "operations".into(),
        json!({"cases": ops_evals.get(), "distinct_values": odistinct, "duplicates": odups, "slots": OP_SLOTS, "t": ot}),
    );

    let cov = Coverage {
        evaluations: evals.get(),
        distinct_nontrivial: nontrivial.get(),
        rule: "values = every index vector that differs from one of two base values (empty / every field \
               populated) in at most t slots, each generated once (distinctness is re-measured on the \
               hashed byte strings: see *_distinct_values); a slot is one map entry or field with its own \
               alphabet (ref targets: every 1- and 3-term merge over {absent, I0, I1} plus 5-term ones; \
               remote refs x {New, Tracked}; head subsets; workspaces; operation parents, times, strings, \
               attribute maps, predecessor maps). non-trivial = a view with a conflicted target or a remote \
               ref, or an operation with several parents, attributes or recorded predecessors"
            .into(),
        samples: view_samples.take().into_iter().chain(op_samples.take()).collect(),
        exhaustive: true,
        extra,
        assumptions: vec![
            "only values today's writer can be given are round-tripped; legacy on-disk forms are out of scope".into(),
            "local_bookmarks entries with an absent target are outside the domain (jj_lib::view::View never stores one); they are exercised and counted separately and must read back as the same view without the entry".into(),
            "operations have at least one parent (write_operation asserts it) and 64-byte parent/view ids".into(),
            "injectivity of the on-disk proto encoding is implied by the round trip and not checked separately".into(),
        ],
        ..Default::default()
    };
    ctx.finish(cov);
}

//! C14 — The operation-head store never loses a published operation.
//!
//! Every interleaving (iterative preemption bounding) of 2–3 simulated processes — each an
//! OS thread with its own `RepoLoader` on one shared repository directory — at the op-heads
//! store's read / add / remove steps and lock acquisitions (hooks in jj-lib, feature
//! `jj_vcs_jj_verif`), with working and with ineffective locks, plus every execution in which
//! one process is killed at one scheduling point.

use std::collections::BTreeMap;
use std::collections::BTreeSet;
use std::path::Path;
use std::path::PathBuf;
use std::sync::Arc;
use std::sync::Mutex;

use jj_lib::config::ConfigLayer;
use jj_lib::config::ConfigSource;
use jj_lib::config::StackedConfig;
use jj_lib::object_id::ObjectId as _;
use jj_lib::op_store::OperationId;
use jj_lib::repo::ReadonlyRepo;
use jj_lib::repo::Repo as _;
use jj_lib::repo::RepoLoader;
use jj_lib::repo::StoreFactories;
use jj_lib::settings::UserSettings;
use jj_lib::simple_backend::SimpleBackend;
use pollster::FutureExt as _;
use serde_json::Value;
use serde_json::json;
use vcommon::Coverage;
use vcommon::Ctx;
use vcommon::Level;
use vcommon::sched;
use vcommon::sched::Execution;
use vcommon::sched::ExploreConfig;
use vcommon::sched::RunOpts;
use vcommon::sched::ThreadEnd;

struct Adapter;
impl jj_lib::verif_hooks::Handler for Adapter {
    fn point(&self, kind: &str, detail: &str) {
        sched::point(kind, detail);
    }
    fn lock_path(&self, path: PathBuf) -> PathBuf {
        sched::lock_path(path)
    }
    fn lock_acquire(&self, path: &Path) {
        sched::lock_acquire(path);
    }
    fn lock_released(&self, path: &Path) {
        sched::lock_released(path);
    }
}

fn settings_for(i: usize) -> UserSettings {
    let text = format!(
        r#"
user.name = "P{i}"
user.email = "p{i}@example.com"
operation.username = "u"
operation.hostname = "h"
debug.randomness-seed = {seed}
debug.commit-timestamp = "2001-02-03T04:05:{s:02}+00:00"
debug.operation-timestamp = "2001-02-03T04:06:{s:02}+00:00"
"#,
        seed = 1000 + i,
        s = i + 1
    );
    // Parsing the default configuration is slow; cache the parsed stack per process index.
    // `UserSettings::from_config` creates a fresh RNG from the seed, so ids stay a function
    // of the schedule.
    static CACHE: Mutex<BTreeMap<usize, StackedConfig>> = Mutex::new(BTreeMap::new());
    let config = CACHE
        .lock()
        .unwrap()
        .entry(i)
        .or_insert_with(|| {
            let mut config = StackedConfig::with_defaults();
            config.add_layer(ConfigLayer::parse(ConfigSource::User, &text).unwrap());
            config
        })
        .clone();
    UserSettings::from_config(config).unwrap()
}

fn factories() -> StoreFactories {
    jj_lib::default_backend_factories::default_backend_factories()
}

fn copy_dir(src: &Path, dst: &Path) {
    std::fs::create_dir_all(dst).unwrap();
    for e in std::fs::read_dir(src).unwrap() {
        let e = e.unwrap();
        let p = e.path();
        let d = dst.join(e.file_name());
        if e.file_type().unwrap().is_dir() {
            copy_dir(&p, &d);
        } else {
            std::fs::copy(&p, &d).unwrap();
        }
    }
}

/// Creates a template repository (simple backend, simple op store, simple op-heads store,
/// default index) with `heads` divergent operation heads.
fn make_template(dir: &Path, heads: usize) {
    std::fs::create_dir_all(dir).unwrap();
    let settings = settings_for(20);
    let repo = ReadonlyRepo::init(
        &settings,
        dir,
        &|_settings, store_path| Ok(Box::new(SimpleBackend::init(store_path))),
        jj_lib::signing::Signer::from_settings(&settings).unwrap(),
        ReadonlyRepo::default_op_store_initializer(),
        ReadonlyRepo::default_op_heads_store_initializer(),
        ReadonlyRepo::default_index_store_initializer(),
        ReadonlyRepo::default_submodule_store_initializer(),
    )
    .block_on()
    .unwrap();
    // one linear operation first, so that the initial head is not the root operation
    let mut tx = repo.start_transaction();
    write_commit(tx.repo_mut(), "base");
    let repo = tx.commit("base").block_on().unwrap();
    if heads >= 2 {
        for k in 0..heads {
            let settings = settings_for(30 + k);
            let loader = RepoLoader::init_from_file_system(&settings, dir, &factories()).unwrap();
            let base = loader.load_at(repo.operation()).block_on().unwrap();
            let mut tx = base.start_transaction();
            write_commit(tx.repo_mut(), &format!("init{k}"));
            tx.commit(format!("init{k}")).block_on().unwrap();
        }
    }
}

fn write_commit(mut_repo: &mut jj_lib::repo::MutableRepo, desc: &str) {
    let root = mut_repo.store().root_commit_id().clone();
    let tree = mut_repo.store().empty_merged_tree();
    mut_repo
        .new_commit(vec![root], tree)
        .set_description(desc)
        .write()
        .block_on()
        .unwrap();
}

#[derive(Clone, Copy, Debug, PartialEq, Eq, serde::Serialize, serde::Deserialize)]
enum Script {
    /// load at head, write one commit, commit the transaction (publishes an operation)
    P,
    /// load at head (reconciles divergent heads)
    R,
    /// load at head twice, then publish (a reader that re-reads)
    RP,
}

fn run_script(script: Script, i: usize, repo_dir: &Path) -> Result<(), String> {
    let settings = settings_for(i);
    let loader = RepoLoader::init_from_file_system(&settings, repo_dir, &factories())
        .map_err(|e| format!("loader: {e}"))?;
    let chain = |e: &dyn std::error::Error| {
        let mut s = e.to_string();
        let mut cur = e.source();
        while let Some(c) = cur {
            s.push_str(": ");
            s.push_str(&c.to_string());
            cur = c.source();
        }
        s
    };
    let repo = loader.load_at_head().block_on().map_err(|e| format!("load_at_head: {}", chain(&e)))?;
    match script {
        Script::R => Ok(()),
        Script::P | Script::RP => {
            let repo = if script == Script::RP {
                loader.load_at_head().block_on().map_err(|e| format!("load_at_head: {}", chain(&e)))?
            } else {
                repo
            };
            let mut tx = repo.start_transaction();
            write_commit(tx.repo_mut(), &format!("commit by p{i}"));
            tx.commit(format!("op by p{i}"))
                .block_on()
                .map_err(|e| format!("commit: {}", chain(&e)))?;
            Ok(())
        }
    }
}

#[derive(Clone, Debug, serde::Serialize, serde::Deserialize)]
struct Config {
    scripts: Vec<Script>,
    initial_heads: usize,
    ineffective_locks: bool,
    max_crashes: usize,
}

struct OpGraph {
    loader: RepoLoader,
    parents: BTreeMap<OperationId, Vec<OperationId>>,
}

impl OpGraph {
    fn parents_of(&mut self, id: &OperationId) -> Result<Vec<OperationId>, String> {
        if let Some(p) = self.parents.get(id) {
            return Ok(p.clone());
        }
        let op = self
            .loader
            .op_store()
            .read_operation(id)
            .block_on()
            .map_err(|e| format!("cannot read operation {}: {e}", id.hex()))?;
        self.parents.insert(id.clone(), op.parents.clone());
        Ok(op.parents)
    }
    fn ancestors(&mut self, heads: &[OperationId]) -> Result<BTreeSet<OperationId>, String> {
        let mut seen = BTreeSet::new();
        let mut stack: Vec<OperationId> = heads.to_vec();
        while let Some(id) = stack.pop() {
            if !seen.insert(id.clone()) {
                continue;
            }
            for p in self.parents_of(&id)? {
                stack.push(p);
            }
        }
        Ok(seen)
    }
}

fn list_heads(repo_dir: &Path) -> Vec<OperationId> {
    let mut v = vec![];
    for e in std::fs::read_dir(repo_dir.join("op_heads").join("heads")).unwrap() {
        let name = e.unwrap().file_name().to_string_lossy().to_string();
        if name.len() == 128 && name.bytes().all(|b| b.is_ascii_hexdigit()) {
            v.push(OperationId::try_from_hex(&name).unwrap());
        }
    }
    v.sort();
    v
}

struct RunResult {
    execution: Execution,
    violations: Vec<(String, String)>,
    published: usize,
    /// a reconciliation (operation with several parents) happened in this execution
    merged_heads_seen: bool,
    other_errors: u64,
}

static EXEC_COUNTER: std::sync::atomic::AtomicU64 = std::sync::atomic::AtomicU64::new(0);

fn run_one(templates: &Path, scratch: &Path, cfg: &Config, prefix: &[usize]) -> RunResult {
    let n = EXEC_COUNTER.fetch_add(1, std::sync::atomic::Ordering::Relaxed);
    let repo_dir = scratch.join(format!("x{n}"));
    copy_dir(&templates.join(format!("h{}", cfg.initial_heads)), &repo_dir);
    let initial_heads = list_heads(&repo_dir);
    let outcomes: Arc<Mutex<Vec<Option<Result<(), String>>>>> =
        Arc::new(Mutex::new(vec![None; cfg.scripts.len()]));
    let bodies: Vec<Box<dyn FnOnce() + Send>> = cfg
        .scripts
        .iter()
        .enumerate()
        .map(|(i, &script)| {
            let repo_dir = repo_dir.clone();
            let outcomes = outcomes.clone();
            Box::new(move || {
                let r = run_script(script, i, &repo_dir);
                outcomes.lock().unwrap()[i] = Some(r);
            }) as Box<dyn FnOnce() + Send>
        })
        .collect();
    let mut violations: Vec<(String, String)> = vec![];
    let mut graph = OpGraph {
        loader: RepoLoader::init_from_file_system(&settings_for(40), &repo_dir, &factories()).unwrap(),
        parents: BTreeMap::new(),
    };
    let mut max_heads = 0;
    let mut other_errors = 0u64;
    let lockmode = if cfg.ineffective_locks { "nolock" } else { "lock" };
    let mut monitor = |view: &sched::PointView| {
        // published so far = initial heads + every completed opheads.add
        let mut published: Vec<OperationId> = initial_heads.clone();
        for ev in view.trace {
            if ev.kind == "opheads.add" {
                published.push(OperationId::try_from_hex(&ev.detail).unwrap());
            }
        }
        let heads = list_heads(&repo_dir);
        max_heads = max_heads.max(heads.len());
        if heads.is_empty() {
            violations.push((
                format!("C14/{lockmode}/no-head-at-point"),
                "the heads directory lists no operation at a scheduling point".into(),
            ));
            return;
        }
        match graph.ancestors(&heads) {
            Ok(anc) => {
                for p in &published {
                    if !anc.contains(p) {
                        violations.push((
                            format!("C14/{lockmode}/published-op-unreachable"),
                            format!(
                                "published operation {} is not an ancestor of any current head {:?}",
                                &p.hex()[..12],
                                heads.iter().map(|h| h.hex()[..12].to_string()).collect::<Vec<_>>()
                            ),
                        ));
                    }
                }
            }
            Err(e) => violations.push((format!("C14/{lockmode}/head-names-missing-op"), e)),
        }
    };
    let opts = RunOpts {
        ineffective_locks: cfg.ineffective_locks,
        max_crashes: cfg.max_crashes,
    };
    let execution = sched::run_execution(bodies, prefix, &opts, &mut monitor);
    // per-thread outcomes
    if execution.deadlock {
        violations.push((format!("C14/{lockmode}/deadlock"), "no enabled process".into()));
    }
    let outcomes = outcomes.lock().unwrap().clone();
    for (i, end) in execution.ends.iter().enumerate() {
        match end {
            ThreadEnd::Panicked(msg) => violations.push((
                format!("C14/{lockmode}/panic"),
                format!("process {i} ({:?}) panicked: {msg}", cfg.scripts[i]),
            )),
            ThreadEnd::Done => {
                if let Some(Err(e)) = &outcomes[i] {
                    // "readers always find at least one head" and "published operations stay
                    // reachable" are what the statement promises; other failures of a process
                    // (none occur on the unchanged tree) are counted, not judged.
                    if e.contains("no head operation") {
                        violations.push((
                            format!("C14/{lockmode}/reader-found-no-head"),
                            format!("process {i} ({:?}) failed: {e}", cfg.scripts[i]),
                        ));
                    } else if e.contains("not found") {
                        violations.push((
                            format!("C14/{lockmode}/reader-found-dangling-head"),
                            format!("process {i} ({:?}) failed: {e}", cfg.scripts[i]),
                        ));
                    } else {
                        other_errors += 1;
                    }
                }
            }
            ThreadEnd::Crashed => {}
        }
    }
    // final: activity has stopped; load sequentially
    let mut published: Vec<OperationId> = initial_heads.clone();
    for ev in &execution.trace {
        if ev.kind == "opheads.add" {
            published.push(OperationId::try_from_hex(&ev.detail).unwrap());
        }
    }
    let final_loader =
        RepoLoader::init_from_file_system(&settings_for(41), &repo_dir, &factories()).unwrap();
    match vcommon::catch(|| final_loader.load_at_head().block_on()) {
        Err(p) => violations.push((format!("C14/{lockmode}/final-load-panic"), p)),
        Ok(Err(e)) => violations.push((format!("C14/{lockmode}/final-load-error"), format!("{e}"))),
        Ok(Ok(repo)) => {
            let heads = list_heads(&repo_dir);
            if heads.len() != 1 {
                violations.push((
                    format!("C14/{lockmode}/final-multiple-heads"),
                    format!("{} heads after a sequential load", heads.len()),
                ));
            } else if &heads[0] != repo.op_id() {
                violations.push((
                    format!("C14/{lockmode}/final-head-mismatch"),
                    "loaded operation is not the single head".into(),
                ));
            }
            match graph.ancestors(&heads) {
                Ok(anc) => {
                    for p in &published {
                        if !anc.contains(p) {
                            violations.push((
                                format!("C14/{lockmode}/final-published-op-lost"),
                                format!("published operation {} is not an ancestor of the final head", &p.hex()[..12]),
                            ));
                        }
                    }
                }
                Err(e) => violations.push((format!("C14/{lockmode}/final-head-names-missing-op"), e)),
            }
            // a second load changes nothing
            let again = RepoLoader::init_from_file_system(&settings_for(42), &repo_dir, &factories())
                .unwrap()
                .load_at_head()
                .block_on();
            match again {
                Ok(r2) if r2.op_id() == repo.op_id() && list_heads(&repo_dir) == heads => {}
                _ => violations.push((
                    format!("C14/{lockmode}/final-load-not-idempotent"),
                    "second sequential load changed the heads".into(),
                )),
            }
            // the merged view must contain every commit written by a process that finished
            for (i, end) in execution.ends.iter().enumerate() {
                if *end == ThreadEnd::Done
                    && matches!(cfg.scripts[i], Script::P | Script::RP)
                    && matches!(outcomes[i], Some(Ok(())))
                {
                    let want = format!("commit by p{i}");
                    let found = repo.view().heads().iter().any(|id| {
                        repo.store().get_commit(id).map(|c| c.description() == want).unwrap_or(false)
                    });
                    if !found {
                        violations.push((
                            format!("C14/{lockmode}/final-commit-missing"),
                            format!("the commit written by process {i} is not a visible head after the final load"),
                        ));
                    }
                }
            }
        }
    }
    let _ = std::fs::remove_dir_all(&repo_dir);
    RunResult {
        published: published.len() - initial_heads.len(),
        merged_heads_seen: max_heads > 1 && graph.parents.values().any(|p| p.len() > 1),
        other_errors,
        execution,
        violations,
    }
}

fn configs(quick: bool) -> Vec<(Config, usize)> {
    use Script::*;
    let mut out = vec![];
    let two: Vec<Vec<Script>> = vec![vec![P, P], vec![P, R], vec![R, R], vec![RP, P]];
    let three: Vec<Vec<Script>> = if quick {
        vec![vec![P, P, R]]
    } else {
        vec![vec![P, P, P], vec![P, P, R], vec![P, R, R], vec![R, R, R], vec![RP, P, R]]
    };
    for ineffective in [false, true] {
        for heads in [1usize, 2, 3] {
            if quick && heads == 3 {
                continue;
            }
            for s in &two {
                if quick && heads == 1 && s == &vec![R, R] {
                    continue; // nothing to reconcile and nothing published
                }
                if quick && s == &vec![RP, P] {
                    continue; // a variant of [P, P]; thorough only
                }
                // no crash: high preemption bound (2 processes have few points)
                out.push((
                    Config { scripts: s.clone(), initial_heads: heads, ineffective_locks: ineffective, max_crashes: 0 },
                    if quick { 3 } else { 6 },
                ));
                out.push((
                    Config { scripts: s.clone(), initial_heads: heads, ineffective_locks: ineffective, max_crashes: 1 },
                    if quick { 1 } else { 3 },
                ));
            }
            for s in &three {
                if quick && heads != 2 {
                    continue;
                }
                out.push((
                    Config { scripts: s.clone(), initial_heads: heads, ineffective_locks: ineffective, max_crashes: 0 },
                    if quick { 1 } else { 2 },
                ));
                if !quick {
                    out.push((
                        Config { scripts: s.clone(), initial_heads: heads, ineffective_locks: ineffective, max_crashes: 1 },
                        1,
                    ));
                }
            }
        }
    }
    out
}

fn case_json(cfg: &Config, choices: &[usize], x: &Execution) -> Value {
    json!({
        "config": cfg,
        "choices": choices,
        "trace": x.trace.iter().map(|e| format!("p{} {} {}", e.thread, e.kind, if e.detail.len() > 12 { &e.detail[..12] } else { &e.detail })).collect::<Vec<_>>(),
    })
}

fn main() {
    let ctx = Ctx::from_args("C14", Level::ModelChecking);
    vcommon::silence_panics();
    jj_lib::verif_hooks::set_handler(Some(Arc::new(Adapter)));
    let templates = ctx.scratch().join("templates");
    for h in [1usize, 2, 3] {
        make_template(&templates.join(format!("h{h}")), h);
        let n = list_heads(&templates.join(format!("h{h}"))).len();
        if n != h {
            vcommon::machinery_failure(&format!("template with {h} heads has {n}"));
        }
    }
    let scratch = ctx.scratch().join("runs");
    std::fs::create_dir_all(&scratch).unwrap();

    if let Some((_sig, case)) = ctx.replay_case() {
        let cfg: Config = serde_json::from_value(case["config"].clone()).unwrap();
        let choices: Vec<usize> = serde_json::from_value(case["choices"].clone()).unwrap();
        let r = run_one(&templates, &scratch, &cfg, &choices);
        for (sig, msg) in &r.violations {
            ctx.violation(sig, msg.clone(), case_json(&cfg, &choices, &r.execution));
        }
        println!("replayed trace:");
        for e in &r.execution.trace {
            println!("  p{} {} {}", e.thread, e.kind, e.detail);
        }
        ctx.finish(Coverage { evaluations: 1, ..Default::default() });
    }

    // determinism gate: the same schedule twice gives the same trace
    {
        let cfg = Config { scripts: vec![Script::P, Script::R], initial_heads: 2, ineffective_locks: false, max_crashes: 0 };
        let a = run_one(&templates, &scratch, &cfg, &[1, 1, 0, 1]);
        let b = run_one(&templates, &scratch, &cfg, &a.execution.choices());
        if a.execution.trace != b.execution.trace {
            vcommon::machinery_failure("replaying one schedule twice gave different traces");
        }
    }

    let mut total = sched::ExploreStats::default();
    let mut per_config = vec![];
    let mut samples = vec![];
    let mut collided = 0u64;
    let mut other_errors_total = 0u64;
    let mut published_total = 0u64;
    let mut capped = false;
    let mut nontrivial = 0u64;
    let wall_cap = ctx.pick(50.0, 1500.0);
    for (cfg, bound) in configs(ctx.quick()) {
        let ecfg = ExploreConfig {
            preemption_bound: bound,
            max_crashes: cfg.max_crashes,
            max_executions: ctx.pick(200_000, 5_000_000),
            max_wall_s: (wall_cap - ctx.elapsed_s()).max(1.0),
        };
        let stat_collided = vcommon::Counter::new();
        let stat_published = vcommon::Counter::new();
        let stat_other_errors = vcommon::Counter::new();
        let stat_nontrivial = vcommon::Counter::new();
        let sample: Mutex<Option<Value>> = Mutex::new(None);
        let stats = sched::explore(&ecfg, |prefix| {
            let r = run_one(&templates, &scratch, &cfg, prefix);
            if r.merged_heads_seen {
                stat_collided.inc();
            }
            stat_other_errors.add(r.other_errors);
            stat_published.add(r.published as u64);
            if r.execution.preemptions > 0 || r.execution.crashes > 0 {
                stat_nontrivial.inc();
                let mut s = sample.lock().unwrap();
                if s.is_none() && r.execution.preemptions >= 1 {
                    *s = Some(case_json(&cfg, &r.execution.choices(), &r.execution));
                }
            }
            for (sig, msg) in &r.violations {
                ctx.violation(sig, msg.clone(), case_json(&cfg, &r.execution.choices(), &r.execution));
            }
            r.execution
        });
        if samples.len() < 4
            && let Some(s) = sample.lock().unwrap().take()
        {
            samples.push(s);
        }
        collided += stat_collided.get();
        other_errors_total += stat_other_errors.get();
        published_total += stat_published.get();
        nontrivial += stat_nontrivial.get();
        total.executions += stats.executions;
        total.decisions += stats.decisions;
        total.with_crash += stats.with_crash;
        total.deadlocks += stats.deadlocks;
        total.distinct_traces += stats.distinct_traces;
        total.max_preemptions_seen = total.max_preemptions_seen.max(stats.max_preemptions_seen);
        capped |= stats.capped;
        per_config.push(json!({
            "scripts": cfg.scripts, "initial_heads": cfg.initial_heads, "ineffective_locks": cfg.ineffective_locks,
            "max_crashes": cfg.max_crashes, "preemption_bound": bound, "executions": stats.executions,
            "distinct_traces": stats.distinct_traces, "with_crash": stats.with_crash, "capped": stats.capped,
            "executions_with_a_reconciling_merge": stat_collided.get(),
        }));
    }
    if collided == 0 || published_total == 0 {
        vcommon::machinery_failure("vacuous exploration: no execution ever had divergent heads / published anything");
    }
    let cov = Coverage {
        evaluations: total.executions,
        distinct_nontrivial: total.distinct_traces.min(nontrivial),
        rule: "every choice sequence (which process runs next at each op-heads read/add/remove step and lock \
               acquisition; optionally one crash of one process at one point) within the preemption bound listed \
               per configuration; each execution runs the real RepoLoader/Transaction code on a fresh copy of the \
               repository; non-trivial = executions with at least one preemption or a crash (distinct traces counted \
               by hashing the event sequence)".into(),
        samples,
        exhaustive: !capped,
        states: Some(total.decisions),
        transitions: Some(total.decisions),
        traces_validated_against_impl: Some(total.executions),
        extra: [
            ("schedules".to_string(), json!(total.executions)),
            ("distinct_traces".to_string(), json!(total.distinct_traces)),
            ("executions_with_crash".to_string(), json!(total.with_crash)),
            ("executions_with_a_reconciling_merge".to_string(), json!(collided)),
            ("process_errors_not_covered_by_the_statement".to_string(), json!(other_errors_total)),
            ("operations_published".to_string(), json!(published_total)),
            ("max_preemptions_in_one_execution".to_string(), json!(total.max_preemptions_seen)),
            ("per_configuration".to_string(), json!(per_config)),
            ("capped".to_string(), json!(capped)),
            ("states_note".to_string(), json!("states/transitions = scheduling decisions at which the invariants were evaluated (stateless search: no state hashing)")),
        ]
        .into_iter()
        .collect(),
        assumptions: vec![
            "one readdir of the small heads directory is atomic; rename/unlink/create are atomic".into(),
            "steps on content-addressed files (operations, views, index segments; written by temp file + rename) commute and are not scheduling points".into(),
            "a crash is modelled by unwinding the victim thread at a scheduling point: its flock is released, nothing else of it runs".into(),
        ],
    };
    ctx.finish(cov);
}

//! C33 — Git ref names and jj bookmark/tag symbols map one-to-one.
//!
//! Exhaustive over every (kind, name, remote) with name/remote built from a small token
//! alphabet, and over every ref name `prefix · tokens`. The oracle is the pair of round-trip
//! laws of the statement, evaluated on the real `to_git_ref_name` (hook H5) and the public
//! `parse_git_ref`:
//!
//!  E. export: a symbol jj can export (valid remote or the reserved `git`, `to_git_ref_name`
//!     is `Some(r)` and `r` is a name Git accepts) has one ref name (the function is called
//!     twice) and `parse_git_ref(r)` gives back the same (kind, symbol); two different
//!     exportable symbols never share a ref name (a map over the whole set);
//!  I. import: a ref name Git can hold (gix's reference-name validation, i.e. what the ref
//!     iterator of `import_refs` can yield) that `parse_git_ref` maps to `(k, s)` is produced
//!     again by `to_git_ref_name(k, s)`.
//!
//! Names that Git itself rejects are still run through both functions; their outcome is
//! counted in the evidence but is not a violation, because jj can neither export nor import
//! them.

use std::collections::BTreeMap;
use std::sync::Mutex;

use jj_lib::git::GitRefKind;
use jj_lib::git::parse_git_ref;
use jj_lib::git::verif::is_valid_remote_name;
use jj_lib::git::verif::to_git_ref_name;
use jj_lib::ref_name::GitRefName;
use jj_lib::ref_name::RefName;
use jj_lib::ref_name::RemoteName;
use jj_lib::ref_name::RemoteRefSymbol;
use rayon::prelude::*;
use serde_json::Value;
use serde_json::json;
use vcommon::Counter;
use vcommon::Coverage;
use vcommon::Ctx;
use vcommon::Level;
use vcommon::Samples;
use vcommon::catch;

const NAME_TOKENS: &[&str] = &[
    "a", "/", "HEAD", "@", "git", "é", " ", ".", "refs", "heads", "tags", "remotes", "origin", "b",
];
const REMOTES: &[&str] = &[
    "git", "origin", "a", "é", "HEAD", "@", "refs", "heads", "a.b", "", " ", "a/b", "origin/a", "git/a", "a/",
    "/a",
];
const REF_PREFIXES: &[&str] = &[
    "refs/heads/",
    "refs/remotes/",
    "refs/remotes/origin/",
    "refs/remotes/git/",
    "refs/remotes/HEAD/",
    "refs/tags/",
    "refs/",
    "refs/jj/",
    "refs/jj/remote-tags/origin/",
    "refs/heads",
    "refs/notes/",
    "",
];

fn kind_str(k: GitRefKind) -> &'static str {
    match k {
        GitRefKind::Bookmark => "bookmark",
        GitRefKind::Tag => "tag",
    }
}

fn kind_from(s: &str) -> GitRefKind {
    match s {
        "bookmark" => GitRefKind::Bookmark,
        "tag" => GitRefKind::Tag,
        other => vcommon::machinery_failure(&format!("bad kind {other} in replay case")),
    }
}

/// All strings of at most `max` tokens (including the empty string), length-lexicographic.
fn token_strings(tokens: &[&str], max: usize) -> Vec<String> {
    let mut out = vec![String::new()];
    let mut layer = vec![String::new()];
    for _ in 0..max {
        let mut next = Vec::with_capacity(layer.len() * tokens.len());
        for s in &layer {
            for t in tokens {
                next.push(format!("{s}{t}"));
            }
        }
        out.extend(next.iter().cloned());
        layer = next;
    }
    out.sort();
    out.dedup();
    out.sort_by_key(|s| s.len());
    out
}

fn git_accepts(ref_name: &str) -> bool {
    gix::validate::reference::name(ref_name.as_bytes().into()).is_ok()
}

fn export(kind: GitRefKind, name: &str, remote: &str) -> Result<Option<String>, String> {
    catch(|| {
        let symbol = RemoteRefSymbol { name: RefName::new(name), remote: RemoteName::new(remote) };
        to_git_ref_name(kind, symbol).map(|r| r.as_str().to_owned())
    })
}

fn import(ref_name: &str) -> Result<Option<(GitRefKind, String, String)>, String> {
    catch(|| {
        parse_git_ref(GitRefName::new(ref_name))
            .map(|(k, s)| (k, s.name.as_str().to_owned(), s.remote.as_str().to_owned()))
    })
}

#[derive(Debug, Clone, PartialEq, Eq)]
enum ExportOutcome {
    /// `to_git_ref_name` returned `None`
    NotExportable,
    /// `Some(r)` and the round trip holds; bool = Git accepts `r`
    RoundTrips(String, bool),
    /// `Some(r)`, Git rejects `r`, round trip fails (counted, not a violation)
    FailsOutsideGit(String),
}

/// Clause E for one symbol. `Err((signature, message))` on violation.
fn check_export(kind: GitRefKind, name: &str, remote: &str) -> Result<ExportOutcome, (String, String)> {
    let what = format!("{} name={name:?} remote={remote:?}", kind_str(kind));
    let first = export(kind, name, remote).map_err(|e| ("C33/export/panic".to_string(), format!("{what}: {e}")))?;
    let second = export(kind, name, remote).map_err(|e| ("C33/export/panic".to_string(), format!("{what}: {e}")))?;
    if first != second {
        return Err((
            "C33/export/not-a-function".into(),
            format!("{what}: to_git_ref_name gave {first:?} then {second:?}"),
        ));
    }
    let Some(r) = first else {
        return Ok(ExportOutcome::NotExportable);
    };
    let back = import(&r).map_err(|e| ("C33/export/parse-panic".to_string(), format!("{what} -> {r:?}: {e}")))?;
    let ok = back == Some((kind, name.to_owned(), remote.to_owned()));
    let accepted = git_accepts(&r);
    if ok {
        return Ok(ExportOutcome::RoundTrips(r, accepted));
    }
    if !accepted {
        return Ok(ExportOutcome::FailsOutsideGit(r));
    }
    let shape = match &back {
        None => "parse-rejects".to_string(),
        Some((k, n, rm)) => {
            let mut parts = vec![];
            if *k != kind {
                parts.push("kind");
            }
            if n != name {
                parts.push("name");
            }
            if rm != remote {
                parts.push("remote");
            }
            format!("parse-differs-in-{}", parts.join("+"))
        }
    };
    let class = if remote == "git" { "local" } else { "remote" };
    Err((
        format!("C33/export/{}/{class}/{shape}", kind_str(kind)),
        format!("{what} exports as {r:?}, which parses back to {back:?}"),
    ))
}

#[derive(Debug, Clone, PartialEq, Eq)]
enum ImportOutcome {
    NotImported,
    RoundTrips(GitRefKind, String, String),
    FailsOutsideGit,
}

/// Clause I for one ref name.
fn check_import(ref_name: &str) -> Result<ImportOutcome, (String, String)> {
    let parsed = import(ref_name).map_err(|e| ("C33/import/panic".to_string(), format!("{ref_name:?}: {e}")))?;
    let Some((k, name, remote)) = parsed else {
        return Ok(ImportOutcome::NotImported);
    };
    let back = export(k, &name, &remote)
        .map_err(|e| ("C33/import/export-panic".to_string(), format!("{ref_name:?}: {e}")))?;
    if back.as_deref() == Some(ref_name) {
        return Ok(ImportOutcome::RoundTrips(k, name, remote));
    }
    if !git_accepts(ref_name) {
        return Ok(ImportOutcome::FailsOutsideGit);
    }
    let ns = if ref_name.starts_with("refs/heads/") {
        "heads"
    } else if ref_name.starts_with("refs/remotes/") {
        "remotes"
    } else if ref_name.starts_with("refs/tags/") {
        "tags"
    } else {
        "other"
    };
    let shape = if back.is_none() { "not-exportable" } else { "exports-as-different-ref" };
    Err((
        format!("C33/import/{ns}/{shape}"),
        format!(
            "ref {ref_name:?} is imported as {} name={name:?} remote={remote:?}, which exports as {back:?}",
            kind_str(k)
        ),
    ))
}

fn replay(ctx: &Ctx, case: &Value) {
    let r = match case["clause"].as_str().unwrap_or("") {
        "export" => check_export(
            kind_from(case["kind"].as_str().unwrap_or("")),
            case["name"].as_str().unwrap_or(""),
            case["remote"].as_str().unwrap_or(""),
        )
        .map(|_| ()),
        "import" => check_import(case["ref"].as_str().unwrap_or("")).map(|_| ()),
        "collision" => {
            let a = &case["a"];
            let b = &case["b"];
            let ra = export(
                kind_from(a["kind"].as_str().unwrap_or("")),
                a["name"].as_str().unwrap_or(""),
                a["remote"].as_str().unwrap_or(""),
            );
            let rb = export(
                kind_from(b["kind"].as_str().unwrap_or("")),
                b["name"].as_str().unwrap_or(""),
                b["remote"].as_str().unwrap_or(""),
            );
            match (ra, rb) {
                (Ok(Some(x)), Ok(Some(y))) if x == y && a != b => Err((
                    "C33/export/collision".to_string(),
                    format!("{a} and {b} both export as {x:?}"),
                )),
                _ => Ok(()),
            }
        }
        other => vcommon::machinery_failure(&format!("unknown clause {other:?} in replay case")),
    };
    if let Err((sig, msg)) = r {
        ctx.violation(&sig, msg, case.clone());
    }
}

fn main() {
    let ctx = Ctx::from_args("C33", Level::Exploration);
    vcommon::silence_panics();
    if let Some((_sig, case)) = ctx.replay_case() {
        replay(&ctx, &case);
        ctx.finish(Coverage { evaluations: 1, ..Default::default() });
    }
    let max_tokens = ctx.pick(3, 4);
    let names = token_strings(NAME_TOKENS, max_tokens);
    let kinds = [GitRefKind::Bookmark, GitRefKind::Tag];

    // Remote classes (vacuity: both classes must be populated).
    let valid_remotes: Vec<&str> =
        REMOTES.iter().copied().filter(|r| *r == "git" || is_valid_remote_name(RemoteName::new(r))).collect();
    let invalid_remotes: Vec<&str> = REMOTES.iter().copied().filter(|r| !valid_remotes.contains(r)).collect();
    if valid_remotes.len() < 4 || invalid_remotes.len() < 3 {
        vcommon::machinery_failure(&format!(
            "remote alphabet is degenerate: valid {valid_remotes:?} invalid {invalid_remotes:?}"
        ));
    }

    let evals = Counter::new();
    let exportable = Counter::new();
    let exportable_git_ok = Counter::new();
    let exportable_git_rejects = Counter::new();
    let export_fail_outside_git = Counter::new();
    let not_exportable = Counter::new();
    let exportable_remote_bookmarks = Counter::new();
    let exportable_tags = Counter::new();
    let names_with_slash_exported = Counter::new();
    let names_with_head_token_exported = Counter::new();
    let samples = Samples::new(8);

    // ---- clause E over valid remotes -------------------------------------------------------
    let export_map: Mutex<BTreeMap<String, Vec<(GitRefKind, String, String)>>> = Mutex::new(BTreeMap::new());
    names.par_iter().for_each(|name| {
        let mut local: Vec<(String, (GitRefKind, String, String))> = vec![];
        for remote in &valid_remotes {
            for kind in kinds {
                evals.inc();
                match check_export(kind, name, remote) {
                    Ok(ExportOutcome::NotExportable) => not_exportable.inc(),
                    Ok(ExportOutcome::RoundTrips(r, accepted)) => {
                        exportable.inc();
                        if accepted {
                            exportable_git_ok.inc();
                            if kind == GitRefKind::Tag {
                                exportable_tags.inc();
                            } else if *remote != "git" {
                                exportable_remote_bookmarks.inc();
                            }
                            if name.contains('/') {
                                names_with_slash_exported.inc();
                            }
                            if name.contains("HEAD") {
                                names_with_head_token_exported.inc();
                                samples.offer(|| {
                                    json!({"clause": "export", "kind": kind_str(kind), "name": name, "remote": remote, "ref": r})
                                });
                            }
                            local.push((r, (kind, name.clone(), remote.to_string())));
                        } else {
                            exportable_git_rejects.inc();
                        }
                    }
                    Ok(ExportOutcome::FailsOutsideGit(_)) => {
                        exportable.inc();
                        exportable_git_rejects.inc();
                        export_fail_outside_git.inc();
                    }
                    Err((sig, msg)) => ctx.violation(
                        &sig,
                        msg,
                        json!({"clause": "export", "kind": kind_str(kind), "name": name, "remote": remote}),
                    ),
                }
            }
        }
        let mut map = export_map.lock().unwrap();
        for (r, sym) in local {
            map.entry(r).or_default().push(sym);
        }
    });
    // one-to-one over the whole set of exportable symbols
    let export_map = export_map.into_inner().unwrap();
    let mut collisions = 0u64;
    for (r, syms) in &export_map {
        if syms.len() > 1 {
            collisions += 1;
            let a = &syms[0];
            let b = &syms[1];
            ctx.violation(
                "C33/export/collision",
                format!("{a:?} and {b:?} both export as {r:?}"),
                json!({"clause": "collision",
                       "a": {"kind": kind_str(a.0), "name": a.1, "remote": a.2},
                       "b": {"kind": kind_str(b.0), "name": b.1, "remote": b.2}}),
            );
        }
    }
    let distinct_export_refs = export_map.len() as u64;

    // ---- informational: invalid remotes (outside the statement) ----------------------------
    let invalid_evals = Counter::new();
    let invalid_exportable = Counter::new();
    let invalid_roundtrip_fail = Counter::new();
    let invalid_map: Mutex<BTreeMap<String, u32>> = Mutex::new(BTreeMap::new());
    names.par_iter().for_each(|name| {
        let mut local = vec![];
        for remote in &invalid_remotes {
            for kind in kinds {
                invalid_evals.inc();
                if let Ok(Some(r)) = export(kind, name, remote) {
                    invalid_exportable.inc();
                    if import(&r).ok().flatten() != Some((kind, name.clone(), remote.to_string())) {
                        invalid_roundtrip_fail.inc();
                    }
                    local.push(r);
                }
            }
        }
        let mut map = invalid_map.lock().unwrap();
        for r in local {
            *map.entry(r).or_default() += 1;
        }
    });
    let invalid_map = invalid_map.into_inner().unwrap();
    let invalid_collisions = invalid_map
        .iter()
        .filter(|(r, n)| **n > 1 || export_map.contains_key(*r))
        .count() as u64;

    // ---- clause I ---------------------------------------------------------------------------
    let ref_evals = Counter::new();
    let imported = Counter::new();
    let imported_git_ok = Counter::new();
    let not_imported = Counter::new();
    let not_imported_git_ok = Counter::new();
    let import_fail_outside_git = Counter::new();
    let imported_per_ns: Mutex<BTreeMap<String, u64>> = Mutex::new(BTreeMap::new());
    let refs: Vec<String> = {
        let mut v: Vec<String> = REF_PREFIXES
            .iter()
            .flat_map(|p| names.iter().map(move |n| format!("{p}{n}")))
            .collect();
        v.sort();
        v.dedup();
        v
    };
    refs.par_iter().for_each(|r| {
        ref_evals.inc();
        evals.inc();
        let accepted = git_accepts(r);
        match check_import(r) {
            Ok(ImportOutcome::NotImported) => {
                not_imported.inc();
                if accepted {
                    not_imported_git_ok.inc();
                    if r.ends_with("/HEAD") {
                        samples.offer(|| json!({"clause": "import", "ref": r, "imported": false}));
                    }
                }
            }
            Ok(ImportOutcome::RoundTrips(k, name, remote)) => {
                imported.inc();
                if accepted {
                    imported_git_ok.inc();
                    let ns = r.split('/').take(2).collect::<Vec<_>>().join("/");
                    *imported_per_ns.lock().unwrap().entry(ns).or_default() += 1;
                    if name.contains('/') && remote != "git" {
                        samples.offer(|| {
                            json!({"clause": "import", "ref": r, "kind": kind_str(k), "name": name, "remote": remote})
                        });
                    }
                }
            }
            Ok(ImportOutcome::FailsOutsideGit) => {
                imported.inc();
                import_fail_outside_git.inc();
            }
            Err((sig, msg)) => ctx.violation(&sig, msg, json!({"clause": "import", "ref": r})),
        }
    });
    let imported_per_ns = imported_per_ns.into_inner().unwrap();

    // vacuity gates: each clause must have been exercised on names Git accepts
    if exportable_git_ok.get() == 0
        || exportable_remote_bookmarks.get() == 0
        || exportable_tags.get() == 0
        || names_with_slash_exported.get() == 0
        || imported_git_ok.get() == 0
        || not_imported_git_ok.get() == 0
        || imported_per_ns.len() < 3
    {
        vcommon::machinery_failure("C33: a clause was never exercised (vacuous enumeration)");
    }

    let cov = Coverage {
        evaluations: evals.get(),
        distinct_nontrivial: exportable_git_ok.get() + imported_git_ok.get(),
        rule: format!(
            "symbols: every (kind in {{bookmark, tag}}) x (name = string of <= {max_tokens} tokens over {NAME_TOKENS:?}, \
             {} distinct) x (remote in the valid part {valid_remotes:?} of {REMOTES:?}); refs: every prefix in \
             {REF_PREFIXES:?} x the same names ({} distinct ref names). All distinct by construction (deduplicated). \
             Non-trivial = exportable symbols whose ref name Git accepts + ref names Git accepts that parse_git_ref \
             maps to a symbol (the cases on which a round trip is actually demanded)",
            names.len(),
            refs.len()
        ),
        samples: samples.take(),
        exhaustive: true,
        extra: [
            ("names".to_string(), json!(names.len())),
            ("valid_remotes".to_string(), json!(valid_remotes)),
            ("invalid_remotes_informational".to_string(), json!(invalid_remotes)),
            ("symbols_evaluated".to_string(), json!(evals.get() - ref_evals.get())),
            ("exportable".to_string(), json!(exportable.get())),
            ("exportable_and_git_accepts_ref".to_string(), json!(exportable_git_ok.get())),
            ("exportable_but_git_rejects_ref".to_string(), json!(exportable_git_rejects.get())),
            (
                "roundtrip_failures_on_refs_git_rejects_not_violations".to_string(),
                json!(export_fail_outside_git.get()),
            ),
            ("not_exportable".to_string(), json!(not_exportable.get())),
            ("exportable_remote_bookmarks".to_string(), json!(exportable_remote_bookmarks.get())),
            ("exportable_tags".to_string(), json!(exportable_tags.get())),
            ("exported_names_containing_slash".to_string(), json!(names_with_slash_exported.get())),
            ("exported_names_containing_HEAD".to_string(), json!(names_with_head_token_exported.get())),
            ("distinct_exported_ref_names".to_string(), json!(distinct_export_refs)),
            ("export_collisions".to_string(), json!(collisions)),
            ("refs_evaluated".to_string(), json!(ref_evals.get())),
            ("refs_imported".to_string(), json!(imported.get())),
            ("refs_imported_and_git_accepts".to_string(), json!(imported_git_ok.get())),
            ("refs_imported_per_namespace".to_string(), json!(imported_per_ns)),
            ("refs_not_imported".to_string(), json!(not_imported.get())),
            ("refs_not_imported_but_git_accepts".to_string(), json!(not_imported_git_ok.get())),
            (
                "import_roundtrip_failures_on_refs_git_rejects_not_violations".to_string(),
                json!(import_fail_outside_git.get()),
            ),
            ("invalid_remote_symbols_evaluated".to_string(), json!(invalid_evals.get())),
            ("invalid_remote_symbols_exportable".to_string(), json!(invalid_exportable.get())),
            ("invalid_remote_roundtrip_failures_outside_statement".to_string(), json!(invalid_roundtrip_fail.get())),
            ("invalid_remote_ref_collisions_outside_statement".to_string(), json!(invalid_collisions)),
        ]
        .into_iter()
        .collect(),
        assumptions: vec![
            "remote names are those accepted by jj's validate_remote_name, or the reserved name `git` (as the statement says: valid remote names)".into(),
            "`a ref Git can hold / jj can export` is decided by gix's reference-name validation (the library jj uses to enumerate and write refs)".into(),
            "remote tags (refs/jj/remote-tags/*, parse_remote_tag_ref) are private to git.rs and not covered".into(),
            format!("names longer than {max_tokens} tokens or with characters outside the token alphabet are not explored"),
        ],
        ..Default::default()
    };
    ctx.finish(cov);
}

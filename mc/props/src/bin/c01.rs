//! C01 — Conflict simplification and flattening preserve meaning.
//!
//! Exhaustive over every equality pattern (set partition) of the terms for every odd arity
//! up to the bound: `simplify`, `update_from_simplified`, `simplify_by` and `flatten` only
//! compare terms with `==`, so the equality pattern determines their behaviour.

use std::collections::BTreeMap;

use jj_lib::merge::Merge;
use rayon::prelude::*;
use serde_json::json;
use vcommon::Counter;
use vcommon::Coverage;
use vcommon::Ctx;
use vcommon::Level;
use vcommon::Samples;
use vcommon::catch;
use vcommon::enumerate::rgs_prefixes;
use vcommon::enumerate::rgs_with_prefix;

const FRESH: u8 = 200;

fn signed_counts(terms: &[u8]) -> BTreeMap<u8, i32> {
    let mut m = BTreeMap::new();
    for (i, t) in terms.iter().enumerate() {
        *m.entry(*t).or_insert(0) += if i % 2 == 0 { 1 } else { -1 };
    }
    m.retain(|_, c| *c != 0);
    m
}

/// Checks one flat term list. Returns `Err((signature, message))` on the first failed clause.
fn check_flat(terms: &[u8]) -> Result<bool, (String, String)> {
    let m = Merge::from_vec(terms.to_vec());
    let s = catch(|| m.simplify()).map_err(|e| ("C01/simplify/panic".to_string(), e))?;
    let st: Vec<u8> = s.iter().copied().collect();
    // (a) denotation preserved
    if signed_counts(terms) != signed_counts(&st) {
        return Err((
            "C01/simplify/denotation".into(),
            format!("simplify({terms:?}) = {st:?} changes the signed counts"),
        ));
    }
    // (b) odd, not longer, no value on both an add and a remove position
    if st.len() % 2 != 1 || st.len() > terms.len() {
        return Err((
            "C01/simplify/shape".into(),
            format!("simplify({terms:?}) = {st:?} has a bad length"),
        ));
    }
    for (i, a) in st.iter().enumerate().step_by(2) {
        for (j, r) in st.iter().enumerate().skip(1).step_by(2) {
            if a == r {
                return Err((
                    "C01/simplify/not-normal".into(),
                    format!("simplify({terms:?}) = {st:?}: add {i} equals remove {j}"),
                ));
            }
        }
    }
    // values come from the input
    if st.iter().any(|v| !terms.contains(v)) {
        return Err((
            "C01/simplify/foreign-value".into(),
            format!("simplify({terms:?}) = {st:?}"),
        ));
    }
    // (c) idempotent
    let ss = s.simplify();
    if ss != s {
        return Err((
            "C01/simplify/idempotence".into(),
            format!("simplify twice differs on {terms:?}: {st:?} vs {:?}", ss.as_slice()),
        ));
    }
    // (d) write-back of an edit of one simplified term
    for j in 0..st.len() {
        let mut edited = st.clone();
        edited[j] = FRESH;
        let updated = catch(|| m.clone().update_from_simplified(Merge::from_vec(edited.clone())))
            .map_err(|e| ("C01/update_from_simplified/panic".to_string(), e))?;
        let ut: Vec<u8> = updated.iter().copied().collect();
        if ut.len() != terms.len() {
            return Err((
                "C01/update_from_simplified/length".into(),
                format!("{terms:?} edited at simplified {j}: {ut:?}"),
            ));
        }
        let diffs: Vec<usize> = (0..terms.len()).filter(|&p| ut[p] != terms[p]).collect();
        if diffs.len() != 1 {
            return Err((
                "C01/update_from_simplified/positions".into(),
                format!("{terms:?} (simplified {st:?}) edited at {j}: result {ut:?} differs at {diffs:?}"),
            ));
        }
        let p = diffs[0];
        if ut[p] != FRESH || terms[p] != st[j] || p % 2 != j % 2 {
            return Err((
                "C01/update_from_simplified/wrong-position".into(),
                format!("{terms:?} (simplified {st:?}) edited at {j}: landed at {p}: {ut:?}"),
            ));
        }
        let us = updated.simplify();
        if us.as_slice() != edited.as_slice() {
            return Err((
                "C01/update_from_simplified/roundtrip".into(),
                format!(
                    "{terms:?} edited at simplified {j} -> {ut:?}, which simplifies to {:?} not {edited:?}",
                    us.as_slice()
                ),
            ));
        }
    }
    // write-back of the unedited simplified form is the identity
    let same = m.clone().update_from_simplified(s.clone());
    if same != m {
        return Err((
            "C01/update_from_simplified/identity".into(),
            format!("{terms:?}: writing back the unedited simplified form gives {:?}", same.as_slice()),
        ));
    }
    // (e) simplify_by with a non-injective key: commutes with mapping by the key
    for k in [2u8, 3u8] {
        let by = m.simplify_by(|v| *v % k);
        let lhs: Vec<u8> = by.iter().map(|v| *v % k).collect();
        let rhs = m.map(|v| *v % k).simplify();
        if lhs.as_slice() != rhs.as_slice() {
            return Err((
                "C01/simplify_by".into(),
                format!("{terms:?} key mod {k}: {lhs:?} vs {:?}", rhs.as_slice()),
            ));
        }
    }
    Ok(st.len() != terms.len() && st.len() > 1)
}

/// Nested shape: outer arity and inner arities; leaves are numbered left to right.
fn check_nested(shape: &[usize], leaves: &[u8]) -> Result<(), (String, String)> {
    let mut it = leaves.iter().copied();
    let inner: Vec<Merge<u8>> = shape
        .iter()
        .map(|&k| Merge::from_vec((0..k).map(|_| it.next().unwrap()).collect::<Vec<_>>()))
        .collect();
    // expected signed multiset of leaves
    let mut expected: Vec<(u8, bool)> = vec![];
    for (oi, m) in inner.iter().enumerate() {
        for (ii, v) in m.iter().enumerate() {
            expected.push((*v, (oi % 2 == 0) == (ii % 2 == 0)));
        }
    }
    expected.sort();
    let nested = Merge::from_vec(inner);
    let flat = catch(|| nested.clone().flatten()).map_err(|e| ("C01/flatten/panic".to_string(), e))?;
    let mut got: Vec<(u8, bool)> = flat.iter().enumerate().map(|(i, v)| (*v, i % 2 == 0)).collect();
    got.sort();
    if got != expected {
        return Err((
            "C01/flatten/signs".into(),
            format!(
                "flatten of shape {shape:?} leaves {leaves:?} = {:?}: signed leaves differ",
                flat.as_slice()
            ),
        ));
    }
    if flat.as_slice().len() % 2 != 1 {
        return Err(("C01/flatten/shape".into(), format!("{shape:?} {leaves:?}")));
    }
    // flatten then simplify denotes the same as simplifying the inner merges first
    let inner_simplified = Merge::from_vec(
        nested.iter().map(|m| m.simplify()).collect::<Vec<_>>(),
    )
    .flatten()
    .simplify();
    let a: Vec<u8> = flat.simplify().iter().copied().collect();
    let b: Vec<u8> = inner_simplified.iter().copied().collect();
    if signed_counts(&a) != signed_counts(&b) {
        return Err((
            "C01/flatten/simplify-commute".into(),
            format!("shape {shape:?} leaves {leaves:?}: {a:?} vs {b:?}"),
        ));
    }
    Ok(())
}

/// Depth-3 nesting: Merge<Merge<Merge<u8>>> flattened twice.
fn check_nested3(shape: &[Vec<usize>], leaves: &[u8]) -> Result<(), (String, String)> {
    let mut it = leaves.iter().copied();
    let mut expected: Vec<(u8, bool)> = vec![];
    let mut outer = vec![];
    for (oi, mid_shape) in shape.iter().enumerate() {
        let mut mids = vec![];
        for (mi, &k) in mid_shape.iter().enumerate() {
            let vals: Vec<u8> = (0..k).map(|_| it.next().unwrap()).collect();
            for (ii, v) in vals.iter().enumerate() {
                let pos = (oi % 2 == 0) as u8 + (mi % 2 == 0) as u8 + (ii % 2 == 0) as u8;
                expected.push((*v, pos % 2 == 1));
            }
            mids.push(Merge::from_vec(vals));
        }
        outer.push(Merge::from_vec(mids));
    }
    expected.sort();
    let nested: Merge<Merge<Merge<u8>>> = Merge::from_vec(outer);
    let flat = catch(|| nested.flatten().flatten()).map_err(|e| ("C01/flatten3/panic".to_string(), e))?;
    let mut got: Vec<(u8, bool)> = flat.iter().enumerate().map(|(i, v)| (*v, i % 2 == 0)).collect();
    got.sort();
    if got != expected {
        return Err((
            "C01/flatten3/signs".into(),
            format!("shape {shape:?} leaves {leaves:?} -> {:?}", flat.as_slice()),
        ));
    }
    Ok(())
}

fn nested_shapes(max_leaves: usize) -> Vec<Vec<usize>> {
    let mut out = vec![];
    for outer in [1usize, 3, 5] {
        let dims = vec![3usize; outer];
        vcommon::enumerate::odometer(&dims, |t| {
            let shape: Vec<usize> = t.iter().map(|&d| 1 + 2 * d).collect();
            if shape.iter().sum::<usize>() <= max_leaves {
                out.push(shape);
            }
            true
        });
    }
    out
}

fn nested3_shapes(max_leaves: usize) -> Vec<Vec<Vec<usize>>> {
    // outer arity 3, middle arities in {1,3}, inner arities in {1,3}
    let mut mids: Vec<Vec<usize>> = vec![];
    for arity in [1usize, 3] {
        vcommon::enumerate::odometer(&vec![2usize; arity], |t| {
            mids.push(t.iter().map(|&d| 1 + 2 * d).collect());
            true
        });
    }
    let mut out = vec![];
    vcommon::enumerate::odometer(&[mids.len(), mids.len(), mids.len()], |t| {
        let shape: Vec<Vec<usize>> = t.iter().map(|&i| mids[i].clone()).collect();
        let leaves: usize = shape.iter().map(|m| m.iter().sum::<usize>()).sum();
        if leaves <= max_leaves {
            out.push(shape);
        }
        true
    });
    out
}

fn main() {
    let ctx = Ctx::from_args("C01", Level::Exploration);
    vcommon::silence_panics();
    if let Some((_sig, case)) = ctx.replay_case() {
        let kind = case["kind"].as_str().unwrap_or("");
        let leaves: Vec<u8> = serde_json::from_value(case["terms"].clone()).unwrap();
        let r = match kind {
            "flat" => check_flat(&leaves).map(|_| ()),
            "nested" => {
                let shape: Vec<usize> = serde_json::from_value(case["shape"].clone()).unwrap();
                check_nested(&shape, &leaves)
            }
            _ => {
                let shape: Vec<Vec<usize>> = serde_json::from_value(case["shape"].clone()).unwrap();
                check_nested3(&shape, &leaves)
            }
        };
        if let Err((sig, msg)) = r {
            ctx.violation(&sig, msg, case);
        }
        ctx.finish(Coverage { evaluations: 1, ..Default::default() });
    }
    let max_arity = ctx.pick(11, 13);
    let max_leaves = ctx.pick(10, 12);
    let max_leaves3 = ctx.pick(9, 11);
    let evals = Counter::new();
    let nontrivial = Counter::new();
    let samples = Samples::new(6);

    // flat merges
    for n in (1..=max_arity).step_by(2) {
        let k = n.min(5);
        rgs_prefixes(k).par_iter().for_each(|prefix| {
            rgs_with_prefix(n, prefix, |pattern| {
                evals.inc();
                match check_flat(pattern) {
                    Ok(nt) => {
                        if nt {
                            nontrivial.inc();
                            if n >= 5 {
                                samples.offer(|| json!({"kind": "flat", "terms": pattern}));
                            }
                        }
                    }
                    Err((sig, msg)) => {
                        ctx.violation(&sig, msg, json!({"kind": "flat", "terms": pattern}));
                    }
                }
            });
        });
    }
    let flat_evals = evals.get();
    // nested merges (depth 2)
    let shapes = nested_shapes(max_leaves);
    shapes.par_iter().for_each(|shape| {
        let n: usize = shape.iter().sum();
        vcommon::enumerate::rgs(n, |pattern| {
            evals.inc();
            if shape.len() > 1 {
                nontrivial.inc();
            }
            if let Err((sig, msg)) = check_nested(shape, pattern) {
                ctx.violation(&sig, msg, json!({"kind": "nested", "shape": shape, "terms": pattern}));
            }
        });
    });
    samples.offer(|| json!({"kind": "nested", "shape": [3, 1, 3], "terms": [0, 1, 2, 0, 1, 3, 2]}));
    let nested_evals = evals.get() - flat_evals;
    // depth 3
    let shapes3 = nested3_shapes(max_leaves3);
    shapes3.par_iter().for_each(|shape| {
        let n: usize = shape.iter().map(|m| m.iter().sum::<usize>()).sum();
        vcommon::enumerate::rgs(n, |pattern| {
            evals.inc();
            nontrivial.inc();
            if let Err((sig, msg)) = check_nested3(shape, pattern) {
                ctx.violation(&sig, msg, json!({"kind": "nested3", "shape": shape, "terms": pattern}));
            }
        });
    });
    let cov = Coverage {
        evaluations: evals.get(),
        distinct_nontrivial: nontrivial.get(),
        rule: format!(
            "every set partition (equality pattern) of the terms for every odd arity <= {max_arity} \
             (flat), every nesting shape with outer/inner arities in {{1,3,5}} and <= {max_leaves} leaves \
             x every equality pattern of the leaves, depth-3 nestings with <= {max_leaves3} leaves; each \
             pattern is generated once (restricted-growth strings), so all are distinct; non-trivial = \
             flat patterns where simplify removes a pair but a conflict remains, and all genuinely nested shapes"
        ),
        samples: samples.take(),
        exhaustive: true,
        extra: [
            ("flat_patterns".to_string(), json!(flat_evals)),
            ("nested_cases".to_string(), json!(nested_evals)),
            ("nested_shapes".to_string(), json!(shapes.len())),
            ("depth3_shapes".to_string(), json!(shapes3.len())),
            ("max_arity".to_string(), json!(max_arity)),
        ]
        .into_iter()
        .collect(),
        assumptions: vec![
            "parametricity: the functions only use == on terms, so equality patterns are complete per arity".into(),
            format!("arity > {max_arity} and nesting depth > 3 are not explored"),
        ],
        ..Default::default()
    };
    ctx.finish(cov);
}

//! C05 — Materialized conflicts parse back to the same conflict.
//!
//! Exhaustive over every file conflict of 2, 3 and 4 sides whose terms are files of at most k
//! lines over a small line alphabet (ordinary lines, CRLF lines, unterminated last lines,
//! a last line ending in a lone CR, conflict-marker look-alikes of lengths 7 and 11,
//! diff-body look-alikes), crossed with every marker style, unlabeled/labeled, both hunk
//! levels, both same-change settings, and an explicitly requested longer marker length.
//!
//! Oracle (exactly the statement): whenever `files::merge_hunks(m)` is a conflict,
//! `parse_conflict(materialize_merge_result_to_bytes(m), m.num_sides(), marker_len)` must be
//! `Some(hunks)` with exactly the hunks `merge_hunks` produced.  `merge_hunks` is the lower
//! layer (C04) and is used as the reference for "the hunks the merge produced".

use bstr::BString;
use jj_lib::conflict_labels::ConflictLabels;
use jj_lib::conflicts::ConflictMarkerStyle;
use jj_lib::conflicts::ConflictMaterializeOptions;
use jj_lib::conflicts::choose_materialized_conflict_marker_len;
use jj_lib::conflicts::materialize_merge_result_to_bytes;
use jj_lib::conflicts::parse_conflict;
use jj_lib::files;
use jj_lib::files::FileMergeHunkLevel;
use jj_lib::files::MergeResult;
use jj_lib::merge::Merge;
use jj_lib::merge::SameChange;
use jj_lib::tree_merge::MergeOptions;
use rayon::prelude::*;
use serde_json::Value;
use serde_json::json;
use vcommon::Coverage;
use vcommon::Ctx;
use vcommon::Level;
use vcommon::Samples;
use vcommon::catch;
use vcommon::enumerate::odometer;

// ---------------------------------------------------------------------------------------
// configurations

#[derive(Clone, Copy, Debug, PartialEq, Eq)]
struct Config {
    style: ConflictMarkerStyle,
    labeled: bool,
    hunk_level: FileMergeHunkLevel,
    same_change: SameChange,
    /// `None`: let jj choose the marker length. `Some(d)`: request chosen + d explicitly.
    explicit_len_delta: Option<usize>,
}

const STYLES: [ConflictMarkerStyle; 4] = [
    ConflictMarkerStyle::Diff,
    ConflictMarkerStyle::DiffExperimental,
    ConflictMarkerStyle::Snapshot,
    ConflictMarkerStyle::Git,
];

fn style_name(s: ConflictMarkerStyle) -> &'static str {
    match s {
        ConflictMarkerStyle::Diff => "diff",
        ConflictMarkerStyle::DiffExperimental => "diff-experimental",
        ConflictMarkerStyle::Snapshot => "snapshot",
        ConflictMarkerStyle::Git => "git",
    }
}

fn style_from(s: &str) -> ConflictMarkerStyle {
    match s {
        "diff" => ConflictMarkerStyle::Diff,
        "diff-experimental" => ConflictMarkerStyle::DiffExperimental,
        "snapshot" => ConflictMarkerStyle::Snapshot,
        "git" => ConflictMarkerStyle::Git,
        other => vcommon::machinery_failure(&format!("bad style {other}")),
    }
}

fn level_name(l: FileMergeHunkLevel) -> &'static str {
    match l {
        FileMergeHunkLevel::Line => "line",
        FileMergeHunkLevel::Word => "word",
    }
}

fn sc_name(s: SameChange) -> &'static str {
    match s {
        SameChange::Keep => "keep",
        SameChange::Accept => "accept",
    }
}

/// Thorough: the full product 2 hunk levels x 2 same-change x 4 styles x unlabeled/labeled
/// (32) + 4 styles with an explicit longer marker length. Quick: labels only under the
/// default merge options (line, accept): 16 + 4 + 4 = 24 configurations.
fn all_configs(full: bool) -> Vec<Config> {
    let mut v = vec![];
    for hunk_level in [FileMergeHunkLevel::Line, FileMergeHunkLevel::Word] {
        for same_change in [SameChange::Accept, SameChange::Keep] {
            for style in STYLES {
                for labeled in [false, true] {
                    if labeled
                        && !full
                        && !(hunk_level == FileMergeHunkLevel::Line && same_change == SameChange::Accept)
                    {
                        continue;
                    }
                    v.push(Config {
                        style,
                        labeled,
                        hunk_level,
                        same_change,
                        explicit_len_delta: None,
                    });
                }
            }
        }
    }
    // the caller may also pass an explicit (longer) marker length; parse with that length
    for style in STYLES {
        v.push(Config {
            style,
            labeled: false,
            hunk_level: FileMergeHunkLevel::Line,
            same_change: SameChange::Accept,
            explicit_len_delta: Some(3),
        });
    }
    v
}

fn config_json(c: &Config) -> Value {
    json!({
        "style": style_name(c.style),
        "labeled": c.labeled,
        "hunk_level": level_name(c.hunk_level),
        "same_change": sc_name(c.same_change),
        "explicit_len_delta": c.explicit_len_delta,
    })
}

fn config_from_json(v: &Value) -> Config {
    Config {
        style: style_from(v["style"].as_str().unwrap_or("")),
        labeled: v["labeled"].as_bool().unwrap_or(false),
        hunk_level: if v["hunk_level"] == "word" {
            FileMergeHunkLevel::Word
        } else {
            FileMergeHunkLevel::Line
        },
        same_change: if v["same_change"] == "keep" { SameChange::Keep } else { SameChange::Accept },
        explicit_len_delta: v["explicit_len_delta"].as_u64().map(|d| d as usize),
    }
}

fn labels_for(num_terms: usize, labeled: bool) -> ConflictLabels {
    if !labeled {
        return ConflictLabels::unlabeled();
    }
    // term order: add0, remove0, add1, remove1, ...
    ConflictLabels::from_vec(
        (0..num_terms)
            .map(|i| {
                if i % 2 == 0 {
                    format!("side label {} xyzw 1a2b3c4d", i / 2 + 1)
                } else {
                    format!("base label {}", i / 2 + 1)
                }
            })
            .collect(),
    )
}

// ---------------------------------------------------------------------------------------
// the space

/// All files that are a sequence of at most `k` tokens, where tokens from `unterminated`
/// (no final LF) may only come last. Sorted simplest first, duplicates removed.
fn files_over(terminated: &[&[u8]], unterminated: &[&[u8]], k: usize) -> Vec<Vec<u8>> {
    let mut out: Vec<Vec<u8>> = vec![vec![]];
    let mut prefixes: Vec<Vec<u8>> = vec![vec![]]; // sequences of terminated tokens of length len-1
    for _len in 1..=k {
        let mut next_prefixes = vec![];
        for p in &prefixes {
            for t in terminated {
                let mut f = p.clone();
                f.extend_from_slice(t);
                out.push(f.clone());
                next_prefixes.push(f);
            }
            for u in unterminated {
                let mut f = p.clone();
                f.extend_from_slice(u);
                out.push(f);
            }
        }
        prefixes = next_prefixes;
    }
    let mut seen = std::collections::BTreeSet::new();
    out.retain(|f| seen.insert(f.clone()));
    out
}

struct Family {
    name: &'static str,
    num_terms: usize,
    files: Vec<Vec<u8>>,
    description: String,
}

fn show(bytes: &[u8]) -> String {
    bytes.iter().map(|b| std::ascii::escape_default(*b).to_string()).collect()
}

fn families(ctx: &Ctx) -> Vec<Family> {
    let mut fams = vec![];
    let mut add = |name: &'static str, num_terms: usize, t: &[&[u8]], u: &[&[u8]], k: usize| {
        let files = files_over(t, u, k);
        let description = format!(
            "{name}: {num_terms} terms, each one of the {} files of <= {k} line(s) over terminated lines {:?} + unterminated last lines {:?}",
            files.len(),
            t.iter().map(|x| show(x)).collect::<Vec<_>>(),
            u.iter().map(|x| show(x)).collect::<Vec<_>>(),
        );
        fams.push(Family { name, num_terms, files, description });
    };
    if ctx.quick() {
        // 7 terminated + 2 unterminated tokens, <= 2 lines: 73 files, 73^3 merges. The six-long
        // `------` / `++++++` lines are one short of the minimum marker length: the diff styles
        // prefix them with `-`/`+`/space, which makes them seven long.
        add(
            "3t-k2",
            3,
            &[
                b"a\n",
                b"b\n",
                b"<<<<<<< x\n",
                b">>>>>>>\n",
                b"+++++++++++\n",
                b"------\n",
                b"++++++\n",
            ],
            &[b"a", b"b\r"],
            2,
        );
        // CRLF files (also files whose lines are all CRLF) and mixed LF/CRLF
        add("3t-k2-crlf", 3, &[b"a\r\n", b"b\r\n", b"a\n"], &[b"a", b"b\r"], 2);
        // several conflict hunks separated by resolved text need >= 3 lines
        add("3t-k3", 3, &[b"a\n", b"b\n", b"c\n"], &[b"c"], 3);
        add(
            "5t-k1",
            5,
            &[b"a\n", b"b\n", b"a\r\n", b"<<<<<<< x\n", b">>>>>>>\n", b"+++++++++++\n", b"-a\n"],
            &[b"a", b"b\r"],
            1,
        );
        add("7t-k1", 7, &[b"a\n", b"b\n"], &[b"a"], 1);
    } else {
        add(
            "3t-k2",
            3,
            &[
                b"a\n",
                b"b\n",
                b"a\r\n",
                b"\n",
                b"<<<<<<< x\n",
                b">>>>>>>\n",
                b"+++++++++++\n",
                b"-------\n",
                b"%%%%%%%\r\n",
                b"------\n",
                b"++++++\n",
                b"-a\n",
            ],
            &[b"a", b"b\r", b"<<<<<<<"],
            2,
        );
        // every marker character one short of the minimum marker length (a diff prefix makes
        // it seven long), together with the git-only marker look-alikes
        add(
            "3t-k2-six",
            3,
            &[
                b"a\n",
                b"b\n",
                b"------\n",
                b"++++++\n",
                b"%%%%%%\n",
                b"\\\\\\\\\\\\\n",
                b"=======\n",
                b"|||||||\n",
            ],
            &[b"a", b"------"],
            2,
        );
        add(
            "3t-k3",
            3,
            &[b"a\n", b"b\n", b"c\n", b"<<<<<<<\n"],
            &[b"c", b"a\r"],
            3,
        );
        add(
            "5t-k1",
            5,
            &[
                b"a\n",
                b"b\n",
                b"a\r\n",
                b"\n",
                b"<<<<<<< x\n",
                b">>>>>>>\n",
                b"+++++++++++\n",
                b"-------\n",
                b"%%%%%%%\r\n",
                b"\\\\\\\\\\\\\\ x\n",
                b"-a\n",
                b"+a\n",
                b"------\n",
                b"++++++\n",
            ],
            &[b"a", b"b\r", b"<<<<<<<"],
            1,
        );
        add("5t-k2", 5, &[b"a\n", b"b\n", b"<<<<<<<\n"], &[b"a"], 2);
        add(
            "7t-k1",
            7,
            &[b"a\n", b"b\n", b"a\r\n", b"<<<<<<<\n"],
            &[b"a", b"b\r"],
            1,
        );
    }
    fams
}

// ---------------------------------------------------------------------------------------
// the oracle

#[derive(Default, Clone, Copy)]
struct Features {
    escalated_len: bool,
    crlf_markers: bool,
    eol_spread: bool,
    multi_conflict: bool,
    has_resolved_hunk: bool,
    git_markers: bool,
    diff_markers: bool,
    snapshot_before_diff: bool,
    cr_in_input: bool,
    /// longest marker look-alike of the sides is exactly 6 (one short of the minimum marker
    /// length) and the diff format, which prefixes content lines, was used
    six_long_lookalike_in_diff: bool,
}

enum Outcome {
    /// `merge_hunks` resolved the merge: nothing to materialize as a conflict.
    Trivial,
    Held(Features),
    Failed { signature: String, message: String },
}

/// Line indices of the first line that starts with `len` copies of each marker character.
#[derive(Default)]
struct MarkerScan {
    start_is_crlf: bool,
    first_plus: Option<usize>,
    first_diff: Option<usize>,
    has_git_ancestor: bool,
    has_git_separator: bool,
}

fn scan_markers(text: &[u8], len: usize) -> MarkerScan {
    let mut scan = MarkerScan::default();
    let mut seen_start = false;
    for (i, line) in text.split_inclusive(|b| *b == b'\n').enumerate() {
        if line.len() < len {
            continue;
        }
        let ch = line[0];
        if !matches!(ch, b'<' | b'+' | b'%' | b'|' | b'=') || !line[..len].iter().all(|b| *b == ch) {
            continue;
        }
        match ch {
            b'<' if !seen_start => {
                seen_start = true;
                scan.start_is_crlf = line.ends_with(b"\r\n");
            }
            b'+' if scan.first_plus.is_none() => scan.first_plus = Some(i),
            b'%' if scan.first_diff.is_none() => scan.first_diff = Some(i),
            b'|' => scan.has_git_ancestor = true,
            b'=' => scan.has_git_separator = true,
            _ => {}
        }
    }
    scan
}

/// Everything that depends on the merge only (shared by all configurations).
struct Prepared {
    m: Merge<BString>,
    chosen_len: usize,
    has_cr: bool,
}

fn prepare(terms: &[Vec<u8>]) -> Prepared {
    let m: Merge<BString> =
        Merge::from_vec(terms.iter().map(|t| BString::from(t.clone())).collect::<Vec<_>>());
    let chosen_len = choose_materialized_conflict_marker_len(&m);
    Prepared { m, chosen_len, has_cr: terms.iter().any(|t| t.contains(&b'\r')) }
}

/// `Ok(None)`: resolved under these merge options. `Ok(Some(hunks))`: the reference hunks.
fn reference_hunks(p: &Prepared, merge_opts: &MergeOptions) -> Result<Option<Vec<Merge<BString>>>, String> {
    match catch(|| files::merge_hunks(&p.m, merge_opts)) {
        Ok(MergeResult::Resolved(_)) => Ok(None),
        Ok(MergeResult::Conflict(hunks)) => Ok(Some(hunks)),
        Err(e) => Err(e),
    }
}

fn check_case(terms: &[Vec<u8>], cfg: &Config) -> Outcome {
    let p = prepare(terms);
    let merge_opts = MergeOptions { hunk_level: cfg.hunk_level, same_change: cfg.same_change };
    match reference_hunks(&p, &merge_opts) {
        Ok(None) => Outcome::Trivial,
        Ok(Some(expected)) => check_roundtrip(&p, &expected, cfg),
        // merge_hunks is C04's subject; a panic there still makes the round trip impossible
        Err(e) => Outcome::Failed {
            signature: "C05/merge_hunks/panic".into(),
            message: format!("merge_hunks panicked: {e}"),
        },
    }
}

fn check_roundtrip(p: &Prepared, expected: &[Merge<BString>], cfg: &Config) -> Outcome {
    let style = style_name(cfg.style);
    let m = &p.m;
    let merge_opts = MergeOptions { hunk_level: cfg.hunk_level, same_change: cfg.same_change };
    let chosen = p.chosen_len;
    let marker_len = chosen + cfg.explicit_len_delta.unwrap_or(0);
    let options = ConflictMaterializeOptions {
        marker_style: cfg.style,
        marker_len: cfg.explicit_len_delta.map(|_| marker_len),
        merge: merge_opts,
    };
    let labels = labels_for(m.as_slice().len(), cfg.labeled);
    let text = match catch(|| materialize_merge_result_to_bytes(m, &labels, &options)) {
        Ok(t) => t,
        Err(e) => {
            return Outcome::Failed {
                signature: format!("C05/materialize/{style}/panic"),
                message: format!("materialize_merge_result_to_bytes panicked: {e}"),
            };
        }
    };
    let parsed = match catch(|| parse_conflict(&text, m.num_sides(), marker_len)) {
        Ok(p) => p,
        Err(e) => {
            return Outcome::Failed {
                signature: format!("C05/parse/{style}/panic"),
                message: format!("parse_conflict panicked: {e}"),
            };
        }
    };
    let any_noeol = expected.iter().any(|h| {
        !h.is_resolved() && h.iter().any(|t| t.last().is_some_and(|b| *b != b'\n'))
    });
    let has_cr = p.has_cr;
    if parsed.as_deref() != Some(expected) {
        let flavour = match (any_noeol, has_cr) {
            (false, false) => "plain",
            (true, false) => "noeol",
            (false, true) => "cr",
            (true, true) => "noeol+cr",
        };
        let kind = match &parsed {
            None => "not-parsed",
            Some(hs) if hs.len() != expected.len() => "hunk-count",
            Some(hs) => {
                let (e, q) = expected.iter().zip(hs).find(|(e, q)| e != q).unwrap();
                if e.is_resolved() != q.is_resolved() || e.num_sides() != q.num_sides() {
                    "hunk-shape"
                } else if e.is_resolved() {
                    "resolved-text"
                } else {
                    "conflict-terms"
                }
            }
        };
        return Outcome::Failed {
            signature: format!("C05/roundtrip/{style}/{flavour}/{kind}"),
            message: format!(
                "parse_conflict(materialize(m)) differs from merge_hunks(m) ({kind}): terms {:?} config {:?} marker_len {marker_len}\n  materialized: {:?}\n  expected hunks: {:?}\n  parsed hunks:   {:?}",
                m.iter().map(|t| show(t)).collect::<Vec<_>>(),
                cfg,
                show(&text),
                expected,
                parsed,
            ),
        };
    }
    // vacuity features (observed on the real output)
    let num_conflicts = expected.iter().filter(|h| !h.is_resolved()).count();
    let scan = scan_markers(&text, marker_len);
    Outcome::Held(Features {
        escalated_len: chosen > 7,
        crlf_markers: scan.start_is_crlf,
        eol_spread: any_noeol,
        multi_conflict: num_conflicts >= 2,
        has_resolved_hunk: num_conflicts < expected.len(),
        git_markers: scan.has_git_ancestor && scan.has_git_separator,
        diff_markers: scan.first_diff.is_some(),
        snapshot_before_diff: match (scan.first_plus, scan.first_diff) {
            (Some(p), Some(d)) => p < d,
            _ => false,
        },
        cr_in_input: has_cr,
        six_long_lookalike_in_diff: chosen == 10 && scan.first_diff.is_some(),
    })
}

fn case_json(terms: &[Vec<u8>], cfg: &Config) -> Value {
    json!({
        "terms_bytes": terms,
        "terms_text": terms.iter().map(|t| show(t)).collect::<Vec<_>>(),
        "config": config_json(cfg),
    })
}

/// Plain (thread-local) tallies; merged into the shared total once per shard.
#[derive(Default, Clone)]
struct Tally {
    evals: u64,
    nontrivial: u64,
    merges: u64,
    conflicted_merges: u64,
    escalated_len: u64,
    crlf_markers: u64,
    eol_spread: u64,
    multi_conflict: u64,
    has_resolved_hunk: u64,
    git_markers: u64,
    diff_markers: u64,
    snapshot_before_diff: u64,
    cr_in_input: u64,
    eol_spread_and_cr: u64,
    word_level_conflicts: u64,
    keep_conflicts: u64,
    labeled: u64,
    explicit_len: u64,
    six_long_lookalike_in_diff: u64,
}

impl Tally {
    fn record(&mut self, f: &Features, cfg: &Config) {
        self.escalated_len += f.escalated_len as u64;
        self.crlf_markers += f.crlf_markers as u64;
        self.eol_spread += f.eol_spread as u64;
        self.multi_conflict += f.multi_conflict as u64;
        self.has_resolved_hunk += f.has_resolved_hunk as u64;
        self.git_markers += f.git_markers as u64;
        self.diff_markers += f.diff_markers as u64;
        self.snapshot_before_diff += f.snapshot_before_diff as u64;
        self.cr_in_input += f.cr_in_input as u64;
        self.eol_spread_and_cr += (f.eol_spread && f.cr_in_input) as u64;
        self.word_level_conflicts += (cfg.hunk_level == FileMergeHunkLevel::Word) as u64;
        self.keep_conflicts += (cfg.same_change == SameChange::Keep) as u64;
        self.labeled += cfg.labeled as u64;
        self.explicit_len += cfg.explicit_len_delta.is_some() as u64;
        self.six_long_lookalike_in_diff += f.six_long_lookalike_in_diff as u64;
    }
    fn merge(&mut self, o: &Tally) {
        self.evals += o.evals;
        self.nontrivial += o.nontrivial;
        self.merges += o.merges;
        self.conflicted_merges += o.conflicted_merges;
        self.escalated_len += o.escalated_len;
        self.crlf_markers += o.crlf_markers;
        self.eol_spread += o.eol_spread;
        self.multi_conflict += o.multi_conflict;
        self.has_resolved_hunk += o.has_resolved_hunk;
        self.git_markers += o.git_markers;
        self.diff_markers += o.diff_markers;
        self.snapshot_before_diff += o.snapshot_before_diff;
        self.cr_in_input += o.cr_in_input;
        self.eol_spread_and_cr += o.eol_spread_and_cr;
        self.word_level_conflicts += o.word_level_conflicts;
        self.keep_conflicts += o.keep_conflicts;
        self.labeled += o.labeled;
        self.explicit_len += o.explicit_len;
        self.six_long_lookalike_in_diff += o.six_long_lookalike_in_diff;
    }
    fn features_json(&self) -> Value {
        json!({
            "marker_len_escalated_above_7": self.escalated_len,
            "crlf_marker_lines": self.crlf_markers,
            "some_side_without_final_eol (eol spread to all sides)": self.eol_spread,
            "eol_spread_and_CR_in_input": self.eol_spread_and_cr,
            "two_or_more_conflict_hunks": self.multi_conflict,
            "with_resolved_hunks_around_conflicts": self.has_resolved_hunk,
            "git_style_markers_emitted": self.git_markers,
            "diff_markers_emitted": self.diff_markers,
            "snapshot_emitted_before_diff": self.snapshot_before_diff,
            "CR_byte_in_input": self.cr_in_input,
            "word_level_conflicts": self.word_level_conflicts,
            "same_change_keep_conflicts": self.keep_conflicts,
            "labeled": self.labeled,
            "explicit_longer_marker_len": self.explicit_len,
            "longest_lookalike_is_6_chars_and_diff_format_used": self.six_long_lookalike_in_diff,
        })
    }
}

fn main() {
    let ctx = Ctx::from_args("C05", Level::Exploration);
    vcommon::silence_panics();
    if let Some((_sig, case)) = ctx.replay_case() {
        let terms: Vec<Vec<u8>> = serde_json::from_value(case["terms_bytes"].clone())
            .unwrap_or_else(|e| vcommon::machinery_failure(&format!("bad replay case: {e}")));
        let cfg = config_from_json(&case["config"]);
        match check_case(&terms, &cfg) {
            Outcome::Failed { signature, message } => ctx.violation(&signature, message, case),
            Outcome::Trivial => println!("replay: merge is resolved (trivial case)"),
            Outcome::Held(_) => println!("replay: round trip held"),
        }
        ctx.finish(Coverage { evaluations: 1, ..Default::default() });
    }

    let configs = all_configs(ctx.thorough());
    let fams = families(&ctx);
    let mut total = Tally::default();
    let samples = Samples::new(8);
    let mut per_family = serde_json::Map::new();

    for fam in &fams {
        let n = fam.files.len();
        // shard on the first two terms
        let fam_tally = (0..n * n)
            .into_par_iter()
            .map(|shard| {
                let mut tally = Tally::default();
                let (i0, i1) = (shard / n, shard % n);
                let rest_dims = vec![n; fam.num_terms - 2];
                let mut terms: Vec<Vec<u8>> = vec![vec![]; fam.num_terms];
                terms[0] = fam.files[i0].clone();
                terms[1] = fam.files[i1].clone();
                odometer(&rest_dims, |rest| {
                    for (j, &r) in rest.iter().enumerate() {
                        terms[j + 2] = fam.files[r].clone();
                    }
                    tally.merges += 1;
                    let mut any_conflict = false;
                    let p = prepare(&terms);
                    // reference hunks per merge option (configs are grouped by merge options)
                    let mut cached: Option<(
                        FileMergeHunkLevel,
                        SameChange,
                        Result<Option<Vec<Merge<BString>>>, String>,
                    )> = None;
                    for cfg in &configs {
                        tally.evals += 1;
                        if !cached
                            .as_ref()
                            .is_some_and(|c| c.0 == cfg.hunk_level && c.1 == cfg.same_change)
                        {
                            let mo = MergeOptions {
                                hunk_level: cfg.hunk_level,
                                same_change: cfg.same_change,
                            };
                            cached = Some((cfg.hunk_level, cfg.same_change, reference_hunks(&p, &mo)));
                        }
                        let outcome = match &cached.as_ref().unwrap().2 {
                            Ok(None) => Outcome::Trivial,
                            Ok(Some(expected)) => check_roundtrip(&p, expected, cfg),
                            Err(e) => Outcome::Failed {
                                signature: "C05/merge_hunks/panic".into(),
                                message: format!("merge_hunks panicked: {e}"),
                            },
                        };
                        match outcome {
                            Outcome::Trivial => {}
                            Outcome::Held(f) => {
                                any_conflict = true;
                                tally.nontrivial += 1;
                                tally.record(&f, cfg);
                                // a few fixed, interesting cases for the evidence file
                                if f.eol_spread
                                    && f.escalated_len
                                    && f.has_resolved_hunk
                                    && tally.nontrivial % 1000 == 1
                                    && samples.wants_more()
                                {
                                    samples.offer(|| case_json(&terms, cfg));
                                }
                            }
                            Outcome::Failed { signature, message } => {
                                any_conflict = true;
                                tally.nontrivial += 1;
                                ctx.violation(&signature, message, case_json(&terms, cfg));
                            }
                        }
                    }
                    tally.conflicted_merges += any_conflict as u64;
                    true
                });
                tally
            })
            .reduce(Tally::default, |mut a, b| {
                a.merge(&b);
                a
            });
        per_family.insert(
            fam.name.to_string(),
            json!({
                "space": fam.description,
                "files": n,
                "merges": fam_tally.merges,
                "evaluations": fam_tally.evals,
                "conflicted_evaluations": fam_tally.nontrivial,
            }),
        );
        println!(
            "[C05] family {} files={} merges={} evaluations={} conflicted={} t={:.1}s",
            fam.name,
            n,
            fam_tally.merges,
            fam_tally.evals,
            fam_tally.nontrivial,
            ctx.elapsed_s()
        );
        total.merge(&fam_tally);
    }

    // vacuity: every interesting path must actually have been exercised
    let fj = total.features_json();
    println!("[C05] features: {fj}");
    // (only meaningful when nothing failed: violations skip their counters)
    if ctx.violation_count() == 0 {
        for (k, v) in fj.as_object().unwrap() {
            if v.as_u64() == Some(0) {
                vcommon::machinery_failure(&format!("vacuous: feature '{k}' never exercised"));
            }
        }
    }

    let mut extra = std::collections::BTreeMap::new();
    extra.insert("families".to_string(), Value::Object(per_family));
    extra.insert("configs_per_merge".to_string(), json!(configs.len()));
    extra.insert("merges_enumerated".to_string(), json!(total.merges));
    extra.insert("merges_conflicted_under_some_config".to_string(), json!(total.conflicted_merges));
    extra.insert("features_among_conflicted_evaluations".to_string(), fj);
    let cov = Coverage {
        evaluations: total.evals,
        distinct_nontrivial: total.nontrivial,
        rule: "every tuple of files of each family x every configuration (thorough: 2 hunk levels x 2 same-change x \
               4 styles x unlabeled/labeled + 4 styles with an explicit marker length of chosen+3 = 36; quick: labels \
               only under line/accept = 24); each (merge, configuration) is generated once; non-trivial = files::merge_hunks reports a conflict under that configuration, so \
               conflict markers are really written and parsed back"
            .into(),
        samples: samples.take(),
        exhaustive: true,
        extra,
        assumptions: vec![
            "files::merge_hunks (property C04) is taken as the definition of 'the hunks the merge produced'".into(),
            "marker length used for parsing = choose_materialized_conflict_marker_len(m) (what materialize uses when none is given), or the explicitly requested longer length".into(),
            "labels are plain single-line ASCII strings".into(),
        ],
        ..Default::default()
    };
    ctx.finish(cov);
}

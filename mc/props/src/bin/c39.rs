//! C39 — Log graph edges preserve ancestry.
//!
//! Bounded-exhaustive: every DAG on n commits (<= 3 or 4 parents, both parent orders when it
//! has a merge) built in a real repository (simple backend) with p unrelated commits before it
//! in the index (p = 0 and p = 59..63 modulo 64: the positions bit sets of the walk cross a
//! 64-bit word; 16 or 64 graphs share a repository, each is unrelated to everything before it), x
//! every non-empty subset S of {root, 1..n} as the shown set x skip_transitive_edges in
//! {false, true}. The
//! graph stream of `DefaultReadonlyIndexRevset::iter_graph_impl` (what `Revset::stream_graph`
//! and hence `jj log` use) is compared with a reference computed from the parent table:
//!
//! * the nodes are exactly S, newest (highest index position) first, hence every commit before
//!   its ancestors;
//! * a direct edge targets a shown parent; an indirect edge targets a shown ancestor reached by
//!   a path whose interior commits are all outside S (at least one of them);
//! * a missing edge targets a commit outside S from which no shown commit is reachable, and
//!   the set of missing targets is the documented one (the first such commit on every path
//!   that leaves S for good);
//! * without skipping, the non-missing targets are exactly the nearest shown ancestors R(x);
//!   with skipping they are a subset of R(x);
//! * in both modes the transitive closure of the non-missing edges equals ancestry restricted
//!   to S (every ancestry relation between shown commits is implied by the edges, and nothing
//!   else is);
//! * `Revset::stream_graph()` equals `iter_graph_impl(true)`;
//! * `reverse_graph` yields the nodes in the opposite order with exactly the converse edge
//!   relation (edge types kept, missing edges dropped); `TopoGroupedGraph` yields a
//!   permutation of the nodes with unchanged edge lists in which every node still precedes
//!   all its edge targets (hence its shown ancestors).

use std::collections::BTreeMap;
use std::collections::BTreeSet;
use std::collections::HashMap;
use std::convert::Infallible;
use std::sync::Arc;

use futures::StreamExt as _;
use jj_lib::backend::CommitId;
use jj_lib::backend::MillisSinceEpoch;
use jj_lib::backend::Signature;
use jj_lib::backend::Timestamp;
use jj_lib::default_index::DefaultReadonlyIndex;
use jj_lib::graph::GraphEdge;
use jj_lib::graph::GraphEdgeType;
use jj_lib::graph::TopoGroupedGraph;
use jj_lib::graph::reverse_graph;
use jj_lib::repo::ReadonlyRepo;
use jj_lib::repo::Repo;
use jj_lib::revset::ResolvedExpression;
use pollster::FutureExt as _;
use rayon::prelude::*;
use serde::Deserialize;
use serde::Serialize;
use serde_json::Value;
use serde_json::json;
use testutils::TestRepo;
use vcommon::Counter;
use vcommon::Coverage;
use vcommon::Ctx;
use vcommon::Level;
use vcommon::Samples;
use vcommon::catch;
use vcommon::enumerate::all_dags;
use vcommon::machinery_failure;

// ---------------------------------------------------------------------------------------
// Reference graph
// ---------------------------------------------------------------------------------------

#[derive(Clone, Debug, Serialize, Deserialize, PartialEq, Eq)]
struct GraphSpec {
    /// `parents[k]` = parents of node `k + 1`, in order. Node 0 is the root commit.
    parents: Vec<Vec<usize>>,
    /// number of unrelated commits (children of the root) written before node 1
    padding: usize,
}

struct G {
    n: usize,
    parents: Vec<Vec<usize>>,
    pmask: Vec<u32>,
    anc: Vec<u32>,
}

fn bit(i: usize) -> u32 {
    1u32 << i
}

fn nodes_of(m: u32) -> Vec<usize> {
    (0..32).filter(|&i| m >> i & 1 == 1).collect()
}

impl G {
    fn new(spec: &GraphSpec) -> G {
        let n = spec.parents.len();
        let mut parents = vec![vec![]];
        parents.extend(spec.parents.iter().cloned());
        let mut anc = vec![0u32; n + 1];
        let mut pmask = vec![0u32; n + 1];
        for i in 0..=n {
            let mut m = bit(i);
            for &p in &parents[i] {
                if p >= i {
                    machinery_failure("graph spec is not topologically numbered");
                }
                m |= anc[p];
                pmask[i] |= bit(p);
            }
            anc[i] = m;
        }
        G { n, parents, pmask, anc }
    }
}

/// What the reference says about one shown commit.
#[derive(Default, Clone)]
struct RefNode {
    /// shown parents
    direct: u32,
    /// shown ancestors reached through >= 1 commit outside S (interior entirely outside S)
    through_outside: u32,
    /// documented missing targets
    missing: u32,
}

/// Explicit path search (no memoisation, the graphs are tiny): walks from `x` through commits
/// outside `s`.
fn reference_node(g: &G, s: u32, x: usize) -> RefNode {
    fn live(g: &G, s: u32, e: usize) -> bool {
        g.anc[e] & s != 0
    }
    fn walk_outside(g: &G, s: u32, e: usize, out: &mut RefNode) {
        // e is outside S and live
        for &p in &g.parents[e] {
            if s & bit(p) != 0 {
                out.through_outside |= bit(p);
            } else if live(g, s, p) {
                walk_outside(g, s, p, out);
            } else {
                out.missing |= bit(p);
            }
        }
    }
    let mut out = RefNode::default();
    for &p in &g.parents[x] {
        if s & bit(p) != 0 {
            out.direct |= bit(p);
        } else if live(g, s, p) {
            walk_outside(g, s, p, &mut out);
        } else {
            out.missing |= bit(p);
        }
    }
    out
}

// ---------------------------------------------------------------------------------------
// Real code
// ---------------------------------------------------------------------------------------

#[derive(Clone, Copy, Debug, PartialEq, Eq, PartialOrd, Ord)]
enum Ty {
    Direct,
    Indirect,
    Missing,
}

fn ty_of(t: GraphEdgeType) -> Ty {
    match t {
        GraphEdgeType::Direct => Ty::Direct,
        GraphEdgeType::Indirect => Ty::Indirect,
        GraphEdgeType::Missing => Ty::Missing,
    }
}

type NodeRow = (usize, Vec<(Ty, usize)>);
type IdRow = (CommitId, Vec<GraphEdge<CommitId>>);

struct Ids {
    ids: Vec<CommitId>,
    map: HashMap<CommitId, usize>,
}

fn to_rows(ids: &Ids, rows: &[IdRow]) -> Result<Vec<NodeRow>, String> {
    let node = |id: &CommitId| ids.map.get(id).copied().ok_or_else(|| format!("commit {id} is not a commit of the graph (padding commit?)"));
    rows.iter()
        .map(|(id, edges)| {
            let es: Result<Vec<(Ty, usize)>, String> =
                edges.iter().map(|e| Ok((ty_of(e.edge_type), node(&e.target)?))).collect();
            Ok((node(id)?, es?))
        })
        .collect()
}

struct Fail {
    sig: String,
    msg: String,
}

fn mode_name(skip: bool) -> &'static str {
    if skip { "skip" } else { "keep" }
}

struct WalkInfo {
    edges: usize,
    indirect: usize,
    missing: usize,
    duplicate_targets: usize,
    indirect_to_parent: usize,
    skipped_edges: usize,
    topo_reordered: bool,
}

/// The oracle for one (graph, shown set, mode).
fn check_walk(repo: &ReadonlyRepo, g: &G, ids: &Ids, s: u32, skip: bool, helpers: bool) -> Result<WalkInfo, Fail> {
    let mode = mode_name(skip);
    let shown = nodes_of(s);
    let show = |rows: &[NodeRow]| -> String {
        rows.iter()
            .map(|(x, es)| {
                let e: Vec<String> = es
                    .iter()
                    .map(|(t, y)| format!("{}(n{y})", match t { Ty::Direct => "direct", Ty::Indirect => "indirect", Ty::Missing => "missing" }))
                    .collect();
                format!("n{x}: [{}]", e.join(", "))
            })
            .collect::<Vec<_>>()
            .join("; ")
    };
    let ctxt = format!("parents {:?}, shown {:?}, {mode} transitive edges", &g.parents[1..], shown);
    let index: &DefaultReadonlyIndex = repo
        .readonly_index()
        .downcast_ref()
        .unwrap_or_else(|| machinery_failure("not the default index"));
    let expr = ResolvedExpression::Commits(shown.iter().map(|&i| ids.ids[i].clone()).collect());
    let run = || -> Result<(Vec<IdRow>, Option<Vec<IdRow>>), String> {
        let revset = index.evaluate_revset_impl(&expr, repo.store()).map_err(|e| format!("evaluation: {e}"))?;
        let rows: Vec<IdRow> = revset
            .iter_graph_impl(skip)
            .collect::<Result<Vec<_>, _>>()
            .map_err(|e| format!("graph walk: {e}"))?;
        let public = if skip {
            let revset = revset.into_inner();
            let rows2: Vec<_> = revset.stream_graph().collect::<Vec<_>>().block_on();
            Some(rows2.into_iter().collect::<Result<Vec<_>, _>>().map_err(|e| format!("stream_graph: {e}"))?)
        } else {
            None
        };
        Ok((rows, public))
    };
    let (id_rows, public) = catch(run)
        .map_err(|p| Fail { sig: format!("C39/{mode}/panic"), msg: format!("{ctxt}: graph walk panicked: {p}") })?
        .map_err(|e| Fail { sig: format!("C39/{mode}/error"), msg: format!("{ctxt}: {e}") })?;
    let rows = to_rows(ids, &id_rows)
        .map_err(|e| Fail { sig: format!("C39/{mode}/unknown-commit"), msg: format!("{ctxt}: {e}") })?;
    let fail = |clause: &str, what: String| Fail {
        sig: format!("C39/{mode}/{clause}"),
        msg: format!("{ctxt}: {what}; stream = {}", show(&rows)),
    };
    if let Some(public) = public {
        if public != id_rows {
            return Err(fail("stream_graph-differs", "Revset::stream_graph() differs from iter_graph_impl(true)".into()));
        }
    }
    // --- nodes: exactly S, newest first
    let order: Vec<usize> = rows.iter().map(|r| r.0).collect();
    let mut expected_order = shown.clone();
    expected_order.reverse();
    let as_set: BTreeSet<usize> = order.iter().copied().collect();
    if as_set.len() != order.len() || as_set != shown.iter().copied().collect() {
        return Err(fail("nodes/not-the-shown-set", format!("nodes {order:?} are not exactly the shown set")));
    }
    for (i, &x) in order.iter().enumerate() {
        if let Some(&later) = order[i + 1..].iter().find(|&&y| g.anc[y] & bit(x) != 0) {
            return Err(fail("nodes/ancestor-before-descendant", format!("n{x} appears before its descendant n{later}")));
        }
    }
    if order != expected_order {
        return Err(fail("nodes/not-newest-first", format!("nodes {order:?} are not in descending index order")));
    }
    // --- edges
    let mut info = WalkInfo { edges: 0, indirect: 0, missing: 0, duplicate_targets: 0, indirect_to_parent: 0, skipped_edges: 0, topo_reordered: false };
    let mut adj: BTreeMap<usize, u32> = BTreeMap::new();
    for (x, edges) in &rows {
        let x = *x;
        let r = reference_node(g, s, x);
        let nearest = r.direct | r.through_outside;
        // second formulation of "nearest shown ancestors": a in S, a proper ancestor of x, and
        // some path x -> a avoids S in its interior, i.e. a is a shown ancestor that is not
        // hidden behind other shown commits on *every* path. Cross-check by brute force over
        // all paths.
        {
            fn paths(g: &G, s: u32, at: usize, first: bool, out: &mut u32) {
                if !first && s & bit(at) != 0 {
                    *out |= bit(at);
                    return;
                }
                for &p in &g.parents[at] {
                    paths(g, s, p, false, out);
                }
            }
            let mut again = 0;
            paths(g, s, x, true, &mut again);
            if again != nearest {
                machinery_failure("oracle inconsistency: nearest shown ancestors");
            }
        }
        let mut non_missing = 0u32;
        let mut missing = 0u32;
        let mut seen_targets = BTreeSet::new();
        for &(ty, t) in edges {
            info.edges += 1;
            if !seen_targets.insert(t) {
                info.duplicate_targets += 1;
            }
            match ty {
                Ty::Direct => {
                    if s & bit(t) == 0 {
                        return Err(fail("direct/target-not-shown", format!("n{x} has a direct edge to n{t}, which is not shown")));
                    }
                    if g.pmask[x] & bit(t) == 0 {
                        return Err(fail("direct/not-a-parent", format!("n{x} has a direct edge to n{t}, which is not one of its parents {:?}", g.parents[x])));
                    }
                    non_missing |= bit(t);
                }
                Ty::Indirect => {
                    info.indirect += 1;
                    if s & bit(t) == 0 {
                        return Err(fail("indirect/target-not-shown", format!("n{x} has an indirect edge to n{t}, which is not shown")));
                    }
                    if g.anc[x] & bit(t) == 0 || t == x {
                        return Err(fail("indirect/not-an-ancestor", format!("n{x} has an indirect edge to n{t}, which is not an ancestor")));
                    }
                    if r.through_outside & bit(t) == 0 {
                        return Err(fail(
                            "indirect/not-reached-through-hidden-commits-only",
                            format!("n{x} has an indirect edge to n{t}, but no path from n{x} to n{t} runs only through commits outside the shown set"),
                        ));
                    }
                    if g.pmask[x] & bit(t) != 0 {
                        info.indirect_to_parent += 1;
                    }
                    non_missing |= bit(t);
                }
                Ty::Missing => {
                    info.missing += 1;
                    if s & bit(t) != 0 {
                        return Err(fail("missing/target-is-shown", format!("n{x} has a missing edge to the shown commit n{t}")));
                    }
                    if g.anc[x] & bit(t) == 0 || t == x {
                        return Err(fail("missing/not-an-ancestor", format!("n{x} has a missing edge to n{t}, which is not an ancestor")));
                    }
                    if g.anc[t] & s != 0 {
                        return Err(fail("missing/leads-back-into-the-shown-set", format!("n{x} has a missing edge to n{t}, from which shown commits {:?} are reachable", nodes_of(g.anc[t] & s))));
                    }
                    missing |= bit(t);
                }
            }
        }
        if missing != r.missing {
            return Err(fail(
                "missing/set-differs",
                format!("n{x} has missing edges to {:?}, the paths leaving the shown set for good first reach {:?}", nodes_of(missing), nodes_of(r.missing)),
            ));
        }
        if non_missing & !nearest != 0 {
            return Err(fail(
                "edges/target-behind-another-shown-commit",
                format!("n{x} has an edge to {:?}, reachable only through other shown commits (nearest shown ancestors: {:?})", nodes_of(non_missing & !nearest), nodes_of(nearest)),
            ));
        }
        if !skip && non_missing != nearest {
            return Err(fail(
                "edges/nearest-ancestor-without-edge",
                format!("n{x} has edges to {:?} but its nearest shown ancestors are {:?}", nodes_of(non_missing), nodes_of(nearest)),
            ));
        }
        info.skipped_edges += (nearest & !non_missing).count_ones() as usize;
        adj.insert(x, non_missing);
    }
    // --- every ancestry relation between shown commits is implied by the edges (and no other)
    for &x in &shown {
        let mut reach = 0u32;
        let mut todo = vec![x];
        while let Some(c) = todo.pop() {
            for t in nodes_of(adj[&c]) {
                if reach & bit(t) == 0 {
                    reach |= bit(t);
                    todo.push(t);
                }
            }
        }
        let want = g.anc[x] & s & !bit(x);
        if reach & !want != 0 {
            return Err(fail("closure/non-ancestor-implied", format!("the edges imply that {:?} are ancestors of n{x}, which they are not", nodes_of(reach & !want))));
        }
        if want & !reach != 0 {
            return Err(fail("closure/ancestor-not-implied", format!("n{x} descends from the shown commits {:?} but no chain of edges leads there", nodes_of(want & !reach))));
        }
    }
    if !helpers {
        return Ok(info);
    }
    // --- reverse_graph
    let reversed = catch(|| reverse_graph(id_rows.iter().cloned().map(Ok::<_, Infallible>), |id| id))
        .map_err(|p| Fail { sig: format!("C39/{mode}/reverse/panic"), msg: format!("{ctxt}: reverse_graph panicked: {p}") })?
        .unwrap_or_else(|e| match e {});
    let rev_rows = to_rows(ids, &reversed)
        .map_err(|e| Fail { sig: format!("C39/{mode}/reverse/unknown-commit"), msg: format!("{ctxt}: {e}") })?;
    let rev_order: Vec<usize> = rev_rows.iter().map(|r| r.0).collect();
    if rev_order != shown {
        return Err(fail("reverse/order", format!("reverse_graph lists {rev_order:?}, the reverse of the input is {shown:?}")));
    }
    let mut fwd_rel: Vec<(usize, Ty, usize)> = vec![];
    for (x, es) in &rows {
        for &(ty, t) in es {
            if ty != Ty::Missing {
                fwd_rel.push((t, ty, *x));
            }
        }
    }
    fwd_rel.sort();
    let mut rev_rel: Vec<(usize, Ty, usize)> = vec![];
    for (y, es) in &rev_rows {
        for &(ty, child) in es {
            rev_rel.push((*y, ty, child));
        }
    }
    rev_rel.sort();
    if fwd_rel != rev_rel {
        return Err(fail("reverse/relation", format!("reverse_graph = {} is not the converse of the input", show(&rev_rows))));
    }
    // --- TopoGroupedGraph
    let topo = catch(|| {
        let input = futures::stream::iter(id_rows.iter().cloned().map(Ok::<_, Infallible>));
        let grouped = TopoGroupedGraph::new(input, |id: &CommitId| id);
        let out: Vec<_> = grouped.stream().boxed_local().collect::<Vec<_>>().block_on();
        out.into_iter().map(|r| r.unwrap_or_else(|e| match e {})).collect::<Vec<IdRow>>()
    })
    .map_err(|p| Fail { sig: format!("C39/{mode}/topo/panic"), msg: format!("{ctxt}: TopoGroupedGraph panicked: {p}") })?;
    let topo_rows = to_rows(ids, &topo)
        .map_err(|e| Fail { sig: format!("C39/{mode}/topo/unknown-commit"), msg: format!("{ctxt}: {e}") })?;
    let topo_order: Vec<usize> = topo_rows.iter().map(|r| r.0).collect();
    let topo_set: BTreeSet<usize> = topo_order.iter().copied().collect();
    if topo_set.len() != topo_order.len() || topo_order.len() != order.len() || topo_set != as_set {
        return Err(fail("topo/not-a-permutation", format!("TopoGroupedGraph lists {topo_order:?}")));
    }
    let by_node: BTreeMap<usize, &Vec<(Ty, usize)>> = rows.iter().map(|(x, es)| (*x, es)).collect();
    for (i, (x, es)) in topo_rows.iter().enumerate() {
        if by_node[x] != es {
            return Err(fail("topo/edges-changed", format!("TopoGroupedGraph changed the edges of n{x} to {es:?}")));
        }
        if let Some(&later) = topo_order[i + 1..].iter().find(|&&y| g.anc[y] & bit(*x) != 0) {
            return Err(fail("topo/ancestor-before-descendant", format!("TopoGroupedGraph lists n{x} before its descendant n{later} ({topo_order:?})")));
        }
    }
    info.topo_reordered = topo_order != order;
    Ok(info)
}

// ---------------------------------------------------------------------------------------
// Building repositories
// ---------------------------------------------------------------------------------------

fn signature(ts: i64) -> Signature {
    Signature {
        name: "c39".to_string(),
        email: "c39@example.com".to_string(),
        timestamp: Timestamp { timestamp: MillisSinceEpoch(ts), tz_offset: 0 },
    }
}

struct Built {
    _test_repo: TestRepo,
    repo: Arc<ReadonlyRepo>,
}

/// Builds one repository holding `first_padding` unrelated commits followed by the given
/// graphs one after the other (each graph is unrelated to everything before it, so for each of
/// them all earlier commits are padding). Returns the graphs with their actual padding.
///
/// With `align`, filler commits are inserted before every graph so that the number of commits
/// preceding it is congruent to `first_padding` modulo 64 (every graph gets the same alignment
/// relative to the 64-bit words of the walk's bit sets).
fn build_many(first_padding: usize, align: bool, graphs: &[Vec<Vec<usize>>]) -> (Built, Vec<(GraphSpec, G, Ids)>) {
    let test_repo = TestRepo::init_with_backend(testutils::TestRepoBackend::Simple);
    let repo0 = test_repo.repo.clone();
    let root = repo0.store().root_commit_id().clone();
    let mut tx = repo0.start_transaction();
    let mut clock = 0i64;
    let mut written = 0usize;
    let mut creation_order: Vec<CommitId> = vec![root.clone()];
    let mut write = |tx: &mut jj_lib::transaction::Transaction, parents: Vec<CommitId>, desc: String| -> CommitId {
        clock += 1000;
        let tree = tx.repo_mut().store().empty_merged_tree();
        let sig = signature(clock);
        let id = tx
            .repo_mut()
            .new_commit(parents, tree)
            .set_description(desc)
            .set_author(sig.clone())
            .set_committer(sig)
            .write()
            .block_on()
            .unwrap_or_else(|e| machinery_failure(&format!("cannot write commit: {e}")))
            .id()
            .clone();
        creation_order.push(id.clone());
        id
    };
    for k in 0..first_padding {
        write(&mut tx, vec![root.clone()], format!("pad{k}"));
        written += 1;
    }
    let mut out = vec![];
    for (j, parents) in graphs.iter().enumerate() {
        while align && written % 64 != first_padding % 64 {
            write(&mut tx, vec![root.clone()], format!("fill{written}"));
            written += 1;
        }
        let spec = GraphSpec { parents: parents.clone(), padding: written };
        let g = G::new(&spec);
        let mut id_list = vec![root.clone()];
        for i in 1..=g.n {
            let parents: Vec<CommitId> = g.parents[i].iter().map(|&p| id_list[p].clone()).collect();
            let id = write(&mut tx, parents, format!("g{j}n{i}"));
            written += 1;
            id_list.push(id);
        }
        let map: HashMap<CommitId, usize> = id_list.iter().cloned().enumerate().map(|(i, id)| (id, i)).collect();
        if map.len() != id_list.len() {
            machinery_failure("commit ids collide");
        }
        out.push((spec, g, Ids { ids: id_list, map }));
    }
    let repo = tx.commit("c39 graphs").block_on().unwrap_or_else(|e| machinery_failure(&format!("commit: {e}")));
    let index: &DefaultReadonlyIndex =
        repo.readonly_index().downcast_ref().unwrap_or_else(|| machinery_failure("not the default index"));
    if index.stats().num_commits as usize != 1 + written {
        machinery_failure("index does not contain exactly the created commits");
    }
    // index positions are creation order: `all()` lists by descending position, so it must be
    // the exact reverse of the order of writing (root = position 0); with that the claimed
    // padding of every graph is its real offset in the index
    let listed: Vec<CommitId> = jj_lib::revset::ResolvedRevsetExpression::all()
        .evaluate(repo.as_ref())
        .unwrap_or_else(|e| machinery_failure(&format!("all(): {e}")))
        .stream()
        .collect::<Vec<_>>()
        .block_on()
        .into_iter()
        .map(|r| r.unwrap_or_else(|e| machinery_failure(&format!("all(): {e}"))))
        .collect();
    let mut expected: Vec<CommitId> = creation_order.clone();
    expected.reverse();
    if listed != expected {
        machinery_failure("index order is not creation order");
    }
    (Built { _test_repo: test_repo, repo }, out)
}

// ---------------------------------------------------------------------------------------
// Enumeration
// ---------------------------------------------------------------------------------------

struct Stats {
    walks: Counter,
    nontrivial: Counter,
    repos: Counter,
    graphs: Counter,
    graphs_straddling_a_word: Counter,
    repos_with_octopus: Counter,
    edges: Counter,
    indirect: Counter,
    missing: Counter,
    duplicate_targets: Counter,
    indirect_to_parent: Counter,
    skipped_edges: Counter,
    walks_with_skipped_edge: Counter,
    helper_walks: Counter,
    topo_reordered: Counter,
    sets_with_root: Counter,
}

fn case_json(spec: &GraphSpec, s: u32, skip: bool) -> Value {
    json!({"graph": spec, "shown": nodes_of(s), "skip_transitive_edges": skip})
}

/// One repository with `first_padding` unrelated commits and then the given graphs.
fn run_repo(ctx: &Ctx, st: &Stats, samples: &Samples, first_padding: usize, align: bool, helpers_keep: bool, graphs: &[Vec<Vec<usize>>]) {
    let (built, members) = build_many(first_padding, align, graphs);
    st.repos.inc();
    for (spec, g, ids) in &members {
        run_graph(ctx, st, samples, &built, spec, g, ids, helpers_keep);
    }
}

/// `helpers_keep`: also run reverse_graph / TopoGroupedGraph over the keep-mode stream (they
/// always run over the skip-mode stream, the one `jj log` uses).
fn run_graph(ctx: &Ctx, st: &Stats, samples: &Samples, built: &Built, spec: &GraphSpec, g: &G, ids: &Ids, helpers_keep: bool) {
    st.graphs.inc();
    if (spec.padding + 1) / 64 != (spec.padding + g.n) / 64 {
        st.graphs_straddling_a_word.inc();
    }
    if g.parents.iter().any(|p| p.len() >= 3) {
        st.repos_with_octopus.inc();
    }
    for s in 1u32..(1u32 << (g.n + 1)) {
        if s & 1 != 0 {
            st.sets_with_root.inc();
        }
        for skip in [false, true] {
            st.walks.inc();
            let helpers = skip || helpers_keep;
            if helpers {
                st.helper_walks.inc();
            }
            match check_walk(built.repo.as_ref(), g, ids, s, skip, helpers) {
                Ok(info) => {
                    st.edges.add(info.edges as u64);
                    st.indirect.add(info.indirect as u64);
                    st.missing.add(info.missing as u64);
                    st.duplicate_targets.add(info.duplicate_targets as u64);
                    st.indirect_to_parent.add(info.indirect_to_parent as u64);
                    st.skipped_edges.add(info.skipped_edges as u64);
                    if info.indirect > 0 {
                        st.nontrivial.inc();
                    }
                    if info.skipped_edges > 0 {
                        st.walks_with_skipped_edge.inc();
                        if info.indirect >= 2 && spec.padding > 0 {
                            samples.offer(|| {
                                let mut c = case_json(spec, s, skip);
                                c["edges_skipped_as_transitive"] = json!(info.skipped_edges);
                                c
                            });
                        }
                    }
                    if info.topo_reordered {
                        st.topo_reordered.inc();
                    }
                }
                Err(f) => ctx.violation(&f.sig, f.msg, case_json(spec, s, skip)),
            }
        }
    }
}

/// every DAG, with `both_orders` in both parent orders when it has a merge
fn variants(n: usize, max_parents: usize, both_orders: bool) -> Vec<Vec<Vec<usize>>> {
    let mut out = vec![];
    for dag in all_dags(n, max_parents) {
        let fwd: Vec<Vec<usize>> =
            dag.parents.iter().map(|ps| if ps.is_empty() { vec![0] } else { ps.iter().map(|p| p + 1).collect() }).collect();
        let has_merge = fwd.iter().any(|p| p.len() >= 2);
        if has_merge && both_orders {
            out.push(fwd.iter().map(|p| p.iter().rev().copied().collect()).collect());
        }
        out.push(fwd);
    }
    out
}

fn replay(case: &Value) -> Result<(), Fail> {
    let spec: GraphSpec = serde_json::from_value(case["graph"].clone())
        .unwrap_or_else(|e| machinery_failure(&format!("bad replay graph: {e}")));
    let shown: Vec<usize> = serde_json::from_value(case["shown"].clone())
        .unwrap_or_else(|e| machinery_failure(&format!("bad replay shown set: {e}")));
    let skip = case["skip_transitive_edges"].as_bool().unwrap_or_else(|| machinery_failure("bad replay mode"));
    let (built, members) = build_many(spec.padding, false, std::slice::from_ref(&spec.parents));
    let (_, g, ids) = &members[0];
    let s = shown.iter().fold(0, |a, &i| a | bit(i));
    check_walk(built.repo.as_ref(), g, ids, s, skip, true).map(|_| ())
}

fn main() {
    let ctx = Ctx::from_args("C39", Level::Exploration);
    vcommon::silence_panics();
    if let Some((_sig, case)) = ctx.replay_case() {
        if let Err(f) = replay(&case) {
            ctx.violation(&f.sig, f.msg, case);
        }
        ctx.finish(Coverage { evaluations: 1, ..Default::default() });
    }
    // Plans. Repositories hold 16 (aligned) or 64 (packed) graph variants written one after the other (each graph is
    // unrelated to everything before it). `Aligned(ps)`: for every p in ps, filler commits make
    // the number of commits preceding every graph congruent to p modulo 64 (p = 0, 64, 128, ...
    // for p = 0), so every graph is walked at exactly that alignment to the 64-bit words of
    // the bit sets. `Packed(ps)`: no filler, only p unrelated commits first, so the graphs sit
    // at varied offsets.
    enum Layout {
        Aligned(Vec<usize>),
        Packed(Vec<usize>),
    }
    // (commits, max parents, both parent orders of merges?, helpers also over the keep-mode stream?, layout)
    let plans: Vec<(usize, usize, bool, bool, Layout)> = ctx.pick(
        vec![(5, 3, true, true, Layout::Aligned(vec![0, 61])), (6, 2, false, false, Layout::Packed(vec![58]))],
        vec![
            (5, 4, true, true, Layout::Aligned(vec![0, 59, 60, 61, 62, 63])),
            (6, 3, true, true, Layout::Aligned(vec![0, 62])),
            (6, 3, true, true, Layout::Packed(vec![58, 60])),
        ],
    );
    let st = Stats {
        walks: Counter::new(),
        nontrivial: Counter::new(),
        repos: Counter::new(),
        graphs: Counter::new(),
        graphs_straddling_a_word: Counter::new(),
        repos_with_octopus: Counter::new(),
        edges: Counter::new(),
        indirect: Counter::new(),
        missing: Counter::new(),
        duplicate_targets: Counter::new(),
        indirect_to_parent: Counter::new(),
        skipped_edges: Counter::new(),
        walks_with_skipped_edge: Counter::new(),
        helper_walks: Counter::new(),
        topo_reordered: Counter::new(),
        sets_with_root: Counter::new(),
    };
    let samples = Samples::new(5);
    let mut plan_desc = vec![];
    for (n, max_parents, both_orders, helpers_keep, layout) in &plans {
        let (w0, r0, g0, x0) = (st.walks.get(), st.repos.get(), st.graphs.get(), st.graphs_straddling_a_word.get());
        let t0 = ctx.elapsed_s();
        let vs = variants(*n, *max_parents, *both_orders);
        let (name, paddings, align) = match layout {
            Layout::Aligned(paddings) => ("16 graph variants per repository, each preceded by filler commits up to the padding modulo 64", paddings, true),
            Layout::Packed(paddings) => ("64 graph variants per repository, one directly after the other behind the padding", paddings, false),
        };
        let per_repo = if align { 16 } else { 64 };
        let jobs: Vec<(usize, &[Vec<Vec<usize>>])> = paddings.iter().flat_map(|&p| vs.chunks(per_repo).map(move |c| (p, c))).collect();
        jobs.par_iter().for_each(|(p, c)| run_repo(&ctx, &st, &samples, *p, align, *helpers_keep, c));
        plan_desc.push(json!({
            "commits": n,
            "max_parents": max_parents,
            "both_parent_orders_of_merges": both_orders,
            "reverse_and_topo_helpers_also_over_keep_mode_streams": helpers_keep,
            "graph_variants": vs.len(),
            "layout": name,
            "paddings": paddings,
            "repositories": st.repos.get() - r0,
            "graphs_walked": st.graphs.get() - g0,
            "graphs_whose_positions_straddle_a_64_bit_word": st.graphs_straddling_a_word.get() - x0,
            "walks": st.walks.get() - w0,
            "wall_s": ((ctx.elapsed_s() - t0) * 10.0).round() / 10.0,
        }));
    }
    if ctx.violation_count() == 0 {
        for (name, c) in [
            ("indirect", &st.indirect),
            ("missing", &st.missing),
            ("walks_with_skipped_edge", &st.walks_with_skipped_edge),
            ("topo_reordered", &st.topo_reordered),
            ("repos_with_octopus", &st.repos_with_octopus),
            ("graphs_straddling_a_word", &st.graphs_straddling_a_word),
        ] {
            if c.get() == 0 {
                machinery_failure(&format!("vacuous: counter {name} is zero"));
            }
        }
    }
    let mut extra: BTreeMap<String, Value> = BTreeMap::new();
    extra.insert("plans".into(), json!(plan_desc));
    extra.insert("repositories_built".into(), json!(st.repos.get()));
    extra.insert("graphs_walked".into(), json!(st.graphs.get()));
    extra.insert("graphs_whose_positions_straddle_a_64_bit_word".into(), json!(st.graphs_straddling_a_word.get()));
    extra.insert("graphs_with_a_3_parent_merge".into(), json!(st.repos_with_octopus.get()));
    extra.insert("edges_checked".into(), json!(st.edges.get()));
    extra.insert("indirect_edges".into(), json!(st.indirect.get()));
    extra.insert("missing_edges".into(), json!(st.missing.get()));
    extra.insert("edges_repeating_a_target_of_the_same_node".into(), json!(st.duplicate_targets.get()));
    extra.insert("indirect_edges_to_a_commit_that_is_also_a_parent".into(), json!(st.indirect_to_parent.get()));
    extra.insert("nearest_ancestor_edges_left_out_in_skip_mode".into(), json!(st.skipped_edges.get()));
    extra.insert("walks_where_skip_mode_left_out_an_edge".into(), json!(st.walks_with_skipped_edge.get()));
    extra.insert("walks_also_run_through_reverse_graph_and_TopoGroupedGraph".into(), json!(st.helper_walks.get()));
    extra.insert("walks_reordered_by_TopoGroupedGraph".into(), json!(st.topo_reordered.get()));
    extra.insert("shown_sets_containing_the_root".into(), json!(st.sets_with_root.get()));
    let cov = Coverage {
        evaluations: st.walks.get(),
        distinct_nontrivial: st.nontrivial.get(),
        rule: "case = (commit graph [every DAG on n commits with <= max_parents parents, both parent orders if it has a \
               merge where the plan says so], padding [that many unrelated commits precede it in the index: the listed paddings, or its \
               offset in a packed repository], shown set [every non-empty subset of \
               {root, 1..n}], skip_transitive_edges [false, true]); each case is generated once and is one graph walk of \
               the real RevsetGraphWalk plus (for every skip-mode walk, and for keep-mode walks where the plan says so) \
               reverse_graph and TopoGroupedGraph over its output; non-trivial = the walk \
               produced at least one indirect edge (some shown commit has a hidden parent that leads back into the set)"
            .into(),
        samples: samples.take(),
        exhaustive: true,
        extra,
        assumptions: vec![
            "index order = creation order (children are written after their parents), so 'newest first' is descending index position".into(),
            "an indirect edge to a commit that is also a parent is accepted when a path through hidden commits exists as well (the statement does not forbid it); such edges and repeated targets are counted".into(),
            "missing edges are not mentioned by the statement; they are held to the documentation of RevsetGraphWalk (one missing edge for each edge leading outside the set for good, attached to the first commit from which no shown commit is reachable)".into(),
            "with skip_transitive_edges any subset of the nearest-shown-ancestor edges is accepted as long as the closure still equals ancestry".into(),
            "TopoGroupedGraph is run without prioritized branches".into(),
        ],
        ..Default::default()
    };
    ctx.finish(cov);
}

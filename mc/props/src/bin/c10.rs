//! C10 — Visible heads are normalized and cover everything referenced.
//!
//! Explicit-state breadth-first search over transactions on a real repository
//! (`TestRepo`: simple op store, default index, op-heads store on tmpfs). A history is
//! `Build(dag)` followed by steps; a step is one transaction of 1-2 primitive actions on the
//! current head operation, one transaction started at the *initial* operation (so that it is
//! concurrent with everything since), or a fork of two concurrent single-action
//! transactions; after every step the repo is reloaded from disk with `load_at_head`, which
//! runs the real operation merge when there are several op heads. After every committed
//! (and every merged) operation the oracle inspects the recorded view with ancestry
//! computed from the commit objects, never from the index.

use std::collections::BTreeMap;
use std::collections::HashSet;
use std::sync::Arc;
use std::sync::Mutex;

use jj_lib::backend::CommitId;
use jj_lib::backend::MillisSinceEpoch;
use jj_lib::backend::Signature;
use jj_lib::backend::Timestamp;
use jj_lib::commit::Commit;
use jj_lib::merge::Merge;
use jj_lib::op_store::RefTarget;
use jj_lib::ref_name::RefName;
use jj_lib::ref_name::WorkspaceNameBuf;
use jj_lib::repo::MutableRepo;
use jj_lib::repo::ReadonlyRepo;
use jj_lib::repo::Repo as _;
use jj_lib::settings::UserSettings;
use jj_lib::view::View;
use pollster::FutureExt as _;
use serde::Deserialize;
use serde::Serialize;
use serde_json::json;
use testutils::TestRepo;
use vcommon::Counter;
use vcommon::Coverage;
use vcommon::Ctx;
use vcommon::Level;
use vcommon::bfs::BfsConfig;
use vcommon::bfs::StepResult;
use vcommon::bfs::search;
use vcommon::catch;
use vcommon::enumerate::all_dags;
use vcommon::fnv;
use vcommon::machinery_failure;

// ---------------------------------------------------------------------------------------
// Actions
// ---------------------------------------------------------------------------------------

/// Commits are named by their slot in the per-history commit table (slot 0 = root commit;
/// then in creation / discovery order, which is a function of the history).
#[derive(Clone, Debug, Serialize, Deserialize, PartialEq, Eq)]
enum Act {
    /// new commit on 1-2 parents (visible or hidden; root only alone)
    New(Vec<usize>),
    /// `rewrite_commit(x).write()` (descendants are rebased at the end of the transaction)
    Rewrite(usize),
    /// `record_abandoned_commit(x)` (ditto)
    Abandon(usize),
    /// set bookmark b{0} to: [] = absent, [x] = normal, [x, z] = conflict x + z (base absent)
    Bookmark(u8, Vec<usize>),
    /// raw `set_wc_commit` (visible targets only: it is the low-level setter)
    SetWc(u8, usize),
    /// `edit(ws, x)`
    Edit(u8, usize),
    /// `check_out(ws, x)`: new working-copy commit on top of x
    CheckOut(u8, usize),
    /// `add_head(x)` of a hidden commit
    AddHead(usize),
    /// `set_view(view of the initial operation)` (what `jj op restore` does)
    RestoreInitialView,
}

#[derive(Clone, Debug, Serialize, Deserialize, PartialEq, Eq)]
enum Step {
    /// first step: create this DAG (parents lists, topologically numbered) in one transaction
    Build(Vec<Vec<usize>>),
    /// one transaction on the current head operation
    Tx(Vec<Act>),
    /// one transaction started at the initial operation (concurrent with everything since)
    TxAtInitial(Vec<Act>),
    /// two concurrent transactions started at the current head operation
    Fork(Vec<Act>, Vec<Act>),
}

fn act_label(a: &Act) -> &'static str {
    match a {
        Act::New(p) if p.len() == 1 => "new1",
        Act::New(_) => "new2",
        Act::Rewrite(_) => "rewrite",
        Act::Abandon(_) => "abandon",
        Act::Bookmark(_, t) if t.is_empty() => "bm-delete",
        Act::Bookmark(_, t) if t.len() == 1 => "bm-normal",
        Act::Bookmark(_, _) => "bm-conflict",
        Act::SetWc(..) => "set-wc",
        Act::Edit(..) => "edit",
        Act::CheckOut(..) => "check-out",
        Act::AddHead(_) => "add-head",
        Act::RestoreInitialView => "restore-view",
    }
}

fn act_slots(a: &Act) -> Vec<usize> {
    match a {
        Act::New(p) => p.clone(),
        Act::Bookmark(_, t) => t.clone(),
        Act::Rewrite(x) | Act::Abandon(x) | Act::AddHead(x) => vec![*x],
        Act::SetWc(_, x) | Act::Edit(_, x) | Act::CheckOut(_, x) => vec![*x],
        Act::RestoreInitialView => vec![],
    }
}

fn step_label(s: &Step) -> String {
    let acts = |v: &Vec<Act>| v.iter().map(act_label).collect::<Vec<_>>().join("+");
    match s {
        Step::Build(d) => format!("build{}", d.len()),
        Step::Tx(a) => format!("tx:{}", acts(a)),
        Step::TxAtInitial(a) => format!("at-initial:{}", acts(a)),
        Step::Fork(a, b) => format!("fork:{}|{}", acts(a), acts(b)),
    }
}

fn sig(ms: i64) -> Signature {
    Signature {
        name: "Test User".to_string(),
        email: "test.user@example.com".to_string(),
        timestamp: Timestamp {
            timestamp: MillisSinceEpoch(ms),
            tz_offset: 0,
        },
    }
}

const BOOKMARKS: [&str; 2] = ["b1", "b2"];
const WORKSPACES: [&str; 2] = ["w1", "w2"];

// ---------------------------------------------------------------------------------------
// The world: a real repository, rebuilt from scratch for every history
// ---------------------------------------------------------------------------------------

struct World {
    test_repo: TestRepo,
    settings: UserSettings,
    repo: Arc<ReadonlyRepo>,
    initial: Option<Arc<ReadonlyRepo>>,
    /// slot -> commit; slot 0 = root
    table: Vec<Commit>,
    /// slot -> parent slots (reference parent table, read from the commit objects)
    parents: Vec<Vec<usize>>,
    clock: i64,
    ops: usize,
    initial_len: usize,
}

/// Why a history could not be executed to the end.
enum Stop {
    /// not a verdict: jj refused to write a commit identical to an existing one, or the
    /// precondition of a raw setter does not hold at that point of the transaction
    Inconclusive(String),
    /// the property (or a panic / error on the way) — already reported
    Violation,
}

struct Shared<'a> {
    ctx: &'a Ctx,
    /// counters for the evidence
    c: &'a Counters,
}

#[derive(Default)]
struct Counters {
    ops_checked: Counter,
    merged_ops: Counter,
    inconclusive: Counter,
    new_fast_path: Counter,
    new_slow_path: Counter,
    new_on_hidden_parent: Counter,
    bookmark_on_hidden: Counter,
    bookmark_on_nonhead: Counter,
    edit_hidden: Counter,
    wc_abandoned_on_edit: Counter,
    rebased_descendants: Counter,
    views_with_ref_below_head: Counter,
    views_with_multiple_heads: Counter,
    views_root_only: Counter,
    canon_cap_hits: Counter,
    states_nontrivial: Counter,
}

/// Settings whose `debug.commit-timestamp` is a value of the harness clock, so that the ids of
/// commits made by jj itself (rebased descendants, working-copy commits) are a function of
/// the history and never of the wall clock; likewise `debug.operation-timestamp`, because the
/// order in which concurrent operations are merged (and hence which side wins a
/// working-copy conflict) follows the operation ids. The random generator (change ids) is
/// retained.
fn settings_at(prev: Option<&UserSettings>, ms: i64) -> UserSettings {
    let secs = ms / 1000;
    if secs >= 86_400 {
        machinery_failure("harness clock overflow");
    }
    let ts = format!(
        "1970-01-01T{:02}:{:02}:{:02}.{:03}Z",
        secs / 3600,
        (secs / 60) % 60,
        secs % 60,
        ms % 1000
    );
    let mut config = testutils::base_user_config();
    config.add_layer(
        jj_lib::config::ConfigLayer::parse(
            jj_lib::config::ConfigSource::User,
            &format!("debug.commit-timestamp = \"{ts}\"\ndebug.operation-timestamp = \"{ts}\"\n"),
        )
        .unwrap_or_else(|e| machinery_failure(&format!("config: {e}"))),
    );
    let r = match prev {
        Some(p) => p.with_new_config(config),
        None => UserSettings::from_config(config),
    };
    r.unwrap_or_else(|e| machinery_failure(&format!("settings: {e}")))
}

impl World {
    fn new() -> World {
        let settings = settings_at(None, 1_000_000);
        // the simple on-disk commit backend: the test backend starts a 16-thread tokio
        // runtime per instance, which would dominate the cost of every reload
        let test_repo = TestRepo::init_with_backend_and_settings(
            testutils::TestRepoBackend::Simple,
            &settings,
        );
        let repo = test_repo.repo.clone();
        let root = repo.store().root_commit();
        World {
            test_repo,
            settings,
            repo,
            initial: None,
            table: vec![root],
            parents: vec![vec![]],
            clock: 1_000_000,
            ops: 0,
            initial_len: 1,
        }
    }

    fn slot_of(&self, id: &CommitId) -> Option<usize> {
        self.table.iter().position(|c| c.id() == id)
    }

    fn tick(&mut self) -> i64 {
        self.clock += 1000;
        self.clock
    }

    /// Reflexive ancestor masks over the table.
    fn anc_masks(&self) -> Vec<u64> {
        let mut anc = vec![0u64; self.table.len()];
        // slots are not necessarily topologically ordered (discovery order), iterate to a
        // fixpoint
        loop {
            let mut changed = false;
            for i in 0..self.table.len() {
                let mut m = anc[i] | (1u64 << i);
                for &p in &self.parents[i] {
                    m |= anc[p] | (1u64 << p);
                }
                if m != anc[i] {
                    anc[i] = m;
                    changed = true;
                }
            }
            if !changed {
                return anc;
            }
        }
    }

    /// Adds every commit reachable from the view that is not yet in the table, in an order
    /// that depends only on structure (never on commit ids, which contain wall-clock time
    /// for commits made by jj itself).
    fn discover(&mut self, view: &View, created: &[Commit]) {
        for c in created {
            if self.slot_of(c.id()).is_none() {
                self.push_commit(c.clone());
            }
        }
        let store = self.repo.store().clone();
        let mut pending: Vec<Commit> = vec![];
        let mut seen: HashSet<CommitId> = HashSet::new();
        let mut stack: Vec<CommitId> = view.heads().iter().cloned().collect();
        for (_, t) in view.local_bookmarks() {
            stack.extend(t.as_merge().iter().flatten().cloned());
        }
        stack.extend(view.wc_commit_ids().values().cloned());
        while let Some(id) = stack.pop() {
            if self.slot_of(&id).is_some() || !seen.insert(id.clone()) {
                continue;
            }
            let c = store
                .get_commit(&id)
                .unwrap_or_else(|e| machinery_failure(&format!("cannot read commit: {e}")));
            stack.extend(c.parent_ids().iter().cloned());
            pending.push(c);
        }
        while !pending.is_empty() {
            // commits whose parents are all in the table, ordered structurally
            let mut ready: Vec<(Vec<usize>, usize, String, Vec<String>, usize)> = vec![];
            for (idx, c) in pending.iter().enumerate() {
                let ps: Option<Vec<usize>> =
                    c.parent_ids().iter().map(|p| self.slot_of(p)).collect();
                if let Some(mut ps) = ps {
                    ps.sort();
                    let origin = self
                        .table
                        .iter()
                        .position(|t| t.change_id() == c.change_id())
                        .unwrap_or(usize::MAX);
                    let mut refs: Vec<String> = vec![];
                    for (name, t) in view.local_bookmarks() {
                        for (pos, term) in t.as_merge().iter().enumerate() {
                            if term.as_ref() == Some(c.id()) {
                                refs.push(format!("{}@{pos}", name.as_str()));
                            }
                        }
                    }
                    for (ws, id) in view.wc_commit_ids() {
                        if id == c.id() {
                            refs.push(ws.as_str().to_string());
                        }
                    }
                    if view.heads().contains(c.id()) {
                        refs.push("head".into());
                    }
                    ready.push((ps, origin, c.description().to_string(), refs, idx));
                }
            }
            if ready.is_empty() {
                machinery_failure("discover(): commit graph is not well-founded");
            }
            ready.sort();
            let mut idxs: Vec<usize> = ready.iter().map(|r| r.4).collect();
            let commits: Vec<Commit> = idxs.iter().map(|&i| pending[i].clone()).collect();
            idxs.sort_by(|a, b| b.cmp(a));
            for i in idxs {
                pending.remove(i);
            }
            for c in commits {
                self.push_commit(c);
            }
        }
    }

    fn push_commit(&mut self, c: Commit) {
        let ps: Vec<usize> = c
            .parent_ids()
            .iter()
            .map(|p| {
                self.slot_of(p)
                    .unwrap_or_else(|| machinery_failure("push_commit(): parent not in table"))
            })
            .collect();
        self.table.push(c);
        self.parents.push(ps);
        if self.table.len() > 60 {
            machinery_failure("commit table overflow");
        }
    }
}

/// Applies one primitive action to the mutable repo. Returns the commits the harness
/// created.
fn apply_act(
    w: &mut World,
    mr: &mut MutableRepo,
    act: &Act,
    sh: &Shared,
    heads_before: &HashSet<CommitId>,
    visible_before: u64,
) -> Result<Vec<Commit>, String> {
    let store = mr.store().clone();
    let id = |w: &World, s: usize| w.table[s].id().clone();
    let is_vis = |s: usize| visible_before >> s & 1 == 1;
    match act {
        Act::New(ps) => {
            let ids: Vec<CommitId> = ps.iter().map(|&p| id(w, p)).collect();
            let current = mr.view().heads().clone();
            if ids.iter().all(|i| current.contains(i)) {
                sh.c.new_fast_path.inc();
            } else {
                sh.c.new_slow_path.inc();
            }
            if ps.iter().any(|&p| !is_vis(p)) {
                sh.c.new_on_hidden_parent.inc();
            }
            let t = w.tick();
            let c = mr
                .new_commit(ids, store.empty_merged_tree())
                .set_description("c")
                .set_author(sig(t))
                .set_committer(sig(t))
                .write()
                .block_on()
                .map_err(|e| format!("{e}"))?;
            Ok(vec![c])
        }
        Act::Rewrite(x) => {
            let t = w.tick();
            let c = mr
                .rewrite_commit(&w.table[*x])
                .set_committer(sig(t))
                .write()
                .block_on()
                .map_err(|e| format!("{e}"))?;
            Ok(vec![c])
        }
        Act::Abandon(x) => {
            mr.record_abandoned_commit(&w.table[*x]);
            Ok(vec![])
        }
        Act::Bookmark(b, terms) => {
            let name: &RefName = BOOKMARKS[*b as usize].as_ref();
            let target = match terms.as_slice() {
                [] => RefTarget::absent(),
                [x] => RefTarget::normal(id(w, *x)),
                [x, z] => RefTarget::from_merge(Merge::from_vec(vec![
                    Some(id(w, *x)),
                    None,
                    Some(id(w, *z)),
                ])),
                _ => machinery_failure("bad bookmark action"),
            };
            for &s in terms {
                if !is_vis(s) {
                    sh.c.bookmark_on_hidden.inc();
                } else if !heads_before.contains(w.table[s].id()) {
                    sh.c.bookmark_on_nonhead.inc();
                }
            }
            mr.set_local_bookmark_target(name, target);
            Ok(vec![])
        }
        Act::SetWc(ws, x) => {
            // precondition of the raw setter: the target is visible *now* (an earlier
            // action of the same transaction may have restored an older view)
            let target = id(w, *x);
            let mut seen: HashSet<CommitId> = HashSet::new();
            let mut stack: Vec<CommitId> = mr.view().heads().iter().cloned().collect();
            let mut found = false;
            while let Some(c) = stack.pop() {
                if c == target {
                    found = true;
                    break;
                }
                if seen.insert(c.clone()) {
                    let commit = store.get_commit(&c).map_err(|e| format!("{e}"))?;
                    stack.extend(commit.parent_ids().iter().cloned());
                }
            }
            if !found {
                return Err("precondition: set_wc_commit target is hidden at this point".into());
            }
            mr.set_wc_commit(WorkspaceNameBuf::from(WORKSPACES[*ws as usize]), id(w, *x))
                .map_err(|e| format!("{e}"))?;
            Ok(vec![])
        }
        Act::Edit(ws, x) => {
            if !is_vis(*x) {
                sh.c.edit_hidden.inc();
            }
            let before = mr.has_rewrites();
            mr.edit(WorkspaceNameBuf::from(WORKSPACES[*ws as usize]), &w.table[*x])
                .block_on()
                .map_err(|e| format!("{e}"))?;
            if !before && mr.has_rewrites() {
                sh.c.wc_abandoned_on_edit.inc();
            }
            Ok(vec![])
        }
        Act::CheckOut(ws, x) => {
            let before = mr.has_rewrites();
            let c = mr
                .check_out(WorkspaceNameBuf::from(WORKSPACES[*ws as usize]), &w.table[*x])
                .block_on()
                .map_err(|e| format!("{e}"))?;
            if !before && mr.has_rewrites() {
                sh.c.wc_abandoned_on_edit.inc();
            }
            Ok(vec![c])
        }
        Act::AddHead(x) => {
            mr.add_head(&w.table[*x]).block_on().map_err(|e| format!("{e}"))?;
            Ok(vec![])
        }
        Act::RestoreInitialView => {
            let init = w
                .initial
                .as_ref()
                .unwrap_or_else(|| machinery_failure("no initial operation"));
            mr.set_view(init.view().store_view().clone());
            Ok(vec![])
        }
    }
}

fn visible_mask(w: &World, view: &View) -> u64 {
    let anc = w.anc_masks();
    let mut m = 0u64;
    for h in view.heads() {
        if let Some(s) = w.slot_of(h) {
            m |= anc[s];
        }
    }
    m
}

/// Runs one transaction from `base`; commits it; returns the committed repo and the
/// commits created by the harness.
fn run_tx(
    w: &mut World,
    base: &Arc<ReadonlyRepo>,
    acts: &[Act],
    sh: &Shared,
    history: &[Step],
) -> Result<(Arc<ReadonlyRepo>, Vec<Commit>), Stop> {
    // every transaction gets its own clock value (commit and operation timestamps): load
    // the base operation again with fresh settings
    let t = w.tick();
    let settings = settings_at(Some(&w.settings), t);
    let base = jj_lib::repo::RepoLoader::init_from_file_system(
        &settings,
        w.test_repo.repo_path(),
        &w.test_repo.env.default_backend_factories(),
    )
    .unwrap_or_else(|e| machinery_failure(&format!("cannot open repo: {e}")))
    .load_at(base.operation())
    .block_on()
    .unwrap_or_else(|e| machinery_failure(&format!("cannot load base operation: {e}")));
    let base = &base;
    let mut tx = base.start_transaction();
    let heads_before: HashSet<CommitId> = base.view().heads().clone();
    let vis_before = visible_mask(w, base.view());
    let mut created: Vec<Commit> = vec![];
    for act in acts {
        let r = catch(|| apply_act(w, tx.repo_mut(), act, sh, &heads_before, vis_before));
        match r {
            Ok(Ok(cs)) => created.extend(cs),
            Ok(Err(e)) => {
                if e.contains("already exists") || e.starts_with("precondition:") {
                    return Err(Stop::Inconclusive(e));
                }
                sh.ctx.violation(
                    &format!("C10/act-error/{}", act_label(act)),
                    format!("{act:?} failed: {e}"),
                    json!({"history": history}),
                );
                return Err(Stop::Violation);
            }
            Err(p) => {
                sh.ctx.violation(
                    &format!("C10/act-panic/{}", act_label(act)),
                    format!("{act:?} panicked: {p}"),
                    json!({"history": history}),
                );
                return Err(Stop::Violation);
            }
        }
    }
    if tx.repo().has_rewrites() {
        let r = catch(|| tx.repo_mut().rebase_descendants().block_on());
        match r {
            Ok(Ok(n)) => sh.c.rebased_descendants.add(n as u64),
            Ok(Err(e)) => {
                let e = format!("{e}");
                if e.contains("already exists") {
                    return Err(Stop::Inconclusive(e));
                }
                sh.ctx.violation(
                    "C10/rebase-error",
                    format!("rebase_descendants failed: {e}"),
                    json!({"history": history}),
                );
                return Err(Stop::Violation);
            }
            Err(p) => {
                sh.ctx.violation(
                    "C10/rebase-panic",
                    format!("rebase_descendants panicked: {p}"),
                    json!({"history": history}),
                );
                return Err(Stop::Violation);
            }
        }
    }
    w.ops += 1;
    let desc = format!("op{}", w.ops);
    match catch(|| tx.commit(desc).block_on()) {
        Ok(Ok(repo)) => Ok((repo, created)),
        Ok(Err(e)) => {
            sh.ctx.violation(
                "C10/commit-error",
                format!("Transaction::commit failed: {e}"),
                json!({"history": history}),
            );
            Err(Stop::Violation)
        }
        Err(p) => {
            let sigs = if p.contains("normalized") {
                "C10/commit-panic/heads-not-normalized"
            } else {
                "C10/commit-panic/other"
            };
            sh.ctx.violation(
                sigs,
                format!("Transaction::commit panicked: {p}"),
                json!({"history": history}),
            );
            Err(Stop::Violation)
        }
    }
}

/// The oracle: evaluated on the view of a committed operation. Returns false on violation.
fn check_view(w: &World, view: &View, what: &str, sh: &Shared, history: &[Step]) -> bool {
    sh.c.ops_checked.inc();
    let mut ok = true;
    let mut report = |sig: &str, msg: String| {
        sh.ctx.violation(sig, format!("{what}: {msg}"), json!({"history": history}));
        ok = false;
    };
    let anc = w.anc_masks();
    let name = |s: usize| format!("#{s}");
    let mut head_slots: Vec<usize> = vec![];
    for h in view.heads() {
        match w.slot_of(h) {
            Some(s) => head_slots.push(s),
            None => machinery_failure("check_view(): head not in table"),
        }
    }
    head_slots.sort();
    if head_slots.is_empty() {
        report("C10/heads/empty", "the view has no heads".into());
    }
    if head_slots.contains(&0) && head_slots.len() > 1 {
        report(
            "C10/heads/root-with-others",
            format!("the root commit is recorded as a head next to {:?}", head_slots),
        );
    }
    for &a in &head_slots {
        for &b in &head_slots {
            if a != b && anc[b] >> a & 1 == 1 {
                report(
                    "C10/heads/not-antichain",
                    format!("head {} is an ancestor of head {}", name(a), name(b)),
                );
            }
        }
    }
    let mut vis = 0u64;
    for &h in &head_slots {
        vis |= anc[h];
    }
    let mut below_head = false;
    for (bname, target) in view.local_bookmarks() {
        for id in target.added_ids() {
            let s = w
                .slot_of(id)
                .unwrap_or_else(|| machinery_failure("check_view(): bookmark target not in table"));
            if vis >> s & 1 == 0 {
                let kind = if target.has_conflict() { "conflicted" } else { "normal" };
                report(
                    &format!("C10/cover/bookmark-{kind}-hidden"),
                    format!("bookmark {} points to {} which is not visible", bname.as_str(), name(s)),
                );
            } else if !head_slots.contains(&s) {
                below_head = true;
            }
        }
    }
    for (ws, id) in view.wc_commit_ids() {
        let s = w
            .slot_of(id)
            .unwrap_or_else(|| machinery_failure("check_view(): wc commit not in table"));
        if vis >> s & 1 == 0 {
            report(
                "C10/cover/working-copy-hidden",
                format!("working copy {} is at {} which is not visible", ws.as_str(), name(s)),
            );
        } else if !head_slots.contains(&s) {
            below_head = true;
        }
    }
    if below_head {
        sh.c.views_with_ref_below_head.inc();
    }
    if head_slots.len() > 1 {
        sh.c.views_with_multiple_heads.inc();
    }
    if head_slots == vec![0] {
        sh.c.views_root_only.inc();
    }
    ok
}

/// Reloads the repo at head from disk (merging concurrent operations with the real code).
fn reload(w: &mut World, sh: &Shared, history: &[Step]) -> Result<Arc<ReadonlyRepo>, Stop> {
    let t = w.tick();
    w.settings = settings_at(Some(&w.settings), t);
    let r = catch(|| {
        let loader = jj_lib::repo::RepoLoader::init_from_file_system(
            &w.settings,
            w.test_repo.repo_path(),
            &w.test_repo.env.default_backend_factories(),
        )
        .map_err(|e| format!("{e}"))?;
        loader.load_at_head().block_on().map_err(|e| {
            let mut s = format!("{e}");
            let mut src = std::error::Error::source(&e);
            while let Some(x) = src {
                s.push_str(&format!(": {x}"));
                src = x.source();
            }
            s
        })
    });
    match r {
        Ok(Ok(repo)) => Ok(repo),
        Ok(Err(e)) => {
            if e.contains("already exists") {
                return Err(Stop::Inconclusive(e));
            }
            sh.ctx.violation(
                "C10/reload-error",
                format!("load_at_head failed: {e}"),
                json!({"history": history}),
            );
            Err(Stop::Violation)
        }
        Err(p) => {
            let sigs = if p.contains("normalized") {
                "C10/merge-panic/heads-not-normalized"
            } else {
                "C10/merge-panic/other"
            };
            sh.ctx.violation(
                sigs,
                format!("load_at_head (operation merge) panicked: {p}"),
                json!({"history": history}),
            );
            Err(Stop::Violation)
        }
    }
}

/// Executes one step; checks every operation it commits.
fn run_step(w: &mut World, step: &Step, sh: &Shared, history: &[Step]) -> Result<(), Stop> {
    let mut all_ok = true;
    match step {
        Step::Build(dag) => {
            let base = w.repo.clone();
            let mut acts = vec![];
            for ps in dag {
                // slots: root = 0, dag node i = slot i + 1
                acts.push(Act::New(if ps.is_empty() {
                    vec![0]
                } else {
                    ps.iter().map(|p| p + 1).collect()
                }));
            }
            // New acts refer to slots that only exist once earlier acts ran: apply one by one
            let mut tx = base.start_transaction();
            let mut created = vec![];
            let heads_before = base.view().heads().clone();
            for act in &acts {
                let cs = apply_act(w, tx.repo_mut(), act, sh, &heads_before, u64::MAX)
                    .unwrap_or_else(|e| machinery_failure(&format!("build failed: {e}")));
                for c in &cs {
                    w.push_commit(c.clone());
                }
                created.extend(cs);
            }
            w.ops += 1;
            let repo = tx
                .commit("build")
                .block_on()
                .unwrap_or_else(|e| machinery_failure(&format!("build commit failed: {e}")));
            all_ok &= check_view(w, repo.view(), "build", sh, history);
        }
        Step::Tx(acts) => {
            let base = w.repo.clone();
            let (repo, created) = run_tx(w, &base, acts, sh, history)?;
            w.discover(repo.view(), &created);
            all_ok &= check_view(w, repo.view(), "committed operation", sh, history);
        }
        Step::TxAtInitial(acts) => {
            let base = w
                .initial
                .clone()
                .unwrap_or_else(|| machinery_failure("no initial operation"));
            let (repo, created) = run_tx(w, &base, acts, sh, history)?;
            w.discover(repo.view(), &created);
            all_ok &= check_view(w, repo.view(), "concurrent operation", sh, history);
        }
        Step::Fork(a, b) => {
            let base = w.repo.clone();
            let (repo_a, created_a) = run_tx(w, &base, a, sh, history)?;
            w.discover(repo_a.view(), &created_a);
            all_ok &= check_view(w, repo_a.view(), "first concurrent operation", sh, history);
            let (repo_b, created_b) = run_tx(w, &base, b, sh, history)?;
            w.discover(repo_b.view(), &created_b);
            all_ok &= check_view(w, repo_b.view(), "second concurrent operation", sh, history);
        }
    }
    // reload from disk; merges if there are several op heads
    let repo = reload(w, sh, history)?;
    let merged = repo.operation().parent_ids().len() > 1;
    w.discover(repo.view(), &[]);
    if merged {
        sh.c.merged_ops.inc();
    }
    all_ok &= check_view(
        w,
        repo.view(),
        if merged { "merged operation (reloaded)" } else { "reloaded operation" },
        sh,
        history,
    );
    w.repo = repo;
    if matches!(step, Step::Build(_)) {
        w.initial = Some(w.repo.clone());
        w.initial_len = w.table.len();
    }
    if all_ok { Ok(()) } else { Err(Stop::Violation) }
}

// ---------------------------------------------------------------------------------------
// Canonical key and enabled actions
// ---------------------------------------------------------------------------------------

struct Summary {
    n: usize,
    /// number of table slots that already existed at the initial operation
    initial_len: usize,
    visible: u64,
    heads: u64,
    attrs: Vec<String>,
    change_rep: Vec<usize>,
    bookmarks: BTreeMap<String, Vec<Option<usize>>>,
    wcs: BTreeMap<String, usize>,
    differs_from_initial: bool,
}

fn summarize(w: &World) -> Summary {
    let view = w.repo.view();
    let n = w.table.len();
    let visible = visible_mask(w, view);
    let mut heads = 0u64;
    for h in view.heads() {
        heads |= 1 << w.slot_of(h).unwrap();
    }
    let mut attrs: Vec<Vec<String>> = vec![vec![]; n];
    let mut bookmarks = BTreeMap::new();
    for (name, t) in view.local_bookmarks() {
        let mut terms = vec![];
        for (pos, term) in t.as_merge().iter().enumerate() {
            let s = term.as_ref().map(|id| w.slot_of(id).unwrap());
            if let Some(s) = s {
                attrs[s].push(format!("{}@{pos}/{}", name.as_str(), t.as_merge().iter().count()));
            }
            terms.push(s);
        }
        bookmarks.insert(name.as_str().to_string(), terms);
    }
    let mut wcs = BTreeMap::new();
    for (ws, id) in view.wc_commit_ids() {
        let s = w.slot_of(id).unwrap();
        attrs[s].push(ws.as_str().to_string());
        wcs.insert(ws.as_str().to_string(), s);
    }
    let mut out_attrs = vec![];
    for s in 0..n {
        let mut a = String::new();
        a.push(if s == 0 { 'R' } else if visible >> s & 1 == 1 { 'V' } else { 'H' });
        if heads >> s & 1 == 1 {
            a.push('h');
        }
        if w.table[s].description().is_empty() {
            a.push('d');
        }
        if let Some(init) = &w.initial
            && init.view().heads().contains(w.table[s].id())
        {
            a.push('i');
        }
        attrs[s].sort();
        a.push_str(&attrs[s].join(","));
        out_attrs.push(a);
    }
    let change_rep: Vec<usize> = (0..n)
        .map(|s| {
            (0..n)
                .find(|&t| w.table[t].change_id() == w.table[s].change_id())
                .unwrap()
        })
        .collect();
    let differs_from_initial = match &w.initial {
        Some(init) => init.view().store_view() != view.store_view(),
        None => false,
    };
    Summary {
        n,
        initial_len: w.initial_len,
        visible,
        heads,
        attrs: out_attrs,
        change_rep,
        bookmarks,
        wcs,
        differs_from_initial,
    }
}

/// Exact canonical form of the attributed commit graph: colour refinement to find the
/// candidate orderings, then the lexicographically smallest rendering over all orderings
/// that respect the colour classes.
fn canonical_key(w: &World, s: &Summary, sh: &Shared) -> String {
    let n = s.n;
    let mut children: Vec<Vec<usize>> = vec![vec![]; n];
    for i in 0..n {
        for &p in &w.parents[i] {
            children[p].push(i);
        }
    }
    let mut peers: Vec<Vec<usize>> = vec![vec![]; n];
    for i in 0..n {
        for j in 0..n {
            if i != j && s.change_rep[i] == s.change_rep[j] {
                peers[i].push(j);
            }
        }
    }
    let mut col: Vec<u64> = s.attrs.iter().map(|a| fnv(a.as_bytes())).collect();
    for _ in 0..4 {
        let mut next = vec![0u64; n];
        for i in 0..n {
            let mut buf: Vec<u8> = col[i].to_le_bytes().to_vec();
            for rel in [&w.parents[i], &children[i], &peers[i]] {
                let mut cs: Vec<u64> = rel.iter().map(|&j| col[j]).collect();
                cs.sort();
                buf.push(0xff);
                for c in cs {
                    buf.extend(c.to_le_bytes());
                }
            }
            next[i] = fnv(&buf);
        }
        col = next;
    }
    let mut order: Vec<usize> = (0..n).collect();
    order.sort_by_key(|&i| (col[i], i));
    // colour classes
    let mut classes: Vec<Vec<usize>> = vec![];
    for &i in &order {
        if let Some(last) = classes.last_mut()
            && col[last[0]] == col[i]
        {
            last.push(i);
            continue;
        }
        classes.push(vec![i]);
    }
    let render = |ord: &[usize]| -> String {
        let mut pos = vec![0usize; n];
        for (p, &i) in ord.iter().enumerate() {
            pos[i] = p;
        }
        let mut out = String::new();
        for &i in ord {
            let mut ps: Vec<usize> = w.parents[i].iter().map(|&p| pos[p]).collect();
            ps.sort();
            let rep = (0..n)
                .filter(|&j| s.change_rep[j] == s.change_rep[i])
                .map(|j| pos[j])
                .min()
                .unwrap();
            out.push_str(&format!("{}|{:?}|{};", s.attrs[i], ps, rep));
        }
        out
    };
    let perms: u64 = classes
        .iter()
        .map(|c| (1..=c.len() as u64).product::<u64>())
        .product();
    if perms == 1 {
        return render(&order);
    }
    if perms > 5040 {
        sh.c.canon_cap_hits.inc();
        return format!("uncanonical:{}", render(&(0..n).collect::<Vec<_>>()));
    }
    // enumerate the product of permutations of the classes
    let class_perms: Vec<Vec<Vec<usize>>> = classes
        .iter()
        .map(|c| {
            vcommon::enumerate::permutations(c.len())
                .into_iter()
                .map(|p| p.into_iter().map(|k| c[k]).collect())
                .collect()
        })
        .collect();
    let dims: Vec<usize> = class_perms.iter().map(|c| c.len()).collect();
    let mut best: Option<String> = None;
    vcommon::enumerate::odometer(&dims, |digits| {
        let mut ord: Vec<usize> = vec![];
        for (k, &d) in digits.iter().enumerate() {
            ord.extend(class_perms[k][d].iter().copied());
        }
        let r = render(&ord);
        if best.as_ref().is_none_or(|b| r < *b) {
            best = Some(r);
        }
        true
    });
    best.unwrap()
}

struct Bounds {
    /// max number of non-root commits in the table for commit-creating actions
    max_commits: usize,
}

fn enabled_acts(s: &Summary, b: &Bounds) -> Vec<Act> {
    let n = s.n;
    let vis = |i: usize| s.visible >> i & 1 == 1;
    let nonroot: Vec<usize> = (1..n).collect();
    let visible: Vec<usize> = nonroot.iter().copied().filter(|&i| vis(i)).collect();
    let hidden: Vec<usize> = nonroot.iter().copied().filter(|&i| !vis(i)).collect();
    let can_create = n - 1 < b.max_commits;
    let mut acts = vec![];
    if can_create {
        acts.push(Act::New(vec![0]));
        for &p in &nonroot {
            acts.push(Act::New(vec![p]));
        }
        for (i, &p) in nonroot.iter().enumerate() {
            for &q in &nonroot[i + 1..] {
                acts.push(Act::New(vec![p, q]));
            }
        }
    }
    for &x in &visible {
        if can_create {
            acts.push(Act::Rewrite(x));
        }
        acts.push(Act::Abandon(x));
    }
    let n_bm = if s.bookmarks.contains_key("b1") { 2 } else { 1 };
    for b in 0..n_bm {
        let name = BOOKMARKS[b];
        let cur = s.bookmarks.get(name);
        for &x in &nonroot {
            if cur != Some(&vec![Some(x)]) {
                acts.push(Act::Bookmark(b as u8, vec![x]));
            }
        }
        for (i, &x) in nonroot.iter().enumerate() {
            for &z in &nonroot[i + 1..] {
                if cur != Some(&vec![Some(x), None, Some(z)]) {
                    acts.push(Act::Bookmark(b as u8, vec![x, z]));
                }
            }
        }
        if cur.is_some() {
            acts.push(Act::Bookmark(b as u8, vec![]));
        }
    }
    let n_ws = if s.wcs.contains_key("w1") { 2 } else { 1 };
    for ws in 0..n_ws {
        let cur = s.wcs.get(WORKSPACES[ws]).copied();
        for &x in &visible {
            if cur != Some(x) {
                acts.push(Act::SetWc(ws as u8, x));
            }
        }
        for &x in &nonroot {
            if cur != Some(x) {
                acts.push(Act::Edit(ws as u8, x));
            }
        }
        if can_create {
            for x in 0..n {
                acts.push(Act::CheckOut(ws as u8, x));
            }
        }
    }
    for &x in &hidden {
        acts.push(Act::AddHead(x));
    }
    if s.differs_from_initial {
        acts.push(Act::RestoreInitialView);
    }
    acts
}

/// Search plan: how many actions the k-th transaction after the build may have.
fn plan(n_dag: usize, quick: bool) -> Vec<usize> {
    match (quick, n_dag) {
        (true, 0) => vec![2, 2],
        (true, 1..=2) => vec![2, 1],
        (true, _) => vec![1, 1],
        (false, 0) => vec![2, 2, 1],
        (false, 1) => vec![2, 2],
        (false, 2) => vec![2, 1, 1],
        (false, _) => vec![1, 1],
    }
}

fn enabled_steps(s: &Summary, b: &Bounds, max_acts: usize, allow_at_initial: bool) -> Vec<Step> {
    let acts = enabled_acts(s, b);
    let mut steps = vec![];
    for a in &acts {
        steps.push(Step::Tx(vec![a.clone()]));
    }
    if allow_at_initial {
        // only actions that make sense at the initial operation: they may name any commit
        // of the table (commits created later are in the store, which is all the API needs)
        for a in &acts {
            if !matches!(a, Act::RestoreInitialView) && act_slots(a).iter().all(|&x| x < s.initial_len) {
                steps.push(Step::TxAtInitial(vec![a.clone()]));
            }
        }
    }
    if max_acts >= 2 {
        for a in &acts {
            for c in &acts {
                steps.push(Step::Tx(vec![a.clone(), c.clone()]));
            }
        }
        for (i, a) in acts.iter().enumerate() {
            for c in &acts[i..] {
                steps.push(Step::Fork(vec![a.clone()], vec![c.clone()]));
            }
        }
    }
    steps
}

// ---------------------------------------------------------------------------------------
// main
// ---------------------------------------------------------------------------------------

/// Replays a history from scratch. Returns the world after the last step (None if stopped).
fn replay(history: &[Step], sh: &Shared) -> Option<World> {
    let mut w = World::new();
    for (k, step) in history.iter().enumerate() {
        // earlier transitions were already checked when their own history was the frontier;
        // they are re-executed here with the same oracle (a failing prefix is never extended)
        match run_step(&mut w, step, sh, &history[..=k]) {
            Ok(()) => {}
            Err(Stop::Inconclusive(_)) => {
                sh.c.inconclusive.inc();
                return None;
            }
            Err(Stop::Violation) => return None,
        }
    }
    Some(w)
}

fn main() {
    let ctx = Ctx::from_args("C10", Level::ModelChecking);
    vcommon::silence_panics();
    let counters = Counters::default();
    let sh = Shared {
        ctx: &ctx,
        c: &counters,
    };
    if let Some((_sig, case)) = ctx.replay_case() {
        let history: Vec<Step> = serde_json::from_value(case["history"].clone())
            .unwrap_or_else(|e| machinery_failure(&format!("bad replay case: {e}")));
        let _ = replay(&history, &sh);
        ctx.finish(Coverage {
            evaluations: 1,
            ..Default::default()
        });
    }

    let quick = ctx.quick();
    let max_dag = ctx.pick(3, 4);
    let bounds = Bounds {
        max_commits: ctx.pick(5, 6),
    };
    let mut dags: Vec<Vec<Vec<usize>>> = vec![];
    for n in 0..=max_dag {
        for d in all_dags(n, 2) {
            dags.push(d.parents);
        }
    }

    // determinism gate: one fixed history twice, same canonical key
    {
        let probe = vec![
            Step::Build(vec![vec![], vec![0], vec![0]]),
            Step::Tx(vec![Act::Abandon(1), Act::CheckOut(0, 2)]),
            Step::Fork(vec![Act::Rewrite(2)], vec![Act::Bookmark(0, vec![2, 3])]),
        ];
        let scratch = Counters::default();
        let sh2 = Shared {
            ctx: &ctx,
            c: &scratch,
        };
        let k1 = replay(&probe, &sh2).map(|w| canonical_key(&w, &summarize(&w), &sh2));
        let k2 = replay(&probe, &sh2).map(|w| canonical_key(&w, &summarize(&w), &sh2));
        if k1.is_none() || k1 != k2 {
            if ctx.violation_count() == 0 {
                machinery_failure(&format!("determinism gate failed: {k1:?} vs {k2:?}"));
            }
        }
    }

    // debugging aid: C10_DUMP=<file> writes every (history, key) pair
    let dump: Option<Mutex<std::fs::File>> = std::env::var("C10_DUMP")
        .ok()
        .map(|p| Mutex::new(std::fs::File::create(p).unwrap()));
    let seen_states: Mutex<HashSet<String>> = Mutex::new(HashSet::new());
    let by_dag_size: Vec<Counter> = (0..=max_dag).map(|_| Counter::new()).collect();
    let samples = vcommon::Samples::new(6);
    let max_depth = 1 + dags
        .iter()
        .map(|d| plan(d.len(), quick).len())
        .max()
        .unwrap_or(0);
    let cfg = BfsConfig {
        max_depth,
        max_states: u64::MAX,
        max_wall_s: ctx.pick(150.0, 1500.0),
    };
    let step_fn = |history: &[Step]| -> Option<StepResult<Step>> {
        if history.is_empty() {
            return Some(StepResult {
                key: "start".into(),
                actions: dags.iter().map(|d| Step::Build(d.clone())).collect(),
            });
        }
        let w = replay(history, &sh)?;
        let s = summarize(&w);
        let Step::Build(dag) = &history[0] else {
            machinery_failure("history does not start with Build");
        };
        let key = format!("dag{:?}/{}", dag, canonical_key(&w, &s, &sh));
        by_dag_size[dag.len()].inc();
        if let Some(d) = &dump {
            use std::io::Write as _;
            let mut f = d.lock().unwrap();
            let _ = writeln!(f, "{}\t{}", serde_json::to_string(history).unwrap(), key);
        }
        if history.len() >= 3
            && samples.wants_more()
            && s.heads.count_ones() >= 2
            && !s.bookmarks.is_empty()
            && !s.wcs.is_empty()
            && history.iter().any(|h| matches!(h, Step::Fork(..) | Step::TxAtInitial(..)))
        {
            samples.offer(|| json!({"history": history, "reached_state": key}));
        }
        {
            let mut seen = seen_states.lock().unwrap();
            if seen.insert(key.clone()) {
                let nontrivial = s.heads.count_ones() >= 2
                    || s.bookmarks.values().flatten().flatten().any(|&x| s.heads >> x & 1 == 0)
                    || s.wcs.values().any(|&x| s.heads >> x & 1 == 0);
                if nontrivial {
                    sh.c.states_nontrivial.inc();
                }
            }
        }
        let p = plan(dag.len(), quick);
        let k = history.len() - 1; // transactions so far
        let actions = if k < p.len() {
            enabled_steps(&s, &bounds, p[k], k >= 1)
        } else {
            vec![]
        };
        Some(StepResult { key, actions })
    };
    let stats = search(&cfg, step_fn, step_label);
    eprintln!(
        "[C10] states={} transitions={} invalid={} capped={} per_depth={:?} depth_completed={} wall={:.1}s",
        stats.states,
        stats.transitions,
        stats.invalid,
        stats.capped,
        stats.per_depth_states,
        stats.max_depth_completed,
        ctx.elapsed_s()
    );

    // vacuity: every action class must have produced new states; every oracle clause must
    // have been exercised non-trivially
    let mut per_action = serde_json::Map::new();
    let mut classes: BTreeMap<String, (u64, u64)> = BTreeMap::new();
    for (label, (n, fresh)) in &stats.per_action {
        per_action.insert(label.clone(), json!([n, fresh]));
        let class = label.split(':').next().unwrap_or("").to_string();
        let e = classes.entry(class).or_insert((0, 0));
        e.0 += n;
        e.1 += fresh;
        for part in label.split([':', '+', '|']).skip(1) {
            let e = classes.entry(format!("act:{part}")).or_insert((0, 0));
            e.0 += n;
            e.1 += fresh;
        }
    }
    if ctx.violation_count() == 0 {
        for (class, (n, fresh)) in &classes {
            // deleting a bookmark / restoring the initial view lead back to states that were
            // reached earlier by construction; for them only "ran" is required
            let inverse = class == "act:bm-delete" || class == "act:restore-view";
            if *n > 0 && *fresh == 0 && !inverse {
                machinery_failure(&format!("vacuous: action class {class} never reached a new state"));
            }
        }
        for needed in [
            "act:new1", "act:new2", "act:rewrite", "act:abandon", "act:bm-normal",
            "act:bm-conflict", "act:bm-delete", "act:set-wc", "act:edit", "act:check-out",
            "act:add-head", "act:restore-view", "tx", "at-initial", "fork",
        ] {
            if !classes.contains_key(needed) {
                machinery_failure(&format!("vacuous: action class {needed} never ran"));
            }
        }
        let c = &counters;
        for (name, v) in [
            ("merged_ops", c.merged_ops.get()),
            ("new_fast_path", c.new_fast_path.get()),
            ("new_slow_path", c.new_slow_path.get()),
            ("new_on_hidden_parent", c.new_on_hidden_parent.get()),
            ("bookmark_on_hidden", c.bookmark_on_hidden.get()),
            ("edit_hidden", c.edit_hidden.get()),
            ("wc_abandoned_on_edit", c.wc_abandoned_on_edit.get()),
            ("rebased_descendants", c.rebased_descendants.get()),
            ("views_with_ref_below_head", c.views_with_ref_below_head.get()),
            ("views_with_multiple_heads", c.views_with_multiple_heads.get()),
            ("views_root_only", c.views_root_only.get()),
        ] {
            if v == 0 {
                machinery_failure(&format!("vacuous: counter {name} is zero"));
            }
        }
    }
    let c = &counters;
    let mut extra: BTreeMap<String, serde_json::Value> = BTreeMap::new();
    extra.insert("per_step_label".into(), serde_json::Value::Object(per_action));
    extra.insert(
        "per_class".into(),
        json!(classes.iter().map(|(k, v)| (k.clone(), json!([v.0, v.1]))).collect::<BTreeMap<_, _>>()),
    );
    extra.insert("per_depth_states".into(), json!(stats.per_depth_states));
    extra.insert("max_depth_completed".into(), json!(stats.max_depth_completed));
    extra.insert("invalid_or_inconclusive_histories".into(), json!(stats.invalid));
    extra.insert("inconclusive_history_executions".into(), json!(c.inconclusive.get()));
    extra.insert("operations_checked".into(), json!(c.ops_checked.get()));
    extra.insert("merged_operations_checked".into(), json!(c.merged_ops.get()));
    extra.insert(
        "vacuity".into(),
        json!({
            "new_commit_fast_path": c.new_fast_path.get(),
            "new_commit_slow_path": c.new_slow_path.get(),
            "new_commit_on_hidden_parent": c.new_on_hidden_parent.get(),
            "bookmark_set_on_hidden_commit": c.bookmark_on_hidden.get(),
            "bookmark_set_on_non_head": c.bookmark_on_nonhead.get(),
            "edit_of_hidden_commit": c.edit_hidden.get(),
            "working_copy_commit_abandoned_by_edit": c.wc_abandoned_on_edit.get(),
            "descendants_rebased": c.rebased_descendants.get(),
            "views_with_reference_below_a_head": c.views_with_ref_below_head.get(),
            "views_with_several_heads": c.views_with_multiple_heads.get(),
            "views_with_only_the_root": c.views_root_only.get(),
            "canonical_form_permutation_cap_hits": c.canon_cap_hits.get(),
        }),
    );
    extra.insert(
        "bounds".into(),
        json!({
            "initial_dags_up_to": max_dag,
            "max_commits_for_creating_actions": bounds.max_commits,
            "plan_actions_per_transaction_by_initial_dag_size":
                (0..=max_dag).map(|n| (n.to_string(), json!(plan(n, quick)))).collect::<BTreeMap<_, _>>(),
            "wall_cap_s": cfg.max_wall_s,
        }),
    );
    let exhaustive = !stats.capped;
    if stats.capped {
        extra.insert(
            "capped".into(),
            json!(format!("wall-clock cap hit; largest completed depth {}", stats.max_depth_completed)),
        );
    }
    let mut samples: Vec<serde_json::Value> = samples.take();
    samples.extend(stats.sample_histories.iter().take(2).map(|h| json!(h)));
    extra.insert(
        "transitions_by_initial_dag_size".into(),
        json!(by_dag_size.iter().map(|c| c.get()).collect::<Vec<_>>()),
    );
    let cov = Coverage {
        evaluations: stats.transitions,
        distinct_nontrivial: c.states_nontrivial.get(),
        rule: "a case is one history (build + transactions); every history of the plan is executed on a \
               fresh repository; distinct = distinct canonical (isomorphism-invariant) states; non-trivial \
               = the state has several heads or a bookmark / working copy on a non-head commit"
            .into(),
        samples,
        exhaustive,
        states: Some(stats.states),
        transitions: Some(stats.transitions),
        traces_validated_against_impl: Some(stats.transitions),
        extra,
        assumptions: vec![
            "set_wc_commit (raw setter) is only applied to visible commits; edit/check_out/bookmarks/new commits also target hidden ones".into(),
            "all trees are empty; commits made by the harness carry a description (not discardable), commits made by check_out do not".into(),
            "ancestry comes from parent lists read from the commit objects".into(),
            "a history is dropped as inconclusive (and counted) when jj refuses to write a commit because an identical commit already exists, or when the target of a raw set_wc_commit was hidden by an earlier action of the same transaction".into(),
            "commit and operation timestamps come from a harness clock (one value per transaction), so ids and the merge order of concurrent operations are a function of the history; the other merge order is not explored".into(),
            "vacuity counters include the re-execution of history prefixes".into(),
            "states are merged on an exact canonical form of the attributed commit graph (all table commits, visible and hidden) per initial DAG".into(),
        ],
    };
    ctx.finish(cov);
}

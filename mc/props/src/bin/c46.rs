//! C46 — Evolution history is complete and acyclic.
//!
//! Explicit-state breadth-first search over histories of transactions on a real repository
//! (`TestRepo`, simple backend, simple op store, op-heads store on tmpfs). A history is
//! `Build(..)` followed by steps; a step is one transaction of 1-2 rewrite actions on the
//! head operation, one transaction started at the *initial* operation (concurrent with
//! everything since), or a fork of two concurrent single-action transactions. After every
//! step the repository is reloaded from disk with `load_at_head`, which merges concurrent
//! operations with the real code (and rebases descendants there).
//!
//! The harness keeps a *ghost*: for every commit it asked jj to write, the predecessors it
//! requested and the operation the transaction became; for commits jj made itself while
//! rebasing descendants inside a transaction, the (old, new) pair reported by the progress
//! callback of `rebase_descendants_with_options`. (Commits jj makes while *merging*
//! operations have no callback: their recorded predecessors are validated — non-empty, known
//! commits of the same change — and then adopted.)
//!
//! Oracle, on the repository at head after every step, for every commit ever created
//! (visible or hidden) plus the root: `walk_predecessors(repo, [c])` terminates, yields no
//! error, lists exactly the reflexive-transitive closure of the ghost relation from c, each
//! commit once, every commit after all of its ghost successors in the list, and each entry's
//! `predecessor_ids()` / `operation` are the ghost's. The same for walks started from several
//! commits (all versions of one change; all visible commits). `accumulate_predecessors(new,
//! old)` for every pair old < new of operations equals the ghost relation composed over the
//! operations in between.

use std::collections::BTreeMap;
use std::collections::BTreeSet;
use std::collections::HashSet;
use std::slice;
use std::sync::Arc;
use std::sync::Mutex;

use futures::StreamExt as _;
use jj_lib::backend::ChangeId;
use jj_lib::backend::CommitId;
use jj_lib::backend::MillisSinceEpoch;
use jj_lib::backend::Signature;
use jj_lib::backend::Timestamp;
use jj_lib::commit::Commit;
use jj_lib::evolution::WalkPredecessorsError;
use jj_lib::evolution::accumulate_predecessors;
use jj_lib::evolution::walk_predecessors;
use jj_lib::object_id::ObjectId as _;
use jj_lib::operation::Operation;
use jj_lib::repo::MutableRepo;
use jj_lib::repo::ReadonlyRepo;
use jj_lib::repo::Repo as _;
use jj_lib::repo::RepoLoader;
use jj_lib::revset::RevsetExpression;
use jj_lib::rewrite::RebaseOptions;
use jj_lib::rewrite::RebasedCommit;
use jj_lib::rewrite::rebase_commit;
use jj_lib::settings::UserSettings;
use pollster::FutureExt as _;
use serde::Deserialize;
use serde::Serialize;
use serde_json::Value;
use serde_json::json;
use testutils::TestRepo;
use vcommon::Counter;
use vcommon::Coverage;
use vcommon::Ctx;
use vcommon::Level;
use vcommon::bfs::BfsConfig;
use vcommon::bfs::StepResult;
use vcommon::bfs::search;
use vcommon::catch;
use vcommon::machinery_failure;

// ---------------------------------------------------------------------------------------
// Actions
// ---------------------------------------------------------------------------------------

/// Commits are named by their slot in the per-history commit table (slot 0 = root commit;
/// then in creation order, which is a function of the history).
#[derive(Clone, Debug, Serialize, Deserialize, PartialEq, Eq)]
enum Act {
    /// `rewrite_commit(x)` with a new description: x' <- [x]
    Describe(usize),
    /// x' <- [x], then x'' <- [x'] in the same transaction
    DescribeTwice(usize),
    /// `rebase_commit(x, [onto])`: x' <- [x]
    Rebase(usize, usize),
    /// squash `from` into `into`: into' <- [into, from] (as `squash_commits` records it),
    /// `from` abandoned
    Squash(usize, usize),
    /// x' <- [x] (same change), x'' <- [x] (new change, child of x'), as `jj split` does
    Split(usize),
    /// `record_abandoned_commit(x)`
    Abandon(usize),
    /// a new commit (fresh change) on top of x
    New(usize),
    /// only with `experimental.record-predecessors-in-commit = false` (commit ids do not
    /// contain the predecessors): rewrite x into a commit identical to its (transitive)
    /// predecessor p. jj must refuse (the result would be p <- x <- .. <- p, a cycle).
    Recreate(usize, usize),
    /// ditto inside one transaction: x -> y -> z -> (y again)
    TwiceAndBack(usize),
    /// `set_view(view the repository had after step i)` (what `jj op restore` / `jj undo` do);
    /// step 0 is the build
    Restore(usize),
}

#[derive(Clone, Debug, Serialize, Deserialize, PartialEq, Eq)]
struct BuildSpec {
    /// parent lists of the initial commits (indices into this list; empty = child of root)
    parents: Vec<Vec<usize>>,
    /// per commit; false: the commit is written to the store and made visible with `add_head`
    /// only, as commits imported from Git are: no operation records it
    tracked: Vec<bool>,
    /// the setting `experimental.record-predecessors-in-commit` (default true). With false
    /// a rewrite can produce the id of an older commit, and the harness tries to.
    predecessors_in_commit: bool,
}

#[derive(Clone, Debug, Serialize, Deserialize, PartialEq, Eq)]
enum Step {
    Build(BuildSpec),
    /// one transaction on the current head operation
    Tx(Vec<Act>),
    /// one transaction started at the initial operation (concurrent with everything since)
    TxAtInitial(Vec<Act>),
    /// two concurrent transactions started at the current head operation
    Fork(Vec<Act>, Vec<Act>),
}

fn act_label(a: &Act) -> &'static str {
    match a {
        Act::Describe(_) => "describe",
        Act::DescribeTwice(_) => "describe-twice",
        Act::Rebase(..) => "rebase",
        Act::Squash(..) => "squash",
        Act::Split(_) => "split",
        Act::Abandon(_) => "abandon",
        Act::New(_) => "new",
        Act::Recreate(..) => "recreate",
        Act::TwiceAndBack(_) => "twice-and-back",
        Act::Restore(_) => "restore",
    }
}

fn step_label(s: &Step) -> String {
    let acts = |v: &Vec<Act>| v.iter().map(act_label).collect::<Vec<_>>().join("+");
    match s {
        Step::Build(b) => format!(
            "build{}{}",
            b.tracked
                .iter()
                .map(|&t| if t { 't' } else { 'u' })
                .collect::<String>(),
            if b.predecessors_in_commit { "" } else { "-nopic" }
        ),
        Step::Tx(a) => format!("tx:{}", acts(a)),
        Step::TxAtInitial(a) => format!("at-initial:{}", acts(a)),
        Step::Fork(a, b) => format!("fork:{}|{}", acts(a), acts(b)),
    }
}

fn sig(ms: i64) -> Signature {
    Signature {
        name: "Test User".to_string(),
        email: "test.user@example.com".to_string(),
        timestamp: Timestamp {
            timestamp: MillisSinceEpoch(ms),
            tz_offset: 0,
        },
    }
}

// ---------------------------------------------------------------------------------------
// The world: a real repository plus the ghost, rebuilt from scratch for every history
// ---------------------------------------------------------------------------------------

#[derive(Clone, Debug)]
struct Ghost {
    /// what this commit was rewritten from (slots), in the order requested
    preds: Vec<usize>,
    /// index into `World::ops` of the operation that created it; None = untracked / root
    op: Option<usize>,
    /// made by jj itself (rebase of a descendant)
    by_jj: bool,
}

struct OpRec {
    op: Operation,
    parents: Vec<usize>,
    /// slots created by this operation
    created: Vec<usize>,
    /// 0 = before/at build
    step: usize,
}

struct HeadRec {
    repo: Arc<ReadonlyRepo>,
    op: usize,
    visible: u64,
}

struct World {
    test_repo: TestRepo,
    settings: UserSettings,
    repo: Arc<ReadonlyRepo>,
    table: Vec<Commit>,
    parents: Vec<Vec<usize>>,
    ghost: Vec<Ghost>,
    /// slots written in the running transaction, waiting for their operation
    pending: Vec<usize>,
    ops: Vec<OpRec>,
    /// the repository at head after every step (index 0 = after the build)
    heads: Vec<HeadRec>,
    clock: i64,
    changes: u32,
    step: usize,
    /// experimental.record-predecessors-in-commit
    pic: bool,
}

enum Stop {
    /// not a verdict (jj refused to re-create an identical commit; an action panicked)
    Inconclusive(String),
    /// already reported
    Violation,
}

#[derive(Default)]
struct Counters {
    walks: Counter,
    walks_multi: Counter,
    walks_closure_ge3: Counter,
    walks_diamond: Counter,
    walks_across_concurrent_ops: Counter,
    walks_from_hidden: Counter,
    walks_chain_within_op: Counter,
    walks_closure_with_untracked: Counter,
    walks_untracked_reached_twice: Counter,
    entries_checked: Counter,
    entries_without_operation: Counter,
    entries_multi_pred: Counter,
    jj_rebased_in_tx: Counter,
    jj_rebased_in_merge: Counter,
    jj_created_unreported: Counter,
    merges: Counter,
    restores: Counter,
    acc_pairs: Counter,
    acc_nonempty: Counter,
    acc_transitive: Counter,
    acc_nonlinear_range: Counter,
    inconclusive: Counter,
    act_panics: Counter,
    states_nontrivial: Counter,
    other_violations: Counter,
    recreate_refused_across_ops: Counter,
    recreate_refused_within_tx: Counter,
}

struct Shared<'a> {
    ctx: &'a Ctx,
    c: &'a Counters,
}

/// Shapes observed on the unchanged tree and reported to the coordinator (an untracked commit
/// that is reached twice is flushed twice); the vacuity gates stay armed when only these occur.
const REPORTED_SHAPES: [&str; 2] = [
    "C46/walk/duplicate-untracked",
    "C46/walk-multi/duplicate-untracked",
];

fn violation(sh: &Shared, signature: &str, description: String, case: Value) {
    if !REPORTED_SHAPES.contains(&signature) {
        sh.c.other_violations.inc();
    }
    sh.ctx.violation(signature, description, case);
}

/// Settings whose `debug.commit-timestamp` / `debug.operation-timestamp` are a value of the
/// harness clock, so that the ids of commits made by jj itself (rebased descendants) and of
/// operations are a function of the history, two different rewrites never collide on an id
/// and a rewrite never re-creates an old id (which would be an artificial predecessor cycle).
fn settings_at(prev: Option<&UserSettings>, ms: i64, pic: bool) -> UserSettings {
    let secs = ms / 1000;
    if secs >= 86_400 {
        machinery_failure("harness clock overflow");
    }
    let ts = format!(
        "1970-01-01T{:02}:{:02}:{:02}.{:03}Z",
        secs / 3600,
        (secs / 60) % 60,
        secs % 60,
        ms % 1000
    );
    let mut config = testutils::base_user_config();
    config.add_layer(
        jj_lib::config::ConfigLayer::parse(
            jj_lib::config::ConfigSource::User,
            &format!(
                "debug.commit-timestamp = \"{ts}\"\ndebug.operation-timestamp = \"{ts}\"\n\
                 experimental.record-predecessors-in-commit = {pic}\n"
            ),
        )
        .unwrap_or_else(|e| machinery_failure(&format!("config: {e}"))),
    );
    let r = match prev {
        Some(p) => p.with_new_config(config),
        None => UserSettings::from_config(config),
    };
    r.unwrap_or_else(|e| machinery_failure(&format!("settings: {e}")))
}

impl World {
    fn new(pic: bool) -> World {
        let settings = settings_at(None, 1_000_000, pic);
        // the simple on-disk commit backend: the test backend starts a multi-threaded tokio
        // runtime per instance, which would dominate the cost of every reload
        let test_repo =
            TestRepo::init_with_backend_and_settings(testutils::TestRepoBackend::Simple, &settings);
        let repo = test_repo.repo.clone();
        let root = repo.store().root_commit();
        let mut w = World {
            test_repo,
            settings,
            repo: repo.clone(),
            table: vec![root],
            parents: vec![vec![]],
            ghost: vec![Ghost {
                preds: vec![],
                op: None,
                by_jj: false,
            }],
            pending: vec![],
            ops: vec![],
            heads: vec![],
            clock: 1_000_000,
            changes: 0,
            step: 0,
            pic,
        };
        w.op_index(repo.operation());
        w
    }

    fn slot_of(&self, id: &CommitId) -> Option<usize> {
        self.table.iter().position(|c| c.id() == id)
    }

    fn tick(&mut self) -> i64 {
        self.clock += 1000;
        self.clock
    }

    fn fresh_change(&mut self) -> ChangeId {
        self.changes += 1;
        let len = self.repo.store().change_id_length();
        let mut bytes = format!("c{}", self.changes).into_bytes();
        bytes.resize(len, 0);
        ChangeId::new(bytes)
    }

    /// First slot with the same change id (a label for the change).
    fn change_rep(&self, s: usize) -> usize {
        (0..self.table.len())
            .find(|&t| self.table[t].change_id() == self.table[s].change_id())
            .unwrap()
    }

    fn push(&mut self, c: Commit, preds: Vec<usize>, tracked: bool, by_jj: bool) -> usize {
        if let Some(s) = self.slot_of(c.id()) {
            // cannot happen with the harness clock (jj refuses to re-create a commit)
            machinery_failure(&format!("commit of slot {s} was created twice"));
        }
        let ps: Vec<usize> = c
            .parent_ids()
            .iter()
            .map(|p| {
                self.slot_of(p)
                    .unwrap_or_else(|| machinery_failure("push(): parent not in table"))
            })
            .collect();
        self.table.push(c);
        self.parents.push(ps);
        self.ghost.push(Ghost {
            preds,
            op: None,
            by_jj,
        });
        let s = self.table.len() - 1;
        if tracked {
            self.pending.push(s);
        }
        if self.table.len() > 60 {
            machinery_failure("commit table overflow");
        }
        s
    }

    /// Index of the operation in the ghost operation table, registering it (and its
    /// ancestors) when new.
    fn op_index(&mut self, op: &Operation) -> usize {
        if let Some(i) = self.ops.iter().position(|r| r.op.id() == op.id()) {
            return i;
        }
        let parents = op
            .parents()
            .block_on()
            .unwrap_or_else(|e| machinery_failure(&format!("cannot read operation parents: {e}")));
        let pidx: Vec<usize> = parents.iter().map(|p| self.op_index(p)).collect();
        self.ops.push(OpRec {
            op: op.clone(),
            parents: pidx,
            created: vec![],
            step: self.step,
        });
        if self.ops.len() > 60 {
            machinery_failure("operation table overflow");
        }
        self.ops.len() - 1
    }

    /// Reflexive ancestor masks of the ghost operation table.
    fn op_anc(&self) -> Vec<u64> {
        // ops are registered parents-first
        let mut anc = vec![0u64; self.ops.len()];
        for i in 0..self.ops.len() {
            let mut m = 1u64 << i;
            for &p in &self.ops[i].parents {
                m |= anc[p];
            }
            anc[i] = m;
        }
        anc
    }

    fn visible_mask(&self, repo: &ReadonlyRepo) -> u64 {
        let mut m = 0u64;
        let mut stack: Vec<usize> = vec![];
        for h in repo.view().heads() {
            match self.slot_of(h) {
                Some(s) => stack.push(s),
                None => machinery_failure("visible_mask(): head not in table"),
            }
        }
        while let Some(s) = stack.pop() {
            if m >> s & 1 == 1 {
                continue;
            }
            m |= 1 << s;
            stack.extend(self.parents[s].iter().copied());
        }
        m
    }

    /// Reflexive descendants of x among all table commits.
    fn descendants(&self, x: usize) -> u64 {
        let mut m = 1u64 << x;
        loop {
            let mut changed = false;
            for s in 0..self.table.len() {
                if m >> s & 1 == 0 && self.parents[s].iter().any(|&p| m >> p & 1 == 1) {
                    m |= 1 << s;
                    changed = true;
                }
            }
            if !changed {
                return m;
            }
        }
    }
}

fn open_loader(w: &World, settings: &UserSettings) -> RepoLoader {
    RepoLoader::init_from_file_system(
        settings,
        w.test_repo.repo_path(),
        &w.test_repo.env.default_backend_factories(),
    )
    .unwrap_or_else(|e| machinery_failure(&format!("cannot open repo: {e}")))
}

/// Applies one action; pushes the commits the harness writes (with their ghost) to the table.
fn apply_act(w: &mut World, mr: &mut MutableRepo, act: &Act, sh: &Shared) -> Result<(), String> {
    let e2s = |e: jj_lib::backend::BackendError| format!("{e}");
    // commit objects of the table belong to the stores of earlier loaders: fetch them again
    // from this transaction's store
    let store = mr.store().clone();
    let get = |w: &World, s: usize| -> Commit {
        store
            .get_commit(w.table[s].id())
            .unwrap_or_else(|e| machinery_failure(&format!("cannot read commit of slot {s}: {e}")))
    };
    match act {
        Act::Describe(x) => {
            let t = w.tick();
            let c = mr
                .rewrite_commit(&get(w, *x))
                .set_description(format!("d{t}"))
                .set_committer(sig(t))
                .write()
                .block_on()
                .map_err(e2s)?;
            w.push(c, vec![*x], true, false);
        }
        Act::DescribeTwice(x) => {
            let t = w.tick();
            let c1 = mr
                .rewrite_commit(&get(w, *x))
                .set_description(format!("d{t}"))
                .set_committer(sig(t))
                .write()
                .block_on()
                .map_err(e2s)?;
            let s1 = w.push(c1.clone(), vec![*x], true, false);
            let t = w.tick();
            let c2 = mr
                .rewrite_commit(&c1)
                .set_description(format!("d{t}"))
                .set_committer(sig(t))
                .write()
                .block_on()
                .map_err(e2s)?;
            w.push(c2, vec![s1], true, false);
        }
        Act::Rebase(x, onto) => {
            // rebase_commit() takes the committer timestamp from the settings (this
            // transaction's clock value); the new parents make the id unique
            let c = rebase_commit(mr, get(w, *x), vec![w.table[*onto].id().clone()])
                .block_on()
                .map_err(e2s)?;
            w.push(c, vec![*x], true, false);
        }
        Act::Squash(into, from) => {
            let t = w.tick();
            let c = mr
                .rewrite_commit(&get(w, *into))
                .set_predecessors(vec![w.table[*into].id().clone(), w.table[*from].id().clone()])
                .set_description(format!("d{t}"))
                .set_committer(sig(t))
                .write()
                .block_on()
                .map_err(e2s)?;
            mr.record_abandoned_commit(&get(w, *from));
            w.push(c, vec![*into, *from], true, false);
        }
        Act::Split(x) => {
            let t = w.tick();
            let first = mr
                .rewrite_commit(&get(w, *x))
                .set_description(format!("d{t}"))
                .set_committer(sig(t))
                .write()
                .block_on()
                .map_err(e2s)?;
            w.push(first.clone(), vec![*x], true, false);
            let t = w.tick();
            let change = w.fresh_change();
            let second = mr
                .rewrite_commit(&get(w, *x))
                .clear_rewrite_source()
                .set_change_id(change)
                .set_parents(vec![first.id().clone()])
                .set_description(format!("d{t}"))
                .set_committer(sig(t))
                .write()
                .block_on()
                .map_err(e2s)?;
            w.push(second, vec![*x], true, false);
        }
        Act::Abandon(x) => {
            mr.record_abandoned_commit(&get(w, *x));
        }
        Act::New(x) => {
            let t = w.tick();
            let change = w.fresh_change();
            let c = mr
                .new_commit(vec![w.table[*x].id().clone()], store.empty_merged_tree())
                .set_change_id(change)
                .set_description(format!("d{t}"))
                .set_author(sig(t))
                .set_committer(sig(t))
                .write()
                .block_on()
                .map_err(e2s)?;
            w.push(c, vec![], true, false);
        }
        Act::Recreate(x, p) => {
            let old = get(w, *p);
            let r = mr
                .rewrite_commit(&get(w, *x))
                .set_parents(old.parent_ids().to_vec())
                .set_description(old.description())
                .set_author(old.author().clone())
                .set_committer(old.committer().clone())
                .write()
                .block_on();
            match r {
                Err(e) if format!("{e}").contains("already exists") => sh.c.recreate_refused_across_ops.inc(),
                Err(e) => return Err(e2s(e)),
                Ok(c) if w.slot_of(c.id()).is_some() => {
                    return Err(format!(
                        "cycle: jj recorded the existing commit of slot {p} as rewritten from slot {x}, which was itself rewritten from it"
                    ));
                }
                Ok(_) => machinery_failure("Recreate did not reproduce the old commit id"),
            }
        }
        Act::TwiceAndBack(x) => {
            let t = w.tick();
            let c1 = mr
                .rewrite_commit(&get(w, *x))
                .set_description(format!("d{t}"))
                .set_committer(sig(t))
                .write()
                .block_on()
                .map_err(e2s)?;
            let s1 = w.push(c1.clone(), vec![*x], true, false);
            let t = w.tick();
            let c2 = mr
                .rewrite_commit(&c1)
                .set_description(format!("d{t}"))
                .set_committer(sig(t))
                .write()
                .block_on()
                .map_err(e2s)?;
            let s2 = w.push(c2.clone(), vec![s1], true, false);
            let r = mr
                .rewrite_commit(&c2)
                .set_description(c1.description())
                .set_committer(c1.committer().clone())
                .write()
                .block_on();
            match r {
                Err(e) if format!("{e}").contains("already exists") => sh.c.recreate_refused_within_tx.inc(),
                Err(e) => return Err(e2s(e)),
                Ok(c) if w.slot_of(c.id()).is_some() => {
                    return Err(format!(
                        "cycle: jj recorded the commit of slot {s1} (made in this transaction) as rewritten from slot {s2}, which was itself rewritten from it"
                    ));
                }
                Ok(_) => machinery_failure("TwiceAndBack did not reproduce the old commit id"),
            }
        }
        Act::Restore(i) => {
            let h = w
                .heads
                .get(*i)
                .unwrap_or_else(|| machinery_failure("Restore: no such step"));
            mr.set_view(h.repo.view().store_view().clone());
            sh.c.restores.inc();
        }
    }
    Ok(())
}

/// Every key of the operation's recorded map that the harness does not know is a commit jj
/// made without telling (operation merges rebase descendants): validate the record and adopt
/// it as the ghost. Returns false (after reporting) when a record is not acceptable.
fn absorb_op(w: &mut World, op_idx: usize, in_merge: bool, sh: &Shared, history: &[Step]) -> bool {
    let op = w.ops[op_idx].op.clone();
    let Some(map) = op.store_operation().commit_predecessors.clone() else {
        violation(
            sh,
            "C46/record/operation-without-predecessors",
            format!("operation #{op_idx} stores no commit_predecessors at all"),
            json!({"history": history}),
        );
        return false;
    };
    let mut unknown: Vec<(CommitId, Vec<CommitId>)> =
        map.into_iter().filter(|(k, _)| w.slot_of(k).is_none()).collect();
    let store = w.repo.store().clone();
    while !unknown.is_empty() {
        // those whose parents and predecessors are known, in an id-free order
        let mut ready: Vec<(Vec<usize>, Vec<usize>, usize)> = vec![];
        for (i, (id, preds)) in unknown.iter().enumerate() {
            let c = store
                .get_commit(id)
                .unwrap_or_else(|e| machinery_failure(&format!("cannot read commit: {e}")));
            let ps: Option<Vec<usize>> = preds.iter().map(|p| w.slot_of(p)).collect();
            let pars: Option<Vec<usize>> = c.parent_ids().iter().map(|p| w.slot_of(p)).collect();
            if let (Some(ps), Some(pars)) = (ps, pars) {
                ready.push((ps, pars, i));
            }
        }
        if ready.is_empty() {
            violation(
                sh,
                "C46/record/jj-commit-predecessors-unknown",
                format!(
                    "operation #{op_idx} records commits made by jj whose predecessors / parents are unknown commits: {:?}",
                    unknown
                        .iter()
                        .map(|(k, v)| (k.hex(), v.iter().map(|p| p.hex()).collect::<Vec<_>>()))
                        .collect::<Vec<_>>()
                ),
                json!({"history": history}),
            );
            return false;
        }
        ready.sort();
        let (ps, _, i) = ready.remove(0);
        let (id, _) = unknown.remove(i);
        let c = store.get_commit(&id).unwrap();
        let same_change = ps.iter().all(|&p| w.table[p].change_id() == c.change_id());
        if ps.is_empty() || !same_change {
            violation(
                sh,
                "C46/record/jj-commit-predecessors",
                format!(
                    "operation #{op_idx} records a commit made by jj (change {}) with predecessor slots {ps:?}: \
                     a rebased commit must have its source (a commit of the same change) as predecessor",
                    c.change_id().hex()
                ),
                json!({"history": history}),
            );
            return false;
        }
        let s = w.push(c, ps, false, true);
        w.ghost[s].op = Some(op_idx);
        w.ops[op_idx].created.push(s);
        if in_merge {
            sh.c.jj_rebased_in_merge.inc();
        } else {
            sh.c.jj_created_unreported.inc();
        }
    }
    true
}

/// Runs one transaction from `base`; commits it; returns the committed repo.
fn run_tx(
    w: &mut World,
    base: &Arc<ReadonlyRepo>,
    acts: &[Act],
    sh: &Shared,
    history: &[Step],
) -> Result<Arc<ReadonlyRepo>, Stop> {
    // every transaction gets its own clock value (timestamps of the commits jj makes itself,
    // and of the operation): load the base operation again with fresh settings
    let t = w.tick();
    let settings = settings_at(Some(&w.settings), t, w.pic);
    let base = open_loader(w, &settings)
        .load_at(base.operation())
        .block_on()
        .unwrap_or_else(|e| machinery_failure(&format!("cannot load base operation: {e}")));
    let mut tx = base.start_transaction();
    w.pending.clear();
    for act in acts {
        match catch(|| apply_act(w, tx.repo_mut(), act, sh)) {
            Ok(Ok(())) => {}
            Ok(Err(e)) => {
                if e.starts_with("cycle:") {
                    violation(
                        sh,
                        "C46/cycle/recreated-existing-commit",
                        e,
                        json!({"history": history}),
                    );
                    return Err(Stop::Violation);
                }
                if e.contains("already exists") {
                    return Err(Stop::Inconclusive(e));
                }
                machinery_failure(&format!("{act:?} failed: {e} (history {history:?})"));
            }
            Err(p) => {
                sh.c.act_panics.inc();
                eprintln!("note: {act:?} panicked: {p} (history {history:?})");
                return Err(Stop::Inconclusive(p));
            }
        }
    }
    if tx.repo().has_rewrites() {
        let mut rebased: Vec<(Commit, RebasedCommit)> = vec![];
        let r = catch(|| {
            tx.repo_mut()
                .rebase_descendants_with_options(
                    &RevsetExpression::none(),
                    &RebaseOptions::default(),
                    |old, new| rebased.push((old, new)),
                )
                .block_on()
        });
        match r {
            Ok(Ok(())) => {}
            Ok(Err(e)) => {
                let e = format!("{e}");
                if e.contains("already exists") {
                    return Err(Stop::Inconclusive(e));
                }
                machinery_failure(&format!("rebase_descendants failed: {e} (history {history:?})"));
            }
            Err(p) => {
                sh.c.act_panics.inc();
                eprintln!("note: rebase_descendants panicked: {p} (history {history:?})");
                return Err(Stop::Inconclusive(p));
            }
        }
        for (old, new) in rebased {
            if let RebasedCommit::Rewritten(new) = new {
                let s = w
                    .slot_of(old.id())
                    .unwrap_or_else(|| machinery_failure("rebased commit is not in the table"));
                w.push(new, vec![s], true, true);
                sh.c.jj_rebased_in_tx.inc();
            }
        }
    }
    let repo = match catch(|| tx.commit(format!("step {}", w.step)).block_on()) {
        Ok(Ok(repo)) => repo,
        Ok(Err(e)) => machinery_failure(&format!("Transaction::commit failed: {e}")),
        Err(p) => {
            sh.c.act_panics.inc();
            eprintln!("note: Transaction::commit panicked: {p} (history {history:?})");
            return Err(Stop::Inconclusive(p));
        }
    };
    let op_idx = w.op_index(repo.operation());
    for s in std::mem::take(&mut w.pending) {
        w.ghost[s].op = Some(op_idx);
        w.ops[op_idx].created.push(s);
    }
    if !absorb_op(w, op_idx, false, sh, history) {
        return Err(Stop::Violation);
    }
    Ok(repo)
}

/// Reloads the repo at head from disk (merging concurrent operations with the real code).
fn reload(w: &mut World, sh: &Shared, history: &[Step]) -> Result<(), Stop> {
    let t = w.tick();
    w.settings = settings_at(Some(&w.settings), t, w.pic);
    let r = catch(|| {
        open_loader(w, &w.settings)
            .load_at_head()
            .block_on()
            .map_err(|e| {
                let mut s = format!("{e}");
                let mut src = std::error::Error::source(&e);
                while let Some(x) = src {
                    s.push_str(&format!(": {x}"));
                    src = x.source();
                }
                s
            })
    });
    let repo = match r {
        Ok(Ok(repo)) => repo,
        Ok(Err(e)) => {
            if e.contains("already exists") {
                return Err(Stop::Inconclusive(e));
            }
            machinery_failure(&format!("load_at_head failed: {e} (history {history:?})"));
        }
        Err(p) => {
            sh.c.act_panics.inc();
            eprintln!("note: load_at_head panicked: {p} (history {history:?})");
            return Err(Stop::Inconclusive(p));
        }
    };
    let known = w.ops.iter().any(|r| r.op.id() == repo.operation().id());
    let op_idx = w.op_index(repo.operation());
    if !known {
        if repo.operation().parent_ids().len() < 2 {
            machinery_failure("load_at_head produced an unknown non-merge operation");
        }
        sh.c.merges.inc();
        if !absorb_op(w, op_idx, true, sh, history) {
            return Err(Stop::Violation);
        }
        // a visible commit that no operation records was made by this merge (it did not
        // exist before): its evolution must still lead to the commit it was rebased from
        let mut stack: Vec<CommitId> = repo.view().heads().iter().cloned().collect();
        let mut seen: HashSet<CommitId> = HashSet::new();
        while let Some(id) = stack.pop() {
            if w.slot_of(&id).is_some() || !seen.insert(id.clone()) {
                continue;
            }
            let c = repo
                .store()
                .get_commit(&id)
                .unwrap_or_else(|e| machinery_failure(&format!("cannot read commit: {e}")));
            stack.extend(c.parent_ids().iter().cloned());
            let sources: Vec<usize> = (1..w.table.len())
                .filter(|&s| w.table[s].change_id() == c.change_id())
                .collect();
            if sources.is_empty() {
                machinery_failure("the merged view contains a commit of unknown origin");
            }
            let listed: Vec<Option<usize>> = match do_walk(&repo, slice::from_ref(&id), 2 * w.table.len() + 2)
            {
                Ok((items, _)) => items.iter().map(|it| w.slot_of(&it.id)).collect(),
                Err(_) => vec![],
            };
            if listed.iter().flatten().any(|s| sources.contains(s)) {
                machinery_failure("a commit no operation records still has a recorded evolution");
            }
            violation(
                sh,
                "C46/walk/missing-source-of-merge-rebased-commit",
                format!(
                    "merging the concurrent operations made a new commit of the change of slots {sources:?} (a rebased \
                     descendant), but walk_predecessors from it lists slots {listed:?}: none of the commits it was rewritten from"
                ),
                json!({"history": history}),
            );
            return Err(Stop::Violation);
        }
    }
    w.repo = repo;
    Ok(())
}

// ---------------------------------------------------------------------------------------
// The oracle
// ---------------------------------------------------------------------------------------

struct WalkItem {
    id: CommitId,
    op: Option<jj_lib::op_store::OperationId>,
    preds: Vec<CommitId>,
}

enum WalkEnd {
    Done,
    /// more items than the cap: the walk does not terminate in any sensible bound
    Truncated,
    Cycle(String),
    Error(String),
}

fn do_walk(repo: &ReadonlyRepo, starts: &[CommitId], cap: usize) -> Result<(Vec<WalkItem>, WalkEnd), String> {
    catch(|| {
        let mut stream = walk_predecessors(repo, starts).boxed_local();
        let mut items = vec![];
        loop {
            match stream.next().block_on() {
                None => return (items, WalkEnd::Done),
                Some(Ok(e)) => {
                    let preds = e.predecessor_ids().to_vec();
                    items.push(WalkItem {
                        id: e.commit.id().clone(),
                        op: e.operation.as_ref().map(|o| o.id().clone()),
                        preds,
                    });
                    if items.len() > cap {
                        return (items, WalkEnd::Truncated);
                    }
                }
                Some(Err(WalkPredecessorsError::CycleDetected(id))) => {
                    return (items, WalkEnd::Cycle(id.hex()));
                }
                Some(Err(e)) => return (items, WalkEnd::Error(format!("{e}"))),
            }
        }
    })
}

/// Reflexive-transitive closure of the ghost relation from the start slots.
fn closure(w: &World, starts: &[usize]) -> BTreeSet<usize> {
    let mut out = BTreeSet::new();
    let mut stack: Vec<usize> = starts.to_vec();
    while let Some(s) = stack.pop() {
        if out.insert(s) {
            stack.extend(w.ghost[s].preds.iter().copied());
        }
    }
    out
}

/// Number of distinct ghost paths from the starts to each slot of the closure (capped).
fn path_counts(w: &World, starts: &[usize], clo: &BTreeSet<usize>) -> BTreeMap<usize, u32> {
    // slots are created after their predecessors, so descending slot order is topological
    let mut counts: BTreeMap<usize, u32> = clo.iter().map(|&s| (s, 0)).collect();
    for &s in starts {
        *counts.get_mut(&s).unwrap() += 1;
    }
    for &s in clo.iter().rev() {
        let n = counts[&s];
        for &p in &w.ghost[s].preds {
            let e = counts.get_mut(&p).unwrap();
            *e = (*e + n).min(1000);
        }
    }
    counts
}

fn check_walk(w: &World, starts: &[usize], kind: &str, sh: &Shared, history: &[Step], visible: u64) -> bool {
    let ids: Vec<CommitId> = starts.iter().map(|&s| w.table[s].id().clone()).collect();
    let clo = closure(w, starts);
    let cap = 2 * w.table.len() + 2;
    let mut ok = true;
    let mut report = |clause: &str, msg: String| {
        violation(
            sh,
            &format!("C46/{kind}/{clause}"),
            format!("walk_predecessors from slots {starts:?}: {msg}"),
            json!({"history": history, "start_slots": starts}),
        );
        ok = false;
    };
    if starts.len() == 1 {
        sh.c.walks.inc();
    } else {
        sh.c.walks_multi.inc();
    }
    // vacuity bookkeeping on the expected closure
    let counts = path_counts(w, starts, &clo);
    let diamond = counts.values().any(|&n| n >= 2);
    if clo.len() >= 3 {
        sh.c.walks_closure_ge3.inc();
    }
    if diamond {
        sh.c.walks_diamond.inc();
    }
    if starts.iter().any(|&s| visible >> s & 1 == 0) {
        sh.c.walks_from_hidden.inc();
    }
    let anc = w.op_anc();
    let clo_ops: BTreeSet<usize> = clo.iter().filter_map(|&s| w.ghost[s].op).collect();
    if clo_ops.iter().any(|&a| {
        clo_ops
            .iter()
            .any(|&b| a != b && anc[a] >> b & 1 == 0 && anc[b] >> a & 1 == 0)
    }) {
        sh.c.walks_across_concurrent_ops.inc();
    }
    if clo
        .iter()
        .any(|&s| w.ghost[s].op.is_some() && w.ghost[s].preds.iter().any(|&p| w.ghost[p].op == w.ghost[s].op))
    {
        sh.c.walks_chain_within_op.inc();
    }
    let untracked: Vec<usize> = clo
        .iter()
        .copied()
        .filter(|&s| s != 0 && w.ghost[s].op.is_none())
        .collect();
    if !untracked.is_empty() {
        sh.c.walks_closure_with_untracked.inc();
        if untracked.iter().any(|s| counts[s] >= 2) {
            sh.c.walks_untracked_reached_twice.inc();
        }
    }

    let (items, end) = match do_walk(&w.repo, &ids, cap) {
        Ok(x) => x,
        Err(p) => {
            report("panic", format!("panicked: {p}"));
            return false;
        }
    };
    match end {
        WalkEnd::Done => {}
        WalkEnd::Truncated => {
            report(
                "unbounded",
                format!(
                    "more than {cap} entries for a repository with {} commits",
                    w.table.len()
                ),
            );
            return false;
        }
        WalkEnd::Cycle(id) => {
            report(
                "cycle-error",
                format!("CycleDetected around {id} although the history has no cycle"),
            );
            return false;
        }
        WalkEnd::Error(e) => {
            report("error", format!("error: {e}"));
            return false;
        }
    }
    let mut got: Vec<usize> = vec![];
    for it in &items {
        match w.slot_of(&it.id) {
            Some(s) => got.push(s),
            None => {
                report(
                    "extra-unknown",
                    format!("lists commit {} which the history never created", it.id.hex()),
                );
                return false;
            }
        }
    }
    // exactly the closure, each once
    let mut seen: BTreeSet<usize> = BTreeSet::new();
    for (i, &s) in got.iter().enumerate() {
        if !seen.insert(s) {
            let shape = if w.ghost[s].op.is_none() {
                "untracked"
            } else {
                "tracked"
            };
            report(
                &format!("duplicate-{shape}"),
                format!(
                    "slot {s} is listed more than once (entries {got:?}; entry {i} has operation {:?})",
                    items[i].op.as_ref().map(|o| o.hex())
                ),
            );
        }
        if !clo.contains(&s) {
            report(
                "extra",
                format!(
                    "slot {s} is listed but is not a (transitive) predecessor (entries {got:?}, expected {clo:?})"
                ),
            );
        }
    }
    for &s in &clo {
        if !seen.contains(&s) {
            report(
                "missing",
                format!(
                    "slot {s} is a (transitive) predecessor but is not listed (entries {got:?}, expected {clo:?})"
                ),
            );
        }
    }
    // each after all of its own rewrites
    for (i, &a) in got.iter().enumerate() {
        for &b in &w.ghost[a].preds {
            if let Some(j) = got.iter().position(|&x| x == b)
                && j < i
            {
                report(
                    "order",
                    format!("slot {b} (a predecessor of slot {a}) is listed before it (entries {got:?})"),
                );
            }
        }
    }
    // per entry: recorded predecessors and operation
    for (it, &s) in items.iter().zip(&got) {
        sh.c.entries_checked.inc();
        let mut want: Vec<CommitId> = w.ghost[s]
            .preds
            .iter()
            .map(|&p| w.table[p].id().clone())
            .collect();
        let mut have = it.preds.clone();
        want.sort();
        have.sort();
        if want.len() >= 2 {
            sh.c.entries_multi_pred.inc();
        }
        if want != have {
            let have_slots: Vec<Option<usize>> = it.preds.iter().map(|p| w.slot_of(p)).collect();
            report(
                "entry-predecessors",
                format!(
                    "entry of slot {s} has predecessor slots {have_slots:?}, the history made it from {:?}",
                    w.ghost[s].preds
                ),
            );
        }
        let want_op = w.ghost[s].op.map(|o| w.ops[o].op.id().clone());
        if want_op.is_none() {
            sh.c.entries_without_operation.inc();
        }
        if want_op != it.op {
            report(
                "entry-operation",
                format!(
                    "entry of slot {s} names operation {:?}, it was created by operation #{:?}",
                    it.op.as_ref().map(|o| w.ops.iter().position(|r| r.op.id() == o)),
                    w.ghost[s].op
                ),
            );
        }
    }
    ok
}

/// `accumulate_predecessors([new], [old])` for old a strict ancestor of new, against the ghost
/// relation composed over the operations in between: keys = commits created in the range and
/// reachable (through range records) from the commits created by `new`; value = the
/// transitive predecessors that were not created in the range.
fn check_accumulate(w: &World, old: usize, new: usize, anc: &[u64], sh: &Shared, history: &[Step]) -> bool {
    let range: u64 = anc[new] & !anc[old];
    let in_range = |s: usize| w.ghost[s].op.is_some_and(|o| range >> o & 1 == 1);
    let mut reach: BTreeSet<usize> = BTreeSet::new();
    let mut stack: Vec<usize> = w.ops[new].created.clone();
    while let Some(s) = stack.pop() {
        if reach.insert(s) && in_range(s) {
            stack.extend(w.ghost[s].preds.iter().copied());
        }
    }
    let mut want: BTreeMap<CommitId, Vec<CommitId>> = BTreeMap::new();
    let mut transitive = false;
    for &k in reach.iter().filter(|&&s| in_range(s)) {
        let mut leaves: BTreeSet<usize> = BTreeSet::new();
        let mut seen: BTreeSet<usize> = BTreeSet::new();
        let mut st: Vec<usize> = w.ghost[k].preds.clone();
        while let Some(s) = st.pop() {
            if !seen.insert(s) {
                continue;
            }
            if in_range(s) {
                st.extend(w.ghost[s].preds.iter().copied());
            } else {
                leaves.insert(s);
            }
        }
        let direct: BTreeSet<usize> = w.ghost[k].preds.iter().copied().collect();
        if leaves != direct {
            transitive = true;
        }
        let mut v: Vec<CommitId> = leaves.iter().map(|&s| w.table[s].id().clone()).collect();
        v.sort();
        want.insert(w.table[k].id().clone(), v);
    }
    sh.c.acc_pairs.inc();
    if !want.is_empty() {
        sh.c.acc_nonempty.inc();
    }
    if transitive {
        sh.c.acc_transitive.inc();
    }
    let range_ops: Vec<usize> = (0..w.ops.len()).filter(|&o| range >> o & 1 == 1).collect();
    if range_ops.iter().any(|&a| {
        range_ops
            .iter()
            .any(|&b| a != b && anc[a] >> b & 1 == 0 && anc[b] >> a & 1 == 0)
    }) {
        sh.c.acc_nonlinear_range.inc();
    }
    let case = json!({"history": history, "accumulate": {"old_op": old, "new_op": new}});
    let r = catch(|| {
        accumulate_predecessors(slice::from_ref(&w.ops[new].op), slice::from_ref(&w.ops[old].op)).block_on()
    });
    let got = match r {
        Err(p) => {
            violation(
                sh,
                "C46/accumulate/panic",
                format!("accumulate_predecessors(op #{new}, op #{old}) panicked: {p}"),
                case,
            );
            return false;
        }
        Ok(Err(e)) => {
            let clause = if matches!(e, WalkPredecessorsError::CycleDetected(_)) {
                "cycle-error"
            } else {
                "error"
            };
            violation(
                sh,
                &format!("C46/accumulate/{clause}"),
                format!("accumulate_predecessors(op #{new}, op #{old}) failed: {e}"),
                case,
            );
            return false;
        }
        Ok(Ok(m)) => m,
    };
    let got_sorted: BTreeMap<CommitId, Vec<CommitId>> = got
        .iter()
        .map(|(k, v)| {
            let mut v = v.clone();
            v.sort();
            (k.clone(), v)
        })
        .collect();
    if got
        .values()
        .any(|v| v.iter().collect::<HashSet<_>>().len() != v.len())
    {
        violation(
            sh,
            "C46/accumulate/duplicate-predecessor",
            format!("accumulate_predecessors(op #{new}, op #{old}) lists a predecessor twice"),
            case.clone(),
        );
        return false;
    }
    if got_sorted != want {
        let show = |m: &BTreeMap<CommitId, Vec<CommitId>>| -> Vec<(Option<usize>, Vec<Option<usize>>)> {
            let mut v: Vec<_> = m
                .iter()
                .map(|(k, v)| (w.slot_of(k), v.iter().map(|p| w.slot_of(p)).collect::<Vec<_>>()))
                .collect();
            v.sort();
            v
        };
        let clause = if anc[new] & !anc[old] == 1u64 << new {
            "single-forward"
        } else {
            "forward"
        };
        violation(
            sh,
            &format!("C46/accumulate/{clause}"),
            format!(
                "accumulate_predecessors(op #{new}, op #{old}) = {:?} (slots), the history composed over the range gives {:?}",
                show(&got_sorted),
                show(&want)
            ),
            case,
        );
        return false;
    }
    true
}

/// Evaluates all clauses on the repository at head. `only_new_ops`: restrict the
/// accumulate pairs to those whose newer operation was made by the last step (the others were
/// checked when the prefix was the frontier).
fn check_state(w: &World, sh: &Shared, history: &[Step], only_new_ops: bool) -> bool {
    let mut ok = true;
    let visible = w.visible_mask(&w.repo);
    for s in 0..w.table.len() {
        ok &= check_walk(w, &[s], "walk", sh, history, visible);
    }
    // several start commits: all versions of one change; all visible commits
    let mut by_change: BTreeMap<usize, Vec<usize>> = BTreeMap::new();
    for s in 1..w.table.len() {
        by_change.entry(w.change_rep(s)).or_default().push(s);
    }
    for (_, slots) in by_change {
        if slots.len() >= 2 {
            let mut newest_first = slots.clone();
            newest_first.reverse();
            ok &= check_walk(w, &newest_first, "walk-multi", sh, history, visible);
            ok &= check_walk(w, &slots, "walk-multi", sh, history, visible);
        }
    }
    let vis: Vec<usize> = (1..w.table.len()).filter(|&s| visible >> s & 1 == 1).collect();
    if vis.len() >= 2 {
        ok &= check_walk(w, &vis, "walk-multi", sh, history, visible);
    }
    let anc = w.op_anc();
    for new in 0..w.ops.len() {
        if only_new_ops && w.ops[new].step != w.step {
            continue;
        }
        for old in 0..w.ops.len() {
            if old != new && anc[new] >> old & 1 == 1 {
                ok &= check_accumulate(w, old, new, &anc, sh, history);
            }
        }
    }
    ok
}

// ---------------------------------------------------------------------------------------
// Executing a history
// ---------------------------------------------------------------------------------------

fn run_step(w: &mut World, step: &Step, sh: &Shared, history: &[Step]) -> Result<(), Stop> {
    match step {
        Step::Build(spec) => {
            let base = w.repo.clone();
            let mut tx = base.start_transaction();
            let store = base.store().clone();
            let mut slots: Vec<usize> = vec![];
            for (ps, &tracked) in spec.parents.iter().zip(&spec.tracked) {
                let t = w.tick();
                let change = w.fresh_change();
                let parents: Vec<CommitId> = if ps.is_empty() {
                    vec![store.root_commit_id().clone()]
                } else {
                    ps.iter().map(|&p| w.table[slots[p]].id().clone()).collect()
                };
                let builder = tx
                    .repo_mut()
                    .new_commit(parents, store.empty_merged_tree())
                    .set_change_id(change)
                    .set_description(format!("d{t}"))
                    .set_author(sig(t))
                    .set_committer(sig(t));
                let written = if tracked {
                    builder.write().block_on()
                } else {
                    let detached = builder.detach();
                    detached.write_hidden().block_on()
                };
                let c = written.unwrap_or_else(|e| machinery_failure(&format!("build failed: {e}")));
                if !tracked {
                    tx.repo_mut()
                        .add_head(&c)
                        .block_on()
                        .unwrap_or_else(|e| machinery_failure(&format!("build add_head failed: {e}")));
                }
                slots.push(w.push(c, vec![], tracked, false));
            }
            let repo = tx
                .commit("build")
                .block_on()
                .unwrap_or_else(|e| machinery_failure(&format!("build commit failed: {e}")));
            let op_idx = w.op_index(repo.operation());
            for s in std::mem::take(&mut w.pending) {
                w.ghost[s].op = Some(op_idx);
                w.ops[op_idx].created.push(s);
            }
            if !absorb_op(w, op_idx, false, sh, history) {
                return Err(Stop::Violation);
            }
        }
        Step::Tx(acts) => {
            let base = w.repo.clone();
            run_tx(w, &base, acts, sh, history)?;
        }
        Step::TxAtInitial(acts) => {
            let base = w
                .heads
                .first()
                .map(|h| h.repo.clone())
                .unwrap_or_else(|| machinery_failure("no initial operation"));
            run_tx(w, &base, acts, sh, history)?;
        }
        Step::Fork(a, b) => {
            let base = w.repo.clone();
            run_tx(w, &base, a, sh, history)?;
            run_tx(w, &base, b, sh, history)?;
        }
    }
    reload(w, sh, history)?;
    let op = w.op_index(&w.repo.operation().clone());
    let visible = w.visible_mask(&w.repo);
    w.heads.push(HeadRec {
        repo: w.repo.clone(),
        op,
        visible,
    });
    Ok(())
}

/// Replays a history on a fresh repository. The oracle runs after the last step (after every
/// step when `check_all`). `None`: inconclusive or a violation was reported.
fn replay(history: &[Step], sh: &Shared, check_all: bool) -> Option<World> {
    let pic = match history.first() {
        Some(Step::Build(b)) => b.predecessors_in_commit,
        _ => machinery_failure("a history must start with Build"),
    };
    let mut w = World::new(pic);
    for (i, step) in history.iter().enumerate() {
        w.step = i;
        match run_step(&mut w, step, sh, &history[..=i]) {
            Ok(()) => {}
            Err(Stop::Inconclusive(_)) => {
                sh.c.inconclusive.inc();
                return None;
            }
            Err(Stop::Violation) => return None,
        }
        // a state on which the oracle reported something is still extended: a finding must
        // not hide the histories behind it
        let last = i + 1 == history.len();
        if last || check_all {
            check_state(&w, sh, &history[..=i], !check_all);
        }
    }
    Some(w)
}

// ---------------------------------------------------------------------------------------
// Canonical key and enabled steps
// ---------------------------------------------------------------------------------------

fn canonical_key(w: &World) -> String {
    let visible = w.visible_mask(&w.repo);
    // the setting decides which actions are enabled: worlds with different settings never merge
    let mut out = String::from(if w.pic { "pic|" } else { "nopic|" });
    for s in 0..w.table.len() {
        out.push_str(&format!(
            "{}{}c{}p{:?}e{:?}o{:?}{};",
            if visible >> s & 1 == 1 { 'V' } else { 'H' },
            if w.repo.view().heads().contains(w.table[s].id()) {
                "h"
            } else {
                ""
            },
            w.change_rep(s),
            w.parents[s],
            w.ghost[s].preds,
            w.ghost[s].op,
            if w.ghost[s].by_jj { "j" } else { "" },
        ));
    }
    out.push('|');
    for r in &w.ops {
        out.push_str(&format!("{:?};", r.parents));
    }
    out.push('|');
    for h in &w.heads {
        out.push_str(&format!("{}:{:x};", h.op, h.visible));
    }
    out
}

#[derive(Clone, Copy, PartialEq, Eq, PartialOrd, Ord, Debug, Serialize)]
enum Size {
    None,
    /// describe the newest visible commit; squash the second newest into it
    Micro,
    /// describe / squash (both directions) on the two newest visible commits, split the newest
    Tiny,
    /// describe / squash / split / abandon on the two newest visible commits
    Small,
    /// every action kind on every visible commit (+ describe on the two newest hidden ones)
    Full,
}

#[derive(Clone, Copy, Debug, Serialize)]
struct StepPlan {
    singles: Size,
    pairs: Size,
    forks: Size,
    at_initial: Size,
}

/// Single actions enabled for a repository whose visible set is `visible`.
fn singles(w: &World, visible: u64, size: Size, restore: &[usize], hidden_targets: bool) -> Vec<Act> {
    let mut v = vec![];
    if size == Size::None {
        return v;
    }
    let mut vis: Vec<usize> = (1..w.table.len()).filter(|&s| visible >> s & 1 == 1).collect();
    if size <= Size::Small && vis.len() > 2 {
        vis = vis[vis.len() - 2..].to_vec();
    }
    if size == Size::Micro {
        if let Some(&x) = vis.last() {
            v.push(Act::Describe(x));
            if vis.len() >= 2 {
                v.push(Act::Squash(x, vis[vis.len() - 2]));
            }
        }
        return v;
    }
    for &x in &vis {
        v.push(Act::Describe(x));
    }
    for &x in &vis {
        for &y in &vis {
            if x != y {
                v.push(Act::Squash(x, y));
            }
        }
    }
    for &x in &vis {
        if size >= Size::Small || Some(&x) == vis.last() {
            v.push(Act::Split(x));
        }
    }
    if size >= Size::Small {
        for &x in &vis {
            v.push(Act::Abandon(x));
        }
    }
    if size == Size::Full {
        for &x in &vis {
            v.push(Act::DescribeTwice(x));
        }
        for &x in &vis {
            if w.parents[x] != vec![0] {
                v.push(Act::Rebase(x, 0));
            } else {
                let desc = w.descendants(x);
                if let Some(&y) = vis.iter().find(|&&y| desc >> y & 1 == 0) {
                    v.push(Act::Rebase(x, y));
                }
            }
        }
        for &x in &vis {
            v.push(Act::New(x));
        }
        if hidden_targets {
            // rewriting a commit that is already hidden (creates divergence): newest two
            let hid: Vec<usize> = (1..w.table.len()).filter(|&s| visible >> s & 1 == 0).collect();
            for &x in hid.iter().rev().take(2) {
                v.push(Act::Describe(x));
            }
        }
    }
    for &i in restore {
        v.push(Act::Restore(i));
    }
    v
}

/// Alphabet of the two-action transactions and of the forks: the single actions one size
/// smaller (no rebase / new; restore only in full-size forks: a transaction that restores a
/// view while rewrites are pending is not something any command does).
fn reduced_alphabet(w: &World, visible: u64, size: Size, restore: &[usize]) -> Vec<Act> {
    match size {
        Size::None => vec![],
        Size::Micro => singles(w, visible, Size::Micro, &[], false),
        Size::Tiny => singles(w, visible, Size::Tiny, &[], false),
        Size::Small => singles(w, visible, Size::Small, &[], false)
            .into_iter()
            .filter(|a| !matches!(a, Act::Abandon(_)))
            .collect(),
        Size::Full => singles(w, visible, Size::Small, restore, false),
    }
}

/// Alphabet of the worlds whose commit ids do not contain the predecessors: plain rewrites
/// plus every attempt to rewrite a commit back into one of its own predecessors.
fn cycle_steps(w: &World, visible: u64, restore: &[usize]) -> Vec<Step> {
    let vis: Vec<usize> = (1..w.table.len()).filter(|&s| visible >> s & 1 == 1).collect();
    let newest: Vec<usize> = vis.iter().rev().take(2).copied().collect();
    let mut recreate: Vec<Act> = vec![];
    for &x in vis.iter().rev().take(3) {
        for p in closure(w, &[x]) {
            if p != x && w.table[p].change_id() == w.table[x].change_id() {
                recreate.push(Act::Recreate(x, p));
            }
        }
    }
    recreate.truncate(4);
    let mut steps = vec![];
    for &x in &newest {
        steps.push(Step::Tx(vec![Act::Describe(x)]));
    }
    if let Some(&x) = newest.first() {
        steps.push(Step::Tx(vec![Act::DescribeTwice(x)]));
        steps.push(Step::Tx(vec![Act::TwiceAndBack(x)]));
    }
    for a in &recreate {
        steps.push(Step::Tx(vec![a.clone()]));
    }
    for &i in restore {
        steps.push(Step::Tx(vec![Act::Restore(i)]));
    }
    let mut alpha: Vec<Act> = newest.first().map(|&x| Act::Describe(x)).into_iter().collect();
    alpha.extend(recreate.iter().take(2).cloned());
    for a in &alpha {
        for b in &alpha {
            steps.push(Step::Fork(vec![a.clone()], vec![b.clone()]));
        }
    }
    if w.heads.len() >= 2 {
        steps.push(Step::TxAtInitial(vec![Act::Describe(1)]));
    }
    steps
}

fn enabled_steps(w: &World, plan: &StepPlan) -> Vec<Step> {
    let cur = w.heads.last().unwrap();
    let visible = cur.visible;
    // restorable views: the initial one and the one before the last step, when different
    // from the current view
    let mut restore: Vec<usize> = vec![];
    for i in [0, w.heads.len().saturating_sub(2)] {
        if i + 1 < w.heads.len()
            && !restore.contains(&i)
            && w.heads[i].repo.view().store_view() != cur.repo.view().store_view()
        {
            restore.push(i);
        }
    }
    if !w.pic {
        return cycle_steps(w, visible, &restore);
    }
    let mut steps = vec![];
    let single_restore: &[usize] = if plan.singles >= Size::Small {
        &restore
    } else {
        &[]
    };
    for a in singles(w, visible, plan.singles, single_restore, true) {
        steps.push(Step::Tx(vec![a]));
    }
    let alpha = reduced_alphabet(w, visible, plan.pairs, &[]);
    for a in &alpha {
        for b in &alpha {
            steps.push(Step::Tx(vec![a.clone(), b.clone()]));
        }
    }
    let restore_prev: Vec<usize> = restore.iter().copied().rev().take(1).collect();
    let alpha = reduced_alphabet(w, visible, plan.forks, &restore_prev);
    for a in &alpha {
        for b in &alpha {
            steps.push(Step::Fork(vec![a.clone()], vec![b.clone()]));
        }
    }
    if w.heads.len() >= 2 {
        for a in singles(w, w.heads[0].visible, plan.at_initial, &[], false) {
            steps.push(Step::TxAtInitial(vec![a]));
        }
    }
    steps
}

// ---------------------------------------------------------------------------------------

fn main() {
    let ctx = Ctx::from_args("C46", Level::ModelChecking);
    vcommon::silence_panics();
    let counters = Counters::default();
    let sh = Shared {
        ctx: &ctx,
        c: &counters,
    };

    if let Some((_sig, case)) = ctx.replay_case() {
        let history: Vec<Step> = serde_json::from_value(case["history"].clone())
            .unwrap_or_else(|e| machinery_failure(&format!("bad replay case: {e}")));
        let _ = replay(&history, &sh, true);
        ctx.finish(Coverage {
            evaluations: 1,
            ..Default::default()
        });
    }

    let quick = ctx.quick();
    // plan[k] = alphabet of the (k+1)-th step after the build
    let sp = |singles, pairs, forks, at_initial| StepPlan {
        singles,
        pairs,
        forks,
        at_initial,
    };
    let plan: Vec<StepPlan> = if quick {
        vec![
            sp(Size::Full, Size::Small, Size::Full, Size::None),
            sp(Size::Small, Size::None, Size::Tiny, Size::Tiny),
        ]
    } else {
        vec![
            sp(Size::Full, Size::Full, Size::Full, Size::None),
            sp(Size::Full, Size::None, Size::Tiny, Size::Tiny),
            sp(Size::Micro, Size::None, Size::None, Size::None),
        ]
    };
    // tuning aid: C46_PLAN="FSFN;SNTT" = per step singles/pairs/forks/at-initial as N/M/T/S/F
    let plan: Vec<StepPlan> = match std::env::var("C46_PLAN") {
        Ok(text) => text
            .split(';')
            .map(|p| {
                let sz: Vec<Size> = p
                    .chars()
                    .map(|ch| match ch {
                        'F' => Size::Full,
                        'S' => Size::Small,
                        'T' => Size::Tiny,
                        'M' => Size::Micro,
                        _ => Size::None,
                    })
                    .collect();
                sp(sz[0], sz[1], sz[2], sz[3])
            })
            .collect(),
        Err(_) => plan,
    };
    // initial commits: 1 <- 2 (and 3 beside them); `tracked[i]` = written through the
    // transaction (recorded by the build operation) or only added as a head like an import
    let bs = |parents: Vec<Vec<usize>>, tracked: Vec<bool>, predecessors_in_commit: bool| BuildSpec {
        parents,
        tracked,
        predecessors_in_commit,
    };
    let builds: Vec<BuildSpec> = if quick {
        vec![
            bs(vec![vec![], vec![0]], vec![true, false], true),
            bs(vec![vec![], vec![0]], vec![true, true], false),
        ]
    } else {
        vec![
            bs(vec![vec![], vec![0]], vec![true, true], true),
            bs(vec![vec![], vec![0]], vec![false, false], true),
            bs(vec![vec![], vec![0], vec![]], vec![true, true, false], true),
            bs(vec![vec![], vec![0]], vec![true, true], false),
        ]
    };

    // determinism gate: one fixed history twice, same canonical key and same commit ids
    {
        let probe = vec![
            Step::Build(BuildSpec {
                parents: vec![vec![], vec![0]],
                tracked: vec![true, false],
                predecessors_in_commit: true,
            }),
            Step::Tx(vec![Act::Split(1)]),
            Step::Fork(vec![Act::Describe(1)], vec![Act::Squash(4, 5)]),
            Step::TxAtInitial(vec![Act::Describe(2)]),
        ];
        let scratch = Counters::default();
        let sh2 = Shared {
            ctx: &ctx,
            c: &scratch,
        };
        let obs = |w: &World| {
            (
                canonical_key(w),
                w.table.iter().map(|c| c.id().hex()).collect::<Vec<_>>(),
            )
        };
        let k1 = replay(&probe, &sh2, true).map(|w| obs(&w));
        let k2 = replay(&probe, &sh2, true).map(|w| obs(&w));
        if (k1.is_none() || k1 != k2) && ctx.violation_count() == 0 {
            machinery_failure(&format!("determinism gate failed: {k1:?} vs {k2:?}"));
        }
    }

    let dump: Option<Mutex<std::fs::File>> = std::env::var("C46_DUMP")
        .ok()
        .map(|p| Mutex::new(std::fs::File::create(p).unwrap()));
    let seen_states: Mutex<HashSet<String>> = Mutex::new(HashSet::new());
    let samples = vcommon::Samples::new(6);
    let cfg = BfsConfig {
        max_depth: 1 + plan.len(),
        max_states: u64::MAX,
        max_wall_s: ctx.pick(150.0, 1500.0),
    };
    let step_fn = |history: &[Step]| -> Option<StepResult<Step>> {
        if history.is_empty() {
            return Some(StepResult {
                key: "start".into(),
                actions: builds.iter().map(|b| Step::Build(b.clone())).collect(),
            });
        }
        let w = replay(history, &sh, false)?;
        let key = canonical_key(&w);
        if let Some(d) = &dump {
            use std::io::Write as _;
            let mut f = d.lock().unwrap();
            let _ = writeln!(f, "{}\t{}", serde_json::to_string(history).unwrap(), key);
        }
        {
            let mut seen = seen_states.lock().unwrap();
            if seen.insert(key.clone()) {
                // non-trivial: some commit has at least two transitive predecessors
                let nontrivial = (1..w.table.len()).any(|s| closure(&w, &[s]).len() >= 3);
                if nontrivial {
                    counters.states_nontrivial.inc();
                }
            }
        }
        if history.len() >= 3 && samples.wants_more() {
            let interesting = (1..w.table.len()).any(|s| {
                let clo = closure(&w, &[s]);
                path_counts(&w, &[s], &clo).values().any(|&n| n >= 2)
            }) && history
                .iter()
                .any(|h| matches!(h, Step::Fork(..) | Step::TxAtInitial(..)));
            if interesting {
                samples.offer(|| {
                    json!({
                        "history": history,
                        "ghost_predecessors_by_slot": w.ghost.iter().map(|g| g.preds.clone()).collect::<Vec<_>>(),
                        "operation_parents": w.ops.iter().map(|r| r.parents.clone()).collect::<Vec<_>>(),
                    })
                });
            }
        }
        let k = history.len() - 1;
        let actions = if k < plan.len() {
            enabled_steps(&w, &plan[k])
        } else {
            vec![]
        };
        Some(StepResult { key, actions })
    };
    let stats = search(&cfg, step_fn, step_label);
    eprintln!(
        "[C46] states={} transitions={} invalid={} capped={} per_depth={:?} depth_completed={} wall={:.1}s",
        stats.states,
        stats.transitions,
        stats.invalid,
        stats.capped,
        stats.per_depth_states,
        stats.max_depth_completed,
        ctx.elapsed_s()
    );

    // vacuity: every action class must have run and produced new states; every oracle clause
    // must have been exercised on the interesting shapes
    let mut per_action = serde_json::Map::new();
    let mut classes: BTreeMap<String, (u64, u64)> = BTreeMap::new();
    for (label, (n, fresh)) in &stats.per_action {
        per_action.insert(label.clone(), json!([n, fresh]));
        let class = label.split(':').next().unwrap_or("").to_string();
        let class = if class.starts_with("build") {
            "build".to_string()
        } else {
            class
        };
        let e = classes.entry(class).or_insert((0, 0));
        e.0 += n;
        e.1 += fresh;
        for part in label.split([':', '+', '|']).skip(1) {
            let e = classes.entry(format!("act:{part}")).or_insert((0, 0));
            e.0 += n;
            e.1 += fresh;
        }
    }
    let c = &counters;
    if c.other_violations.get() == 0 {
        for needed in [
            "act:describe",
            "act:describe-twice",
            "act:rebase",
            "act:squash",
            "act:split",
            "act:abandon",
            "act:new",
            "act:restore",
            "act:recreate",
            "act:twice-and-back",
            "tx",
            "at-initial",
            "fork",
            "build",
        ] {
            match classes.get(needed) {
                None => machinery_failure(&format!("vacuous: action class {needed} never ran")),
                // a refused twice-and-back leaves exactly the state of describe-twice, which is
                // enumerated before it: for that class only "ran" is required
                Some((_, 0)) if needed != "act:twice-and-back" => machinery_failure(&format!(
                    "vacuous: action class {needed} never reached a new state"
                )),
                _ => {}
            }
        }
        for (name, v) in [
            ("walks", c.walks.get()),
            ("walks_multi", c.walks_multi.get()),
            ("walks_closure_ge3", c.walks_closure_ge3.get()),
            ("walks_diamond", c.walks_diamond.get()),
            ("walks_across_concurrent_ops", c.walks_across_concurrent_ops.get()),
            ("walks_from_hidden", c.walks_from_hidden.get()),
            ("walks_chain_within_op", c.walks_chain_within_op.get()),
            (
                "walks_closure_with_untracked",
                c.walks_closure_with_untracked.get(),
            ),
            ("entries_without_operation", c.entries_without_operation.get()),
            ("entries_multi_pred", c.entries_multi_pred.get()),
            ("jj_rebased_in_tx", c.jj_rebased_in_tx.get()),
            ("jj_rebased_in_merge", c.jj_rebased_in_merge.get()),
            ("merges", c.merges.get()),
            ("restores", c.restores.get()),
            ("acc_pairs", c.acc_pairs.get()),
            ("acc_nonempty", c.acc_nonempty.get()),
            ("acc_transitive", c.acc_transitive.get()),
            ("acc_nonlinear_range", c.acc_nonlinear_range.get()),
            ("recreate_refused_across_ops", c.recreate_refused_across_ops.get()),
            ("recreate_refused_within_tx", c.recreate_refused_within_tx.get()),
        ] {
            if v == 0 {
                machinery_failure(&format!("vacuous: counter {name} is zero"));
            }
        }
    }
    let mut extra: BTreeMap<String, Value> = BTreeMap::new();
    extra.insert("per_step_label".into(), Value::Object(per_action));
    extra.insert(
        "per_class".into(),
        json!(
            classes
                .iter()
                .map(|(k, v)| (k.clone(), json!([v.0, v.1])))
                .collect::<BTreeMap<_, _>>()
        ),
    );
    extra.insert("per_depth_states".into(), json!(stats.per_depth_states));
    extra.insert("max_depth_completed".into(), json!(stats.max_depth_completed));
    extra.insert("invalid_or_inconclusive_histories".into(), json!(stats.invalid));
    extra.insert(
        "vacuity".into(),
        json!({
            "walks_single_start": c.walks.get(),
            "walks_several_starts": c.walks_multi.get(),
            "walks_with_at_least_2_transitive_predecessors": c.walks_closure_ge3.get(),
            "walks_where_a_predecessor_is_reached_on_two_paths": c.walks_diamond.get(),
            "walks_whose_closure_spans_concurrent_operations": c.walks_across_concurrent_ops.get(),
            "walks_started_from_a_hidden_commit": c.walks_from_hidden.get(),
            "walks_with_a_rewrite_chain_inside_one_operation": c.walks_chain_within_op.get(),
            "walks_reaching_untracked_commits": c.walks_closure_with_untracked.get(),
            "walks_reaching_an_untracked_commit_on_two_paths": c.walks_untracked_reached_twice.get(),
            "entries_checked": c.entries_checked.get(),
            "entries_without_operation": c.entries_without_operation.get(),
            "entries_with_several_predecessors": c.entries_multi_pred.get(),
            "descendants_rebased_by_jj_inside_transactions": c.jj_rebased_in_tx.get(),
            "descendants_rebased_by_jj_while_merging_operations": c.jj_rebased_in_merge.get(),
            "commits_made_by_jj_in_transactions_without_callback": c.jj_created_unreported.get(),
            "operation_merges": c.merges.get(),
            "restore_actions_executed": c.restores.get(),
            "attempts_to_rewrite_a_commit_into_its_own_predecessor_refused_by_jj": c.recreate_refused_across_ops.get(),
            "same_within_one_transaction_refused_by_jj": c.recreate_refused_within_tx.get(),
            "accumulate_pairs": c.acc_pairs.get(),
            "accumulate_pairs_with_nonempty_result": c.acc_nonempty.get(),
            "accumulate_pairs_needing_transitive_resolution": c.acc_transitive.get(),
            "accumulate_pairs_over_a_range_with_concurrent_operations": c.acc_nonlinear_range.get(),
            "inconclusive_history_executions": c.inconclusive.get(),
            "panics_of_actions_or_merges_(not_judged)": c.act_panics.get(),
        }),
    );
    extra.insert(
        "bounds".into(),
        json!({
            "builds": builds,
            "plan_per_step": plan,
            "wall_cap_s": cfg.max_wall_s,
        }),
    );
    let exhaustive = !stats.capped;
    if stats.capped {
        extra.insert(
            "capped".into(),
            json!(format!(
                "wall-clock cap hit; largest completed depth {}",
                stats.max_depth_completed
            )),
        );
    }
    let mut samples: Vec<Value> = samples.take();
    samples.extend(stats.sample_histories.iter().take(2).map(|h| json!(h)));
    let cov = Coverage {
        evaluations: stats.transitions,
        distinct_nontrivial: c.states_nontrivial.get(),
        rule: "a case is one history (build + steps), executed on a fresh repository; the oracle runs on the \
               state it reaches (all single-start walks, multi-start walks, accumulate pairs); distinct = distinct \
               canonical states; non-trivial = some commit has at least two transitive predecessors"
            .into(),
        samples,
        exhaustive,
        states: Some(stats.states),
        transitions: Some(stats.transitions),
        traces_validated_against_impl: Some(stats.transitions),
        extra,
        assumptions: vec![
            "the ghost of a commit written by the harness is the predecessor list it requested; of a descendant rebased inside a transaction, the (old, new) pair reported by the progress callback of rebase_descendants_with_options; of a descendant rebased while merging operations (no callback), the recorded predecessors after validation (non-empty, known commits of the same change)".into(),
            "commit and operation timestamps come from a harness clock (one value per written commit / transaction / reload), so ids are a function of the history, no two rewrites collide on an id and no rewrite re-creates an older commit; histories where jj nevertheless refuses to write an existing commit are dropped and counted".into(),
            "all trees are empty and every commit has a non-empty description (no discardable commits); no workspaces, bookmarks or tags".into(),
            "the repository is always walked at the head operation (after load_at_head merged all concurrent operations)".into(),
            "operation ancestry for the accumulate_predecessors clause is read from the stored parent ids of the operations".into(),
            "accumulate_predecessors is only judged for old a strict ancestor of new (forward direction); its documented lossy reverse / sibling directions are not judged".into(),
            "vacuity counters count oracle evaluations on the last state of every executed history".into(),
        ],
    };
    ctx.finish(cov);
}

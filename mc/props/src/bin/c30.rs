//! C30 — Matcher directory pruning is sound.
//!
//! Universe U: every path of depth <= 4 over the components {a, b, z} (z occurs in no
//! pattern, so it witnesses the universal claims) = 120 paths + the root; `visit` is asked at
//! every directory of depth <= 3 (40 directories). Leaves: Nothing, Everything, FilesMatcher(S)
//! and PrefixMatcher(S) for every S of size <= 2 out of a 9-path pool (incl. the root),
//! file-glob and prefix-glob `GlobsMatcher`s with one or two (dir, glob) entries. Expressions:
//! every tree up to a depth over Union / Intersection / Difference, built from the real
//! combinators over the real leaves.
//!
//! Oracle, at every directory d: `Nothing` => no path of U below d matches; `AllRecursively`
//! => every path of U below d matches; `Specific{dirs, files}` => every matching path below d
//! has its next component in `dirs` (if it is deeper than a direct child) or its name in
//! `files` (if it is a direct child). "Matches" is the real `matches()` of the same matcher,
//! which is in turn compared with the boolean combination of the leaves' `matches()` results.

use std::collections::HashSet;

use jj_lib::fileset::FilePattern;
use jj_lib::matchers::DifferenceMatcher;
use jj_lib::matchers::EverythingMatcher;
use jj_lib::matchers::FilesMatcher;
use jj_lib::matchers::GlobsMatcher;
use jj_lib::matchers::IntersectionMatcher;
use jj_lib::matchers::Matcher;
use jj_lib::matchers::NothingMatcher;
use jj_lib::matchers::PrefixMatcher;
use jj_lib::matchers::UnionMatcher;
use jj_lib::matchers::Visit;
use jj_lib::matchers::VisitDirs;
use jj_lib::matchers::VisitFiles;
use jj_lib::repo_path::RepoPathBuf;
use jj_lib::repo_path::RepoPathComponentBuf;
use rayon::prelude::*;
use serde_json::Value;
use serde_json::json;
use vcommon::Coverage;
use vcommon::Ctx;
use vcommon::Level;
use vcommon::Samples;
use vcommon::catch;

type Fail = (String, String);

const COMPONENTS: [&str; 3] = ["a", "b", "z"];
const MAX_DEPTH: usize = 4;

// ---------------------------------------------------------------------------------------
// Universe
// ---------------------------------------------------------------------------------------

struct Universe {
    /// index 0 is the root
    paths: Vec<RepoPathBuf>,
    strings: Vec<String>,
    depth: Vec<usize>,
    /// child[p][c] = index of p/c (only for depth(p) < MAX_DEPTH)
    child: Vec<[usize; 3]>,
    /// strict descendants of p
    under: Vec<u128>,
    /// indices of the directories at which visit() is asked (depth < MAX_DEPTH)
    dirs: Vec<usize>,
    comps: Vec<RepoPathComponentBuf>,
    all: u128,
}

fn universe() -> Universe {
    let mut strings = vec![String::new()];
    let mut depth = vec![0usize];
    let mut child: Vec<[usize; 3]> = vec![];
    let mut i = 0;
    while i < strings.len() {
        if depth[i] < MAX_DEPTH {
            let mut ch = [0usize; 3];
            for (k, c) in COMPONENTS.iter().enumerate() {
                let s = if strings[i].is_empty() { c.to_string() } else { format!("{}/{c}", strings[i]) };
                ch[k] = strings.len();
                strings.push(s);
                depth.push(depth[i] + 1);
            }
            child.push(ch);
        } else {
            child.push([usize::MAX; 3]);
        }
        i += 1;
    }
    let n = strings.len();
    assert!(n <= 128);
    let mut under = vec![0u128; n];
    for p in (0..n).rev() {
        if depth[p] < MAX_DEPTH {
            for k in 0..3 {
                let c = child[p][k];
                under[p] |= (1u128 << c) | under[c];
            }
        }
    }
    let dirs = (0..n).filter(|&p| depth[p] < MAX_DEPTH).collect();
    Universe {
        paths: strings.iter().map(|s| RepoPathBuf::from_internal_string(s.as_str()).unwrap()).collect(),
        comps: COMPONENTS.iter().map(|c| RepoPathComponentBuf::new(*c).unwrap()).collect(),
        all: if n == 128 { u128::MAX } else { (1u128 << n) - 1 },
        strings,
        depth,
        child,
        under,
        dirs,
    }
}

// ---------------------------------------------------------------------------------------
// Expressions
// ---------------------------------------------------------------------------------------

#[derive(Clone, Debug, PartialEq, Eq, Hash)]
enum Leaf {
    Nothing,
    Everything,
    Files(Vec<String>),
    Prefix(Vec<String>),
    /// (prefix_paths, [(dir, glob)])
    Globs(bool, Vec<(String, String)>),
}

#[derive(Clone, Copy, Debug, PartialEq, Eq, Hash)]
enum Op {
    Union,
    Intersection,
    Difference,
}
const OPS: [Op; 3] = [Op::Union, Op::Intersection, Op::Difference];

impl Op {
    fn name(self) -> &'static str {
        match self {
            Op::Union => "union",
            Op::Intersection => "intersection",
            Op::Difference => "difference",
        }
    }
    fn apply(self, x: u128, y: u128) -> u128 {
        match self {
            Op::Union => x | y,
            Op::Intersection => x & y,
            Op::Difference => x & !y,
        }
    }
}

#[derive(Clone, Debug)]
enum Expr {
    Leaf(Leaf),
    Bin(Op, Box<Expr>, Box<Expr>),
}

impl Leaf {
    fn kind(&self) -> &'static str {
        match self {
            Leaf::Nothing => "nothing",
            Leaf::Everything => "everything",
            Leaf::Files(_) => "files",
            Leaf::Prefix(_) => "prefix",
            Leaf::Globs(false, _) => "file-globs",
            Leaf::Globs(true, _) => "prefix-globs",
        }
    }
    fn to_json(&self) -> Value {
        match self {
            Leaf::Nothing => json!({"leaf": "nothing"}),
            Leaf::Everything => json!({"leaf": "everything"}),
            Leaf::Files(s) => json!({"leaf": "files", "paths": s}),
            Leaf::Prefix(s) => json!({"leaf": "prefix", "paths": s}),
            Leaf::Globs(p, pats) => json!({"leaf": "globs", "prefix_paths": p, "patterns": pats}),
        }
    }
    fn from_json(v: &Value) -> Leaf {
        let paths = |v: &Value| -> Vec<String> { serde_json::from_value(v["paths"].clone()).unwrap() };
        match v["leaf"].as_str().unwrap() {
            "nothing" => Leaf::Nothing,
            "everything" => Leaf::Everything,
            "files" => Leaf::Files(paths(v)),
            "prefix" => Leaf::Prefix(paths(v)),
            "globs" => Leaf::Globs(
                v["prefix_paths"].as_bool().unwrap(),
                serde_json::from_value(v["patterns"].clone()).unwrap(),
            ),
            other => vcommon::machinery_failure(&format!("bad leaf kind {other}")),
        }
    }
    /// Builds the real matcher.
    fn build(&self) -> Box<dyn Matcher> {
        let rp = |s: &String| RepoPathBuf::from_internal_string(s.as_str()).unwrap();
        match self {
            Leaf::Nothing => Box::new(NothingMatcher),
            Leaf::Everything => Box::new(EverythingMatcher),
            Leaf::Files(s) => Box::new(FilesMatcher::new(s.iter().map(rp))),
            Leaf::Prefix(s) => Box::new(PrefixMatcher::new(s.iter().map(rp))),
            Leaf::Globs(prefix_paths, pats) => {
                // The only public way to a compiled `Glob` is through FilePattern; every glob
                // of the alphabet has a meta character in its first component, so the
                // pattern is kept whole (its literal directory prefix is empty).
                let compiled: Vec<(RepoPathBuf, FilePattern)> = pats
                    .iter()
                    .map(|(dir, glob)| {
                        let pat = FilePattern::root_file_glob(glob)
                            .unwrap_or_else(|e| vcommon::machinery_failure(&format!("glob {glob}: {e}")));
                        (rp(dir), pat)
                    })
                    .collect();
                let mut builder = GlobsMatcher::builder().prefix_paths(*prefix_paths);
                for (dir, pat) in &compiled {
                    match pat {
                        FilePattern::FileGlob { dir: d, pattern } if d.is_root() => builder.add(dir, pattern),
                        other => vcommon::machinery_failure(&format!("glob was split: {other:?}")),
                    }
                }
                Box::new(builder.build())
            }
        }
    }
}

impl Expr {
    fn to_json(&self) -> Value {
        match self {
            Expr::Leaf(l) => l.to_json(),
            Expr::Bin(op, l, r) => json!({"op": op.name(), "l": l.to_json(), "r": r.to_json()}),
        }
    }
    fn from_json(v: &Value) -> Expr {
        if v.get("leaf").is_some() {
            return Expr::Leaf(Leaf::from_json(v));
        }
        let op = match v["op"].as_str().unwrap() {
            "union" => Op::Union,
            "intersection" => Op::Intersection,
            "difference" => Op::Difference,
            other => vcommon::machinery_failure(&format!("bad op {other}")),
        };
        Expr::Bin(op, Box::new(Expr::from_json(&v["l"])), Box::new(Expr::from_json(&v["r"])))
    }
    fn top(&self) -> &'static str {
        match self {
            Expr::Leaf(l) => l.kind(),
            Expr::Bin(op, ..) => op.name(),
        }
    }
    fn build(&self) -> Box<dyn Matcher> {
        match self {
            Expr::Leaf(l) => l.build(),
            Expr::Bin(op, l, r) => {
                let (l, r) = (l.build(), r.build());
                match op {
                    Op::Union => Box::new(UnionMatcher::new(l, r)),
                    Op::Intersection => Box::new(IntersectionMatcher::new(l, r)),
                    Op::Difference => Box::new(DifferenceMatcher::new(l, r)),
                }
            }
        }
    }
}

fn combine<'a>(op: Op, x: &'a dyn Matcher, y: &'a dyn Matcher) -> Box<dyn Matcher + 'a> {
    match op {
        Op::Union => Box::new(UnionMatcher::new(x, y)),
        Op::Intersection => Box::new(IntersectionMatcher::new(x, y)),
        Op::Difference => Box::new(DifferenceMatcher::new(x, y)),
    }
}

// ---------------------------------------------------------------------------------------
// Oracle
// ---------------------------------------------------------------------------------------

fn real_mask(u: &Universe, m: &dyn Matcher) -> u128 {
    let mut mask = 0u128;
    for (i, p) in u.paths.iter().enumerate() {
        if m.matches(p) {
            mask |= 1u128 << i;
        }
    }
    mask
}

fn show_mask(u: &Universe, mask: u128) -> String {
    let v: Vec<&str> = (0..u.paths.len())
        .filter(|i| mask >> i & 1 == 1)
        .map(|i| if i == 0 { "<root>" } else { u.strings[i].as_str() })
        .take(6)
        .collect();
    format!("{v:?}{}", if mask.count_ones() > 6 { " ..." } else { "" })
}

#[derive(Default, Clone, Copy)]
struct Tally {
    trees: u64,
    nontrivial: u64,
    visits: u64,
    v_nothing: u64,
    v_all: u64,
    v_specific_sets: u64,
    v_specific_all: u64,
    /// Specific answers whose sets leave out at least one of a/b/z (real pruning)
    v_pruning_sets: u64,
    /// directories below which some but not all paths match
    mixed_dirs: u64,
    /// Nothing / All answers at directories whose parent chain did not already decide
    match_calls: u64,
}

impl Tally {
    fn add(mut self, o: Tally) -> Tally {
        self.trees += o.trees;
        self.nontrivial += o.nontrivial;
        self.visits += o.visits;
        self.v_nothing += o.v_nothing;
        self.v_all += o.v_all;
        self.v_specific_sets += o.v_specific_sets;
        self.v_specific_all += o.v_specific_all;
        self.v_pruning_sets += o.v_pruning_sets;
        self.mixed_dirs += o.mixed_dirs;
        self.match_calls += o.match_calls;
        self
    }
}

/// Checks one matcher: `expected` is the boolean combination of the operands' real match
/// sets (None for leaves). Returns the real match set.
fn check_matcher(
    u: &Universe,
    top: &str,
    m: &dyn Matcher,
    expected: Option<u128>,
    t: &mut Tally,
) -> Result<u128, Fail> {
    t.trees += 1;
    let mask = real_mask(u, m);
    t.match_calls += u.paths.len() as u64;
    if let Some(e) = expected {
        if e != mask {
            let diff = e ^ mask;
            return Err((
                format!("C30/matches/{top}"),
                format!(
                    "matches() disagrees with the boolean combination of its operands at {}",
                    show_mask(u, diff)
                ),
            ));
        }
    }
    let mut pruned_something = false;
    for &d in &u.dirs {
        let v = m.visit(&u.paths[d]);
        t.visits += 1;
        let below = mask & u.under[d];
        if below != 0 && below != u.under[d] {
            t.mixed_dirs += 1;
        }
        let dname = if d == 0 { "<root>" } else { u.strings[d].as_str() };
        match &v {
            Visit::Nothing => {
                t.v_nothing += 1;
                pruned_something = true;
                if below != 0 {
                    return Err((
                        format!("C30/visit/{top}/nothing-but-matches"),
                        format!("visit({dname}) = Nothing, but {} match", show_mask(u, below)),
                    ));
                }
            }
            Visit::AllRecursively => {
                t.v_all += 1;
                pruned_something = true;
                if below != u.under[d] {
                    return Err((
                        format!("C30/visit/{top}/all-but-not-all"),
                        format!(
                            "visit({dname}) = AllRecursively, but {} do not match",
                            show_mask(u, u.under[d] & !mask)
                        ),
                    ));
                }
            }
            Visit::Specific { dirs, files } => {
                let mut left_out = false;
                for k in 0..3 {
                    let c = u.child[d][k];
                    let in_dirs = match dirs {
                        VisitDirs::All => true,
                        VisitDirs::Set(s) => s.contains(&u.comps[k]),
                    };
                    let in_files = match files {
                        VisitFiles::All => true,
                        VisitFiles::Set(s) => s.contains(&u.comps[k]),
                    };
                    left_out |= !in_dirs || !in_files;
                    if !in_dirs && mask & u.under[c] != 0 {
                        return Err((
                            format!("C30/visit/{top}/dir-omitted"),
                            format!(
                                "visit({dname}) = {v:?} leaves out directory {:?}, but {} match",
                                COMPONENTS[k],
                                show_mask(u, mask & u.under[c])
                            ),
                        ));
                    }
                    if !in_files && mask >> c & 1 == 1 {
                        return Err((
                            format!("C30/visit/{top}/file-omitted"),
                            format!(
                                "visit({dname}) = {v:?} leaves out file {:?}, but {} matches",
                                COMPONENTS[k], u.strings[c]
                            ),
                        ));
                    }
                }
                if matches!((dirs, files), (VisitDirs::All, VisitFiles::All)) {
                    t.v_specific_all += 1;
                } else {
                    t.v_specific_sets += 1;
                    if left_out {
                        t.v_pruning_sets += 1;
                        pruned_something = true;
                    }
                }
            }
        }
    }
    if mask != 0 && mask & u.all != u.all && pruned_something {
        t.nontrivial += 1;
    }
    Ok(mask)
}

/// Independent definition of the match set of path-list leaves.
fn leaf_reference(u: &Universe, leaf: &Leaf) -> Option<u128> {
    let comps = |s: &str| -> Vec<String> {
        if s.is_empty() { vec![] } else { s.split('/').map(String::from).collect() }
    };
    let mut mask = 0u128;
    for (i, p) in u.strings.iter().enumerate() {
        let pc = comps(p);
        let hit = match leaf {
            Leaf::Nothing => false,
            Leaf::Everything => true,
            Leaf::Files(s) => s.iter().any(|x| comps(x) == pc),
            Leaf::Prefix(s) => s.iter().any(|x| {
                let xc = comps(x);
                xc.len() <= pc.len() && xc[..] == pc[..xc.len()]
            }),
            Leaf::Globs(..) => return None,
        };
        if hit {
            mask |= 1u128 << i;
        }
    }
    Some(mask)
}

/// Full check of an expression given as a value (used for replay).
fn check_expr(u: &Universe, e: &Expr, t: &mut Tally) -> Result<u128, Fail> {
    let expected = match e {
        Expr::Leaf(l) => leaf_reference(u, l),
        Expr::Bin(op, l, r) => {
            let x = check_expr(u, l, t)?;
            let y = check_expr(u, r, t)?;
            Some(op.apply(x, y))
        }
    };
    let m = e.build();
    let top = e.top();
    catch(|| check_matcher(u, top, &*m, expected, t))
        .map_err(|p| (format!("C30/panic/{top}"), format!("panicked: {p}")))?
}

// ---------------------------------------------------------------------------------------
// Leaf alphabet
// ---------------------------------------------------------------------------------------

const PATH_POOL: [&str; 9] = ["", "a", "b", "a/a", "a/b", "b/a", "b/b", "a/b/a", "a/b/b"];
const GLOBS: [&str; 8] = ["*", "a*", "**/b", "[a]/*", "**", "?", "*/b", "[ab]/**/a"];
const GLOB_DIRS: [&str; 3] = ["", "a", "a/b"];
const PAIR_GLOBS: [&str; 3] = ["*", "**/b", "[a]/*"];

fn all_leaves() -> Vec<Leaf> {
    let mut out = vec![Leaf::Nothing, Leaf::Everything];
    let mut subsets: Vec<Vec<String>> = vec![vec![]];
    for i in 0..PATH_POOL.len() {
        subsets.push(vec![PATH_POOL[i].to_string()]);
    }
    for i in 0..PATH_POOL.len() {
        for j in i + 1..PATH_POOL.len() {
            subsets.push(vec![PATH_POOL[i].to_string(), PATH_POOL[j].to_string()]);
        }
    }
    for s in &subsets {
        out.push(Leaf::Files(s.clone()));
    }
    for s in &subsets {
        out.push(Leaf::Prefix(s.clone()));
    }
    for prefix in [false, true] {
        for d in GLOB_DIRS {
            for g in GLOBS {
                out.push(Leaf::Globs(prefix, vec![(d.to_string(), g.to_string())]));
            }
        }
        // two entries: nested directories and the same directory
        for (d1, d2) in [("", "a"), ("a", "a/b"), ("", "")] {
            for g1 in PAIR_GLOBS {
                for g2 in PAIR_GLOBS {
                    if d1 == d2 && g1 >= g2 {
                        continue;
                    }
                    out.push(Leaf::Globs(
                        prefix,
                        vec![(d1.to_string(), g1.to_string()), (d2.to_string(), g2.to_string())],
                    ));
                }
            }
        }
    }
    out
}

/// A smaller set used for the operands of the deepest level in the thorough tier: one
/// representative of every shape.
fn is_core(leaf: &Leaf) -> bool {
    match leaf {
        Leaf::Nothing | Leaf::Everything => true,
        Leaf::Files(s) | Leaf::Prefix(s) => {
            let set: Vec<&str> = s.iter().map(|x| x.as_str()).collect();
            matches!(
                set.as_slice(),
                [""] | ["a"] | ["a/b"] | ["a/b/a"] | ["a", "a/b"] | ["a", "b/a"] | ["a/a", "a/b"] | ["a/b", "a/b/a"]
            )
        }
        Leaf::Globs(_, pats) => match pats.as_slice() {
            [(d, g)] => matches!(
                (d.as_str(), g.as_str()),
                ("", "*") | ("", "**/b") | ("", "[a]/*") | ("a", "*") | ("a", "**/b") | ("a", "**") | ("a/b", "?")
            ),
            [(d1, g1), (d2, g2)] => matches!(
                (d1.as_str(), g1.as_str(), d2.as_str(), g2.as_str()),
                ("", "**/b", "a", "*") | ("", "[a]/*", "a", "**/b") | ("a", "*", "a/b", "*")
            ),
            _ => false,
        },
    }
}

struct Built {
    spec: Leaf,
    matcher: Box<dyn Matcher>,
    mask: u128,
}

fn main() {
    let ctx = Ctx::from_args("C30", Level::Exploration);
    vcommon::silence_panics();
    let u = universe();
    if let Some((_sig, case)) = ctx.replay_case() {
        let e = Expr::from_json(&case["expr"]);
        let mut t = Tally::default();
        if let Err((sig, msg)) = check_expr(&u, &e, &mut t) {
            ctx.violation(&sig, msg, case);
        }
        ctx.finish(Coverage { evaluations: t.trees, ..Default::default() });
    }
    let thorough = ctx.thorough();
    let samples = Samples::new(8);
    let specs = all_leaves();
    {
        let set: HashSet<&Leaf> = specs.iter().collect();
        if set.len() != specs.len() {
            vcommon::machinery_failure("leaf alphabet contains duplicates");
        }
    }
    let violation = |f: Fail, e: Expr| {
        let (sig, msg) = f;
        let msg = format!("{msg}; matcher = {}", e.to_json());
        ctx.violation(&sig, msg, json!({"expr": e.to_json()}));
    };

    // Depth 0: leaves.
    let mut tally = Tally::default();
    let mut leaves: Vec<Built> = vec![];
    for spec in &specs {
        let matcher = spec.build();
        let r = catch(|| check_matcher(&u, spec.kind(), &*matcher, leaf_reference(&u, spec), &mut tally))
            .unwrap_or_else(|p| Err((format!("C30/panic/{}", spec.kind()), format!("panicked: {p}"))));
        let mask = match r {
            Ok(m) => m,
            Err(f) => {
                violation(f, Expr::Leaf(spec.clone()));
                real_mask(&u, &*matcher)
            }
        };
        leaves.push(Built { spec: spec.clone(), matcher, mask });
    }
    let n_leaves = leaves.len();
    let distinct_leaf_sets = leaves.iter().map(|l| l.mask).collect::<HashSet<_>>().len();

    // Depth 2 (one operator over two leaves), all leaves.
    let pairs: Vec<(Op, usize)> =
        OPS.iter().flat_map(|&op| (0..n_leaves).map(move |i| (op, i))).collect();
    let t2 = pairs
        .par_iter()
        .map(|&(op, i)| {
            let mut t = Tally::default();
            for j in 0..n_leaves {
                let (x, y) = (&leaves[i], &leaves[j]);
                let m = combine(op, &*x.matcher, &*y.matcher);
                let expected = op.apply(x.mask, y.mask);
                let r = catch(|| check_matcher(&u, op.name(), &*m, Some(expected), &mut t))
                    .unwrap_or_else(|p| Err((format!("C30/panic/{}", op.name()), format!("panicked: {p}"))));
                let e = || Expr::Bin(op, Box::new(Expr::Leaf(x.spec.clone())), Box::new(Expr::Leaf(y.spec.clone())));
                match r {
                    Ok(mask) => {
                        if mask != 0 && i % 37 == 5 && j % 41 == 7 {
                            samples.offer(|| e().to_json());
                        }
                    }
                    Err(f) => violation(f, e()),
                }
            }
            t
        })
        .reduce(Tally::default, Tally::add);
    let depth2_trees = t2.trees;
    tally = tally.add(t2);

    // Depth 3: op2(op1(x, y), z) and op2(z, op1(x, y)).
    // quick: x, y, z from the core set; thorough: x, y, z any leaf; plus balanced trees
    // op3(op1(x, y), op2(x', y')) over a small set in the thorough tier.
    let core: Vec<usize> = (0..n_leaves).filter(|&i| is_core(&leaves[i].spec)).collect();
    let everything: Vec<usize> = (0..n_leaves).collect();
    // (operands of the inner operator, the third operand)
    let passes: Vec<(&Vec<usize>, &Vec<usize>)> = if thorough {
        vec![(&everything, &everything)]
    } else {
        vec![(&core, &core)]
    };
    let inner_jobs: Vec<(Op, usize, &Vec<usize>, &Vec<usize>)> = passes
        .iter()
        .flat_map(|&(inner, outer)| {
            OPS.iter().flat_map(move |&op| inner.iter().map(move |&i| (op, i, inner, outer)))
        })
        .collect();
    let t3 = inner_jobs
        .par_iter()
        .map(|&(op1, i, inner_set, outer)| {
            let mut t = Tally::default();
            for &j in inner_set {
                let (x, y) = (&leaves[i], &leaves[j]);
                let inner = combine(op1, &*x.matcher, &*y.matcher);
                let inner_mask = op1.apply(x.mask, y.mask);
                let inner_expr =
                    || Expr::Bin(op1, Box::new(Expr::Leaf(x.spec.clone())), Box::new(Expr::Leaf(y.spec.clone())));
                for &k in outer {
                    let z = &leaves[k];
                    for op2 in OPS {
                        for flipped in [false, true] {
                            let (m, expected) = if flipped {
                                (combine(op2, &*z.matcher, &*inner), op2.apply(z.mask, inner_mask))
                            } else {
                                (combine(op2, &*inner, &*z.matcher), op2.apply(inner_mask, z.mask))
                            };
                            let r = catch(|| check_matcher(&u, op2.name(), &*m, Some(expected), &mut t))
                                .unwrap_or_else(|p| {
                                    Err((format!("C30/panic/{}", op2.name()), format!("panicked: {p}")))
                                });
                            if let Err(f) = r {
                                let ze = Box::new(Expr::Leaf(z.spec.clone()));
                                let ie = Box::new(inner_expr());
                                let e = if flipped { Expr::Bin(op2, ze, ie) } else { Expr::Bin(op2, ie, ze) };
                                violation(f, e);
                            }
                        }
                    }
                }
            }
            t
        })
        .reduce(Tally::default, Tally::add);
    let depth3_trees = t3.trees;
    tally = tally.add(t3);
    samples.offer(|| {
        Expr::Bin(
            Op::Difference,
            Box::new(Expr::Bin(
                Op::Union,
                Box::new(Expr::Leaf(Leaf::Prefix(vec!["a".into()]))),
                Box::new(Expr::Leaf(Leaf::Globs(false, vec![("".into(), "**/b".into())]))),
            )),
            Box::new(Expr::Leaf(Leaf::Files(vec!["a/b".into()]))),
        )
        .to_json()
    });

    // Balanced depth 3 over a tiny set.
    let tiny: Vec<usize> = core
        .iter()
        .copied()
        .filter(|&i| match &leaves[i].spec {
            Leaf::Everything => true,
            Leaf::Files(s) | Leaf::Prefix(s) => {
                matches!(
                    s.iter().map(|x| x.as_str()).collect::<Vec<_>>().as_slice(),
                    ["a"] | ["a/b"] | ["a", "b/a"] | ["a/b", "a/b/a"]
                )
            }
            Leaf::Globs(..) => true,
            Leaf::Nothing => false,
        })
        .collect();
    let mut balanced_trees = 0;
    if thorough {
        let mut sub: Vec<(Op, usize, usize)> = vec![];
        for op in OPS {
            for &i in &tiny {
                for &j in &tiny {
                    sub.push((op, i, j));
                }
            }
        }
        let tb = sub
            .par_iter()
            .map(|&(op1, i, j)| {
                let mut t = Tally::default();
                let l = combine(op1, &*leaves[i].matcher, &*leaves[j].matcher);
                let lmask = op1.apply(leaves[i].mask, leaves[j].mask);
                for &(op2, i2, j2) in &sub {
                    let r = combine(op2, &*leaves[i2].matcher, &*leaves[j2].matcher);
                    let rmask = op2.apply(leaves[i2].mask, leaves[j2].mask);
                    for op3 in OPS {
                        let m = combine(op3, &*l, &*r);
                        let res = catch(|| check_matcher(&u, op3.name(), &*m, Some(op3.apply(lmask, rmask)), &mut t))
                            .unwrap_or_else(|p| Err((format!("C30/panic/{}", op3.name()), format!("panicked: {p}"))));
                        if let Err(f) = res {
                            let leaf = |k: usize| Box::new(Expr::Leaf(leaves[k].spec.clone()));
                            violation(
                                f,
                                Expr::Bin(
                                    op3,
                                    Box::new(Expr::Bin(op1, leaf(i), leaf(j))),
                                    Box::new(Expr::Bin(op2, leaf(i2), leaf(j2))),
                                ),
                            );
                        }
                    }
                }
                t
            })
            .reduce(Tally::default, Tally::add);
        balanced_trees = tb.trees;
        tally = tally.add(tb);
    }

    for (name, n) in [
        ("visit_nothing", tally.v_nothing),
        ("visit_all_recursively", tally.v_all),
        ("visit_specific_sets", tally.v_specific_sets),
        ("visit_specific_all", tally.v_specific_all),
        ("visit_sets_that_prune", tally.v_pruning_sets),
        ("mixed_directories", tally.mixed_dirs),
    ] {
        if n == 0 && ctx.violation_count() == 0 {
            vcommon::machinery_failure(&format!("vacuous: counter {name} is 0"));
        }
    }
    let cov = Coverage {
        evaluations: tally.trees,
        distinct_nontrivial: tally.nontrivial,
        rule: format!(
            "every matcher expression: {n_leaves} leaves (Nothing, Everything, Files/Prefix over every subset of size \
             <= 2 of {PATH_POOL:?}, file- and prefix-glob matchers over dirs {GLOB_DIRS:?} x globs {GLOBS:?} and \
             two-entry glob matchers); every op(leaf, leaf) for the 3 operators; every op2(op1(x,y), z) and \
             op2(z, op1(x,y)) with {}{}. Each expression is \
             generated once (distinct syntax trees). For each: matches() on all {} paths of depth <= {MAX_DEPTH} \
             over {COMPONENTS:?} + root, visit() at all {} directories. Non-trivial = the match set is neither \
             empty nor everything and at least one visit() answer prunes (Nothing, AllRecursively, or a set \
             that leaves out a/b/z)",
            if thorough {
                "x, y, z any leaf".to_string()
            } else {
                format!("x, y, z from a {}-leaf core set (one leaf per shape)", core.len())
            },
            if thorough { format!("; every op3(op1(.,.), op2(.,.)) over a {}-leaf set", tiny.len()) } else { String::new() },
            u.paths.len() - 1,
            u.dirs.len(),
        ),
        samples: samples.take(),
        exhaustive: true,
        extra: [
            ("leaves".to_string(), json!(n_leaves)),
            ("distinct_leaf_match_sets".to_string(), json!(distinct_leaf_sets)),
            ("depth2_trees".to_string(), json!(depth2_trees)),
            ("depth3_trees".to_string(), json!(depth3_trees)),
            ("balanced_depth3_trees".to_string(), json!(balanced_trees)),
            ("visit_calls".to_string(), json!(tally.visits)),
            ("matches_calls".to_string(), json!(tally.match_calls)),
            ("visit_nothing".to_string(), json!(tally.v_nothing)),
            ("visit_all_recursively".to_string(), json!(tally.v_all)),
            ("visit_specific_sets".to_string(), json!(tally.v_specific_sets)),
            ("visit_specific_sets_that_prune".to_string(), json!(tally.v_pruning_sets)),
            ("visit_specific_all".to_string(), json!(tally.v_specific_all)),
            ("directories_with_some_but_not_all_matching".to_string(), json!(tally.mixed_dirs)),
        ]
        .into_iter()
        .collect(),
        assumptions: vec![
            "soundness is judged on the finite universe: paths deeper than 4 or with other component names are represented by z".into(),
            "leaf match sets of glob matchers are taken from the real matches() (their definition is C31's subject); Files/Prefix leaves are compared with an independent definition".into(),
            "precision of visit() (how much it prunes) is not part of the statement and is only counted".into(),
            "expression depth > 3 and leaves with more than two entries are not explored".into(),
        ],
        ..Default::default()
    };
    ctx.finish(cov);
}

//! C29 — Line-ending conversion round-trips normalized content.
//!
//! Bounded-exhaustive enumeration of file contents `pad · tail` (pad = `a`^L with 0, 1 or 2
//! bytes replaced by LF at fixed positions, L around 0 and around the 8 KiB probe limit; tail =
//! every string of length <= 3 (thorough: 4) over {`a`, LF, CR, NUL}) under every
//! `working-copy.eol-conversion` mode. The conversion functions are private, so every case
//! drives the real working copy: the content is stored, checked out into a `TestWorkspace`
//! configured with the mode, the disk bytes are read, the file is snapshotted (once untouched,
//! once after rewriting the same bytes with another mtime so that it is really read again) and
//! the stored bytes are read back. In the same snapshot the content is also present as a new,
//! untracked file (the "file edited on disk" direction).
//!
//! Reference model (this file): a whole-file definition of "LF-stored text" (no NUL, no CR),
//! the documented probe for "binary" (NUL or lone CR inside the first 8 KiB; a CR in the last
//! probed byte and anything later is where the documentation allows misclassification), byte-wise LF->CRLF
//! and CRLF->LF maps. Contents the statement does not speak about (stored CRLF, evidence only
//! at/after the probe limit) must come out as one of the two documented treatments.

use std::collections::BTreeMap;
use std::collections::BTreeSet;
use std::sync::Mutex;

use jj_lib::backend::TreeValue;
use jj_lib::commit::Commit;
use jj_lib::config::ConfigLayer;
use jj_lib::config::ConfigSource;
use jj_lib::merged_tree::MergedTree;
use jj_lib::repo::Repo as _;
use jj_lib::settings::UserSettings;
use pollster::FutureExt as _;
use rayon::prelude::*;
use serde_json::Value;
use serde_json::json;
use testutils::TestRepoBackend;
use testutils::TestTreeBuilder;
use testutils::TestWorkspace;
use testutils::commit_with_tree;
use testutils::repo_path;
use vcommon::Coverage;
use vcommon::Ctx;
use vcommon::Level;
use vcommon::Samples;
use vcommon::catch;
use vcommon::machinery_failure;

const PROBE_LIMIT: usize = 8192;
const MODES: [&str; 3] = ["none", "input", "input-output"];
const TAIL_ALPHABET: [u8; 4] = [b'a', b'\n', b'\r', 0];

// ---------------------------------------------------------------------------------------
// the space

#[derive(Clone, Debug, PartialEq, Eq, PartialOrd, Ord)]
struct Spec {
    pad_len: usize,
    newlines_at: Vec<usize>,
    tail: Vec<u8>,
}

impl Spec {
    fn bytes(&self) -> Vec<u8> {
        let mut v = vec![b'a'; self.pad_len];
        for &p in &self.newlines_at {
            if p < v.len() {
                v[p] = b'\n';
            }
        }
        v.extend_from_slice(&self.tail);
        v
    }
    fn to_json(&self, mode: &str) -> Value {
        json!({"mode": mode, "pad_len": self.pad_len, "newlines_at": self.newlines_at, "tail": self.tail})
    }
    fn from_json(v: &Value) -> Spec {
        Spec {
            pad_len: v["pad_len"].as_u64().unwrap_or(0) as usize,
            newlines_at: serde_json::from_value(v["newlines_at"].clone()).unwrap_or_default(),
            tail: serde_json::from_value(v["tail"].clone()).unwrap_or_default(),
        }
    }
    fn show(&self) -> String {
        format!(
            "'a'*{} with LF at {:?} + \"{}\"",
            self.pad_len,
            self.newlines_at,
            self.tail.iter().map(|b| std::ascii::escape_default(*b).to_string()).collect::<String>()
        )
    }
}

fn tails(max_len: usize) -> Vec<Vec<u8>> {
    let mut out = vec![];
    vcommon::enumerate::sequences(TAIL_ALPHABET.len(), max_len, |t| {
        out.push(t.iter().map(|&i| TAIL_ALPHABET[i]).collect());
    });
    out
}

/// Positions of the LFs inside the pad: fixed, early in the file, so that the converted
/// content is k bytes longer than the stored one before the probe limit is reached.
fn newline_sets(pad_len: usize) -> Vec<Vec<usize>> {
    let mut sets: BTreeSet<Vec<usize>> = BTreeSet::new();
    sets.insert(vec![]);
    if pad_len >= 1 {
        sets.insert(vec![pad_len / 2]);
    }
    if pad_len >= 2 {
        sets.insert(vec![pad_len / 3, pad_len - 1]);
    }
    sets.into_iter().collect()
}

fn specs(thorough: bool) -> Vec<Spec> {
    let mut lens: Vec<usize> = vec![0, 1, 2, 3];
    lens.extend(PROBE_LIMIT - 4..=PROBE_LIMIT + 3);
    if thorough {
        lens.extend(2 * PROBE_LIMIT - 4..=2 * PROBE_LIMIT + 6);
    }
    let tails = tails(if thorough { 4 } else { 3 });
    let mut seen: BTreeSet<Vec<u8>> = BTreeSet::new();
    let mut out = vec![];
    for &l in &lens {
        for nl in newline_sets(l) {
            for t in &tails {
                let s = Spec { pad_len: l, newlines_at: nl.clone(), tail: t.clone() };
                // contents are distinct (small pads with LFs coincide with tails)
                if seen.insert(s.bytes()) {
                    out.push(s);
                }
            }
        }
    }
    out
}

// ---------------------------------------------------------------------------------------
// reference model

#[derive(Clone, Copy, PartialEq, Eq, Debug, PartialOrd, Ord)]
enum Class {
    /// no NUL and no CR anywhere: "a text file stored with LF line endings"
    LfText,
    /// no NUL, at least one CR, every CR is followed by LF: text with CRLF endings
    CrlfText,
    /// NUL or lone CR inside the part of the first 8 KiB that is always examined
    Binary,
    /// evidence for binary only at or after the probe limit: may be treated either way
    Unspecified,
}

fn classify(b: &[u8]) -> Class {
    // The documented probe examines the first 8 KiB. A CR in the last probed byte of a longer
    // file is the documented ambiguity (it may be half of a CRLF); evidence after the probed
    // part is never seen. Everything else inside the probed part is always seen.
    let probed = b.len().min(PROBE_LIMIT);
    let mut strict_binary = false;
    let mut any_binary = false;
    let mut any_cr = false;
    for (i, &c) in b.iter().enumerate() {
        let evidence = match c {
            0 => true,
            b'\r' => {
                any_cr = true;
                b.get(i + 1) != Some(&b'\n')
            }
            _ => false,
        };
        if evidence {
            any_binary = true;
            let certainly_seen = if c == 0 {
                i < probed
            } else {
                // a lone CR is recognised when the byte after it is probed too, or when it is
                // the last byte of a file that fits into the probe
                i + 1 < probed || b.len() < PROBE_LIMIT
            };
            if certainly_seen {
                strict_binary = true;
            }
        }
    }
    if strict_binary {
        Class::Binary
    } else if any_binary {
        Class::Unspecified
    } else if any_cr {
        Class::CrlfText
    } else {
        Class::LfText
    }
}

/// Every LF that is not already preceded by CR gets one.
fn to_crlf(b: &[u8]) -> Vec<u8> {
    let mut out = Vec::with_capacity(b.len() + 8);
    for (i, &c) in b.iter().enumerate() {
        if c == b'\n' && (i == 0 || b[i - 1] != b'\r') {
            out.push(b'\r');
        }
        out.push(c);
    }
    out
}

/// Every CR that is immediately followed by LF is dropped.
fn to_lf(b: &[u8]) -> Vec<u8> {
    let mut out = Vec::with_capacity(b.len());
    for (i, &c) in b.iter().enumerate() {
        if c == b'\r' && b.get(i + 1) == Some(&b'\n') {
            continue;
        }
        out.push(c);
    }
    out
}

// ---------------------------------------------------------------------------------------
// the real working copy

struct WcEnv {
    ws: TestWorkspace,
    counter: u64,
}

fn settings_for(mode: &str) -> UserSettings {
    let mut config = testutils::base_user_config();
    config.add_layer(
        ConfigLayer::parse(ConfigSource::User, &format!("working-copy.eol-conversion = \"{mode}\"\n"))
            .unwrap_or_else(|e| machinery_failure(&format!("config: {e}"))),
    );
    UserSettings::from_config(config).unwrap_or_else(|e| machinery_failure(&format!("settings: {e}")))
}

impl WcEnv {
    fn new(mode: &str) -> WcEnv {
        let ws = TestWorkspace::init_with_backend_and_settings(TestRepoBackend::Simple, &settings_for(mode));
        WcEnv { ws, counter: 0 }
    }
}

struct Observed {
    /// disk bytes after checkout
    disk: Vec<u8>,
    /// stored bytes of the tracked file after the snapshot of the untouched working copy
    stored_untouched: Option<Vec<u8>>,
    /// ... after the file was rewritten with the same bytes and another mtime
    stored_touched: Option<Vec<u8>>,
    /// stored bytes of the same content written to disk as a new file
    stored_new_file: Option<Vec<u8>>,
}

struct Failure {
    signature: String,
    message: String,
}

fn fail(signature: String, message: String) -> Failure {
    Failure { signature, message }
}

fn read_stored(tree: &MergedTree, path: &jj_lib::repo_path::RepoPath) -> Option<Vec<u8>> {
    let value = tree
        .path_value(path)
        .block_on()
        .unwrap_or_else(|e| machinery_failure(&format!("path_value: {e}")));
    match value.as_normal() {
        Some(TreeValue::File { id, .. }) => Some(testutils::read_file(tree.store(), path, id)),
        _ => None,
    }
}

fn observe(env: &mut WcEnv, mode: &str, content: &[u8]) -> Result<Observed, Failure> {
    env.counter += 1;
    // alternate the names so that every case creates its files afresh
    let tracked_name = format!("f{}", env.counter % 2);
    let new_name = format!("g{}", env.counter % 2);
    let path = repo_path(&tracked_name);
    let new_path = repo_path(&new_name);
    let store = env.ws.repo.store().clone();
    let mut b = TestTreeBuilder::new(store.clone());
    b.file(path, content);
    let tree = b.write_merged_tree();
    let commit: Commit = commit_with_tree(&store, tree);
    let op_id = env.ws.repo.op_id().clone();
    let err = |what: &str, e: String| fail(format!("C29/{mode}/{what}"), format!("{what}: {e}"));
    catch(|| env.ws.workspace.check_out(op_id.clone(), None, &commit).block_on())
        .map_err(|e| err("checkout-panic", e))?
        .map_err(|e| err("checkout-error", e.to_string()))?;
    let root = env.ws.workspace.workspace_root().to_path_buf();
    let disk_path = root.join(&tracked_name);
    let disk = std::fs::read(&disk_path).map_err(|e| err("file-not-written", e.to_string()))?;
    let snap = |env: &mut WcEnv| -> Result<MergedTree, Failure> {
        catch(|| env.ws.snapshot())
            .map_err(|e| err("snapshot-panic", e))?
            .map_err(|e| err("snapshot-error", e.to_string()))
    };
    let t1 = snap(env)?;
    let stored_untouched = read_stored(&t1, path);
    // rewrite the same bytes with an older mtime: the snapshot must read the file again
    let io = |r: std::io::Result<()>| r.unwrap_or_else(|e| machinery_failure(&format!("disk: {e}")));
    io(std::fs::write(&disk_path, &disk));
    let f = std::fs::File::options()
        .write(true)
        .open(&disk_path)
        .unwrap_or_else(|e| machinery_failure(&format!("open: {e}")));
    let old = f
        .metadata()
        .and_then(|m| m.modified())
        .unwrap_or_else(|e| machinery_failure(&format!("mtime: {e}")));
    io(f.set_modified(old - std::time::Duration::from_secs(7)));
    drop(f);
    io(std::fs::write(root.join(&new_name), content));
    let t2 = snap(env)?;
    Ok(Observed {
        disk,
        stored_untouched,
        stored_touched: read_stored(&t2, path),
        stored_new_file: read_stored(&t2, new_path),
    })
}

// ---------------------------------------------------------------------------------------
// oracle

fn show(b: &[u8]) -> String {
    const KEEP: usize = 12;
    let esc = |s: &[u8]| s.iter().map(|c| std::ascii::escape_default(*c).to_string()).collect::<String>();
    if b.len() <= 2 * KEEP + 8 {
        format!("\"{}\" ({} bytes)", esc(b), b.len())
    } else {
        // runs of 'a' are summarised, everything else is shown
        let mut out = String::new();
        let mut i = 0;
        while i < b.len() {
            if b[i] == b'a' {
                let mut j = i;
                while j < b.len() && b[j] == b'a' {
                    j += 1;
                }
                if j - i > 6 {
                    out.push_str(&format!("<a*{}>", j - i));
                } else {
                    out.push_str(&esc(&b[i..j]));
                }
                i = j;
            } else {
                out.push_str(&esc(&b[i..i + 1]));
                i += 1;
            }
        }
        format!("\"{out}\" ({} bytes)", b.len())
    }
}

#[derive(Default, Clone)]
struct Tally {
    cases: u64,
    nontrivial: u64,
    by_class: BTreeMap<String, u64>,
    disk_differs_from_stored: u64,
    new_file_normalised: u64,
    untouched_snapshot_checked: u64,
    boundary_sensitive: u64,
    unspecified_as_text: u64,
    unspecified_as_binary: u64,
}

impl Tally {
    fn merge(&mut self, o: &Tally) {
        self.cases += o.cases;
        self.nontrivial += o.nontrivial;
        for (k, v) in &o.by_class {
            *self.by_class.entry(k.clone()).or_insert(0) += v;
        }
        self.disk_differs_from_stored += o.disk_differs_from_stored;
        self.new_file_normalised += o.new_file_normalised;
        self.untouched_snapshot_checked += o.untouched_snapshot_checked;
        self.boundary_sensitive += o.boundary_sensitive;
        self.unspecified_as_text += o.unspecified_as_text;
        self.unspecified_as_binary += o.unspecified_as_binary;
    }
}

/// Whether the bytes around the probe limit are anything but `a` (so that the limit matters).
fn boundary_sensitive(b: &[u8]) -> bool {
    b.len() >= PROBE_LIMIT - 1
        && b[PROBE_LIMIT - 3..b.len().min(PROBE_LIMIT + 2)].iter().any(|c| *c != b'a')
}

fn judge(mode: &str, spec: &Spec, content: &[u8], o: &Observed, tally: &mut Tally) -> Result<(), Failure> {
    let class = classify(content);
    let size = if content.len() + 2 >= PROBE_LIMIT { "/at-probe-limit" } else { "" };
    let ctx = |what: &str| format!("mode {mode}, stored {} = {}: {what}", spec.show(), show(content));
    let sig = |clause: &str| format!("C29/{mode}/{clause}{size}");
    let missing = |what: &str| fail(sig(&format!("{what}/file-missing-from-tree")), ctx("the snapshot has no file at the path"));
    let touched = o.stored_touched.as_ref().ok_or_else(|| missing("roundtrip"))?;
    let untouched = o.stored_untouched.as_ref().ok_or_else(|| missing("roundtrip-untouched"))?;
    let new_file = o.stored_new_file.as_ref().ok_or_else(|| missing("snapshot-of-disk"))?;
    tally.cases += 1;
    *tally.by_class.entry(format!("{mode}:{class:?}")).or_insert(0) += 1;
    if o.disk != content {
        tally.disk_differs_from_stored += 1;
    }
    if new_file != content {
        tally.new_file_normalised += 1;
    }
    if boundary_sensitive(content) || boundary_sensitive(&o.disk) {
        tally.boundary_sensitive += 1;
    }
    if mode != "none" && content.contains(&b'\n') {
        tally.nontrivial += 1;
    }
    // ---- checkout direction + round trip of the tracked file
    let mut expect_roundtrip: Option<Vec<u8>> = None;
    match mode {
        "none" => {
            if o.disk != content {
                return Err(fail(sig("checkout/not-verbatim"), ctx(&format!("disk is {}", show(&o.disk)))));
            }
            expect_roundtrip = Some(content.to_vec());
        }
        "input" => {
            // statement: with input-only conversion, checkout writes stored bytes verbatim
            if o.disk != content {
                return Err(fail(sig("checkout/not-verbatim"), ctx(&format!("disk is {}", show(&o.disk)))));
            }
            match class {
                Class::LfText | Class::Binary => expect_roundtrip = Some(content.to_vec()),
                Class::CrlfText => expect_roundtrip = Some(to_lf(content)),
                Class::Unspecified => {}
            }
        }
        _ => match class {
            Class::LfText => {
                let want = to_crlf(content);
                if o.disk != want {
                    return Err(fail(
                        sig("checkout/lf-text-not-written-as-crlf"),
                        ctx(&format!("disk is {}, expected {}", show(&o.disk), show(&want))),
                    ));
                }
                expect_roundtrip = Some(content.to_vec());
            }
            Class::Binary => {
                if o.disk != content {
                    return Err(fail(
                        sig("checkout/binary-modified"),
                        ctx(&format!("disk is {}", show(&o.disk))),
                    ));
                }
                expect_roundtrip = Some(content.to_vec());
            }
            Class::CrlfText => {
                // not covered by the statement; documented: LF -> CRLF on checkout, CRLF -> LF on snapshot
                let want = to_crlf(content);
                if o.disk != want {
                    return Err(fail(
                        sig("checkout/crlf-text-not-written-as-crlf"),
                        ctx(&format!("disk is {}, expected {}", show(&o.disk), show(&want))),
                    ));
                }
                expect_roundtrip = Some(to_lf(content));
            }
            Class::Unspecified => {
                let as_text = to_crlf(content);
                if o.disk == content && as_text != content {
                    tally.unspecified_as_binary += 1;
                } else if o.disk == as_text && as_text != content {
                    tally.unspecified_as_text += 1;
                }
                if o.disk != content && o.disk != as_text {
                    return Err(fail(
                        sig("checkout/unspecified-class-outside-both-treatments"),
                        ctx(&format!("disk is {}", show(&o.disk))),
                    ));
                }
            }
        },
    }
    match &expect_roundtrip {
        Some(want) => {
            let clause = match (mode, class) {
                ("input-output", Class::LfText) => "roundtrip/lf-text-changed",
                (_, Class::Binary) => "roundtrip/binary-modified",
                (_, Class::CrlfText) => "roundtrip/crlf-text-not-normalised",
                _ => "roundtrip/changed",
            };
            if touched != want {
                return Err(fail(
                    sig(clause),
                    ctx(&format!(
                        "disk after checkout {}; stored after re-reading the unchanged file {}, expected {}",
                        show(&o.disk),
                        show(touched),
                        show(want)
                    )),
                ));
            }
            // The untouched snapshot may or may not read the file; when both give the stored
            // content it must be the stored content.
            if want == content {
                tally.untouched_snapshot_checked += 1;
                if untouched != content {
                    return Err(fail(
                        sig(&format!("{clause}/immediately-after-checkout")),
                        ctx(&format!(
                            "disk after checkout {}; stored after an immediate snapshot {}",
                            show(&o.disk),
                            show(untouched)
                        )),
                    ));
                }
            }
        }
        None => {
            // either treatment of the disk bytes
            if *touched != o.disk && *touched != to_lf(&o.disk) {
                return Err(fail(
                    sig("roundtrip/unspecified-class-outside-both-treatments"),
                    ctx(&format!("disk {}; stored {}", show(&o.disk), show(touched))),
                ));
            }
        }
    }
    // ---- snapshot direction: the same bytes as a new file on disk
    let disk_class = class;
    let want_new: Option<Vec<u8>> = match (mode, disk_class) {
        ("none", _) => Some(content.to_vec()),
        (_, Class::LfText) | (_, Class::Binary) => Some(content.to_vec()),
        (_, Class::CrlfText) => Some(to_lf(content)),
        (_, Class::Unspecified) => None,
    };
    match want_new {
        Some(want) => {
            if *new_file != want {
                let clause = match disk_class {
                    Class::CrlfText => "snapshot-of-disk/crlf-text-not-normalised",
                    Class::Binary => "snapshot-of-disk/binary-modified",
                    _ => "snapshot-of-disk/changed",
                };
                return Err(fail(
                    sig(clause),
                    ctx(&format!("a new disk file with these bytes is stored as {}, expected {}", show(new_file), show(&want))),
                ));
            }
        }
        None => {
            if new_file.as_slice() != content && *new_file != to_lf(content) {
                return Err(fail(
                    sig("snapshot-of-disk/unspecified-class-outside-both-treatments"),
                    ctx(&format!("a new disk file with these bytes is stored as {}", show(new_file))),
                ));
            }
        }
    }
    Ok(())
}

fn run_case(env: &mut WcEnv, mode: &str, spec: &Spec, tally: &mut Tally) -> Result<(), Failure> {
    let content = spec.bytes();
    let o = observe(env, mode, &content)?;
    judge(mode, spec, &content, &o, tally)
}

// ---------------------------------------------------------------------------------------

fn reference_self_test() {
    let big = |tail: &[u8]| {
        let mut v = vec![b'a'; PROBE_LIMIT - 1];
        v.extend_from_slice(tail);
        v
    };
    let checks: Vec<(Vec<u8>, Class)> = vec![
        (b"a\nb".to_vec(), Class::LfText),
        (b"".to_vec(), Class::LfText),
        (b"a\r\nb\n".to_vec(), Class::CrlfText),
        (b"a\rb\n".to_vec(), Class::Binary),
        (b"a\r".to_vec(), Class::Binary),
        (b"a\0".to_vec(), Class::Binary),
        (big(b"\r\n"), Class::CrlfText),
        (big(b"\ra"), Class::Unspecified),
        (big(b"\0"), Class::Binary),
        (vec![b'a'; PROBE_LIMIT - 2].into_iter().chain(*b"\ra").collect(), Class::Binary),
        (vec![b'a'; PROBE_LIMIT - 2].into_iter().chain(*b"\r\r").collect(), Class::Binary),
        (big(b"\r"), Class::Unspecified),
        (big(b"a\0"), Class::Unspecified),
        (vec![b'a'; PROBE_LIMIT - 3].into_iter().chain(*b"\ra").collect(), Class::Binary),
        (vec![b'a'; PROBE_LIMIT - 2].into_iter().chain(*b"\0a").collect(), Class::Binary),
    ];
    for (b, want) in checks {
        if classify(&b) != want {
            machinery_failure(&format!("reference classifier self-test failed on {} (got {:?})", show(&b), classify(&b)));
        }
    }
    if to_crlf(b"a\nb\r\n\n") != b"a\r\nb\r\n\r\n" || to_lf(b"a\r\nb\r\r\n\rc") != b"a\nb\r\n\rc" {
        machinery_failure("reference conversion self-test failed");
    }
}

fn main() {
    let ctx = Ctx::from_args("C29", Level::Exploration);
    vcommon::silence_panics();
    reference_self_test();
    if let Some((_sig, case)) = ctx.replay_case() {
        let mode = case["mode"].as_str().unwrap_or("input-output").to_string();
        let spec = Spec::from_json(&case);
        let mut env = WcEnv::new(&mode);
        let mut tally = Tally::default();
        if let Err(f) = run_case(&mut env, &mode, &spec, &mut tally) {
            ctx.violation(&f.signature, f.message, case);
        }
        ctx.finish(Coverage { evaluations: 1, ..Default::default() });
    }
    let specs = specs(ctx.thorough());
    let threads = rayon::current_num_threads().max(1);
    // one workspace per (worker thread, mode), created on first use
    let envs: Vec<Vec<Mutex<Option<WcEnv>>>> =
        (0..threads + 1).map(|_| MODES.iter().map(|_| Mutex::new(None)).collect()).collect();
    let samples = Samples::new(8);
    let total = Mutex::new(Tally::default());
    let items: Vec<(usize, &Spec)> = (0..MODES.len()).flat_map(|m| specs.iter().map(move |s| (m, s))).collect();
    items.par_chunks(16).for_each(|chunk| {
        let ti = rayon::current_thread_index().map(|i| i % threads).unwrap_or(threads);
        let mut tally = Tally::default();
        for (m, spec) in chunk {
            let mode = MODES[*m];
            let mut guard = envs[ti][*m].lock().unwrap();
            let env = guard.get_or_insert_with(|| WcEnv::new(mode));
            match run_case(env, mode, spec, &mut tally) {
                Ok(()) => {
                    if spec.pad_len > 3 && spec.tail.len() == 3 && spec.tail.contains(&b'\r') && spec.newlines_at.len() == 1 {
                        samples.offer(|| spec.to_json(mode));
                    }
                }
                Err(f) => {
                    ctx.violation(&f.signature, f.message, spec.to_json(mode));
                    // a failed checkout/snapshot may leave the workspace in an odd state
                    *guard = None;
                }
            }
        }
        total.lock().unwrap().merge(&tally);
    });
    let t = total.lock().unwrap().clone();
    if ctx.violation_count() == 0 {
        if t.cases != items.len() as u64 {
            machinery_failure(&format!("{} of {} cases were judged", t.cases, items.len()));
        }
        for (what, n) in [
            ("checkout changed the bytes", t.disk_differs_from_stored),
            ("a new disk file was normalised", t.new_file_normalised),
            ("content sensitive to the probe limit", t.boundary_sensitive),
            ("untouched snapshot checked", t.untouched_snapshot_checked),
        ] {
            if n == 0 {
                machinery_failure(&format!("vacuous: no case where {what}"));
            }
        }
        for mode in ["input", "input-output"] {
            for class in ["LfText", "CrlfText", "Binary", "Unspecified"] {
                if !t.by_class.contains_key(&format!("{mode}:{class}")) {
                    machinery_failure(&format!("vacuous: no {class} content under mode {mode}"));
                }
            }
        }
    }
    let cov = Coverage {
        evaluations: t.cases,
        distinct_nontrivial: t.nontrivial,
        rule: format!(
            "one evaluation = one (mode, content): store, check out, read disk, snapshot untouched, rewrite same bytes \
             with another mtime + add the same bytes as a new file, snapshot, read stored bytes. Contents = 'a'^L with \
             0/1/2 LFs at fixed positions (L/2; L/3 and L-1) for L in {{0..3, 8188..8195{}}} followed by every string of \
             length <= {} over {{a, LF, CR, NUL}}; contents are de-duplicated ({} distinct) x modes {MODES:?}. \
             Non-trivial = a converting mode and the content contains an LF (a conversion can apply).",
            if ctx.thorough() { ", 16380..16390" } else { "" },
            if ctx.thorough() { 4 } else { 3 },
            specs.len()
        ),
        samples: samples.take(),
        exhaustive: true,
        extra: [
            ("distinct_contents".to_string(), json!(specs.len())),
            ("cases_per_mode_and_class".to_string(), json!(t.by_class)),
            ("checkout_changed_the_bytes".to_string(), json!(t.disk_differs_from_stored)),
            ("new_disk_file_was_normalised".to_string(), json!(t.new_file_normalised)),
            ("untouched_snapshot_checked".to_string(), json!(t.untouched_snapshot_checked)),
            ("contents_with_non_a_bytes_around_the_probe_limit".to_string(), json!(t.boundary_sensitive)),
            ("unspecified_class_treated_as_text".to_string(), json!(t.unspecified_as_text)),
            ("unspecified_class_treated_as_binary".to_string(), json!(t.unspecified_as_binary)),
        ]
        .into_iter()
        .collect(),
        assumptions: vec![
            "\"LF-stored text\" = no NUL and no CR anywhere in the file; \"classified as binary\" = NUL or lone CR in the part of the first 8 KiB that the documented probe always examines (files shorter than 8 KiB: anywhere)".into(),
            "contents whose only binary evidence is a CR in the last probed byte or anything after the probe are documented as potentially misclassified: either treatment is accepted".into(),
            "stored CRLF text is outside the statement; the documented behaviour (CRLF on disk, LF after the next snapshot) is checked under separate signatures".into(),
            "beyond the statement: mode none is the identity; in modes input and input-output a new disk file is stored CRLF->LF normalised unless binary (docs/config.md)".into(),
            "outside the bound: other byte values, more than two LFs before the probe limit, files beyond 16 KiB, conflicted files".into(),
        ],
        ..Default::default()
    };
    ctx.finish(cov);
}

//! C38 — Annotations blame the commit that introduced each line.
//!
//! Bounded-exhaustive: every history of n commits (every DAG with <= 2 parents) x every
//! assignment of a version of one file to every commit (merge commits get any version, not
//! only auto-merges) from a small alphabet of line sequences (absent, empty, duplicates,
//! reorderings, missing final newline), built in a real repository (simple backend);
//! annotated from the newest commit (every (history, start) pair is such a history on the
//! ancestors of the start) within every domain of the family {all(), ::start, none(),
//! x..start for every other commit x incl. the root} with `FileAnnotator::from_commit` +
//! `compute` + `to_annotation`.
//!
//! Oracle (reference = parent table + versions; the searched set is
//! S = {start} | (domain & ::start & files(path)), its graph is the one C39 decides):
//! * the annotated text is the start's version, one origin per line;
//! * `Ok(c, k)`: c is in S; line k of c's version is byte-equal to the annotated line; the
//!   line is connected to (c, k) by a chain of "carried over" steps along graph edges of S;
//!   line k of c is not carried over from any graph parent of c in S (nearest searched
//!   ancestors that are not behind another one), nor from an unsearched parent at which the
//!   walk has to stop;
//! * `Err(m, k)`: m is an ancestor of the start outside S where the walk has to stop (a
//!   missing-edge target), line k of m's version is byte-equal, and the line is connected to
//!   it by carried-over steps.
//! "Carried over" is defined by `ContentDiff::by_line` (C03's subject), evaluated in both
//! argument orders; a step is accepted if either order makes it, a "not carried over" clause
//! is violated only if both orders carry the line. Which parent gets the credit when several
//! carry a line is left open, as the statement does.

use std::collections::BTreeMap;
use std::collections::BTreeSet;
use std::sync::Arc;

use futures::StreamExt as _;
use jj_lib::annotate::FileAnnotator;
use jj_lib::backend::CommitId;
use jj_lib::backend::MillisSinceEpoch;
use jj_lib::backend::Signature;
use jj_lib::backend::Timestamp;
use jj_lib::commit::Commit;
use jj_lib::diff::ContentDiff;
use jj_lib::diff::DiffHunkKind;
use jj_lib::fileset::FilesetExpression;
use jj_lib::merged_tree::MergedTree;
use jj_lib::repo::MutableRepo;
use jj_lib::repo::Repo;
use jj_lib::revset::ResolvedRevsetExpression;
use jj_lib::revset::RevsetFilterPredicate;
use pollster::FutureExt as _;
use rayon::prelude::*;
use serde::Deserialize;
use serde::Serialize;
use serde_json::Value;
use serde_json::json;
use testutils::TestRepo;
use testutils::create_tree;
use testutils::repo_path;
use vcommon::Counter;
use vcommon::Coverage;
use vcommon::Ctx;
use vcommon::Level;
use vcommon::Samples;
use vcommon::catch;
use vcommon::enumerate::subsets_up_to;
use vcommon::machinery_failure;

type Rx = ResolvedRevsetExpression;

const FILE: &str = "file";

/// The version alphabet. `None` = the file does not exist.
const VERSIONS: [Option<&str>; 9] = [
    None,
    Some("a\n"),
    Some("a\nb\n"),
    Some("b\na\n"),
    Some("a\na\n"),
    Some("b\n"),
    Some(""),
    Some("a\nb\nc\n"),
    Some("a\nb"),
];

fn text_of(v: usize) -> &'static str {
    VERSIONS[v].unwrap_or("")
}

fn lines_of(text: &str) -> Vec<&str> {
    text.split_inclusive('\n').collect()
}

// ---------------------------------------------------------------------------------------
// "Carried over": line mapping between two versions according to ContentDiff::by_line
// ---------------------------------------------------------------------------------------

/// `map[k]` = line of `parent` that line k of `current` is matched with
fn carry_once(current: &str, parent: &str, current_first: bool) -> Vec<Option<usize>> {
    let n = lines_of(current).len();
    let mut map = vec![None; n];
    let inputs: [&[u8]; 2] =
        if current_first { [current.as_bytes(), parent.as_bytes()] } else { [parent.as_bytes(), current.as_bytes()] };
    let diff = ContentDiff::by_line(inputs);
    let (ci, pi) = if current_first { (0, 1) } else { (1, 0) };
    let (mut c, mut p) = (0usize, 0usize);
    for hunk in diff.hunks() {
        let count = |b: &[u8]| b.split_inclusive(|x| *x == b'\n').count();
        let (cn, pn) = (count(hunk.contents[ci]), count(hunk.contents[pi]));
        if hunk.kind == DiffHunkKind::Matching {
            if cn != pn {
                machinery_failure("a matching hunk has different line counts on its two sides");
            }
            for j in 0..cn {
                map[c + j] = Some(p + j);
            }
        }
        c += cn;
        p += pn;
    }
    if c != n {
        machinery_failure("diff hunks do not cover the current version");
    }
    map
}

/// For every ordered pair of versions and every line: the set of outcomes observed over both
/// argument orders and several repetitions (each ContentDiff draws a fresh hash seed).
struct Carry {
    /// alts[c][q][k]
    alts: Vec<Vec<Vec<BTreeSet<Option<usize>>>>>,
    pairs_where_orders_disagree: usize,
}

impl Carry {
    fn new() -> Carry {
        let nv = VERSIONS.len();
        let mut alts = vec![vec![vec![]; nv]; nv];
        let mut disagree = 0;
        for c in 0..nv {
            for q in 0..nv {
                let n = lines_of(text_of(c)).len();
                let mut sets = vec![BTreeSet::new(); n];
                for rep in 0..4 {
                    for order in [true, false] {
                        let m = carry_once(text_of(c), text_of(q), order);
                        for k in 0..n {
                            sets[k].insert(m[k]);
                        }
                        let _ = rep;
                    }
                }
                if sets.iter().any(|s| s.len() > 1) {
                    disagree += 1;
                }
                alts[c][q] = sets;
            }
        }
        Carry { alts, pairs_where_orders_disagree: disagree }
    }

    /// possible images of line k of version c in version q
    fn images(&self, c: usize, q: usize, k: usize) -> Vec<usize> {
        self.alts[c][q][k].iter().filter_map(|x| *x).collect()
    }

    /// is line k of version c matched with a line of version q under every order?
    fn surely_carried(&self, c: usize, q: usize, k: usize) -> bool {
        !self.alts[c][q][k].contains(&None)
    }
}

// ---------------------------------------------------------------------------------------
// Histories and the reference graph
// ---------------------------------------------------------------------------------------

#[derive(Clone, Debug, Serialize, Deserialize, PartialEq, Eq)]
struct NodeSpec {
    /// parents among 0..this node (0 = root commit), in order
    parents: Vec<usize>,
    /// the file's content at this commit, `None` = absent
    content: Option<String>,
}

#[derive(Clone, Debug, Serialize, Deserialize, PartialEq, Eq)]
enum Domain {
    All,
    None,
    AncestorsOfStart,
    /// `x..start`
    Range(usize),
}

struct G {
    n: usize,
    parents: Vec<Vec<usize>>,
    /// version index per node (node 0 = root = absent)
    version: Vec<usize>,
    anc: Vec<u32>,
}

fn bit(i: usize) -> u32 {
    1u32 << i
}

fn nodes_of(m: u32) -> Vec<usize> {
    (0..32).filter(|&i| m >> i & 1 == 1).collect()
}

impl G {
    fn new(nodes: &[(Vec<usize>, usize)]) -> G {
        let n = nodes.len();
        let mut parents = vec![vec![]];
        let mut version = vec![0];
        for (p, v) in nodes {
            parents.push(p.clone());
            version.push(*v);
        }
        let mut anc = vec![0u32; n + 1];
        for i in 0..=n {
            let mut m = bit(i);
            for &p in &parents[i] {
                if p >= i {
                    machinery_failure("history is not topologically numbered");
                }
                m |= anc[p];
            }
            anc[i] = m;
        }
        G { n, parents, version, anc }
    }

    fn domain_mask(&self, d: &Domain, start: usize) -> u32 {
        match d {
            Domain::All | Domain::AncestorsOfStart => self.anc[start],
            Domain::None => 0,
            Domain::Range(x) => self.anc[start] & !self.anc[*x],
        }
    }
}

#[derive(Default, Clone)]
struct RefNode {
    /// nearest searched ancestors (graph parents when no transitive edge is dropped)
    nearest: u32,
    /// nearest searched ancestors reached through at least one unsearched commit
    through_outside: u32,
    /// unsearched commits where the walk has to stop
    missing: u32,
}

fn reference_node(g: &G, s: u32, x: usize) -> RefNode {
    fn walk_outside(g: &G, s: u32, e: usize, out: &mut RefNode) {
        for &p in &g.parents[e] {
            if s & bit(p) != 0 {
                out.nearest |= bit(p);
                out.through_outside |= bit(p);
            } else if g.anc[p] & s != 0 {
                walk_outside(g, s, p, out);
            } else {
                out.missing |= bit(p);
            }
        }
    }
    let mut out = RefNode::default();
    for &p in &g.parents[x] {
        if s & bit(p) != 0 {
            out.nearest |= bit(p);
        } else if g.anc[p] & s != 0 {
            walk_outside(g, s, p, &mut out);
        } else {
            out.missing |= bit(p);
        }
    }
    out
}

// ---------------------------------------------------------------------------------------
// The oracle
// ---------------------------------------------------------------------------------------

struct Fail {
    sig: String,
    msg: String,
}

#[derive(Debug, Clone, PartialEq, Eq)]
struct Origin {
    ok: bool,
    node: usize,
    line: usize,
}

struct Observed {
    text: Vec<u8>,
    origins: Vec<Result<Origin, String>>,
}

fn domain_expr(d: &Domain, ids: &[CommitId], start: usize) -> Arc<Rx> {
    match d {
        Domain::All => Rx::all(),
        Domain::None => Rx::none(),
        Domain::AncestorsOfStart => Rx::commit(ids[start].clone()).ancestors(),
        Domain::Range(x) => Rx::commit(ids[*x].clone()).range(&Rx::commit(ids[start].clone())),
    }
}

fn run_annotate(repo: &dyn Repo, commits: &[Commit], ids: &[CommitId], start: usize, d: &Domain) -> Result<Observed, String> {
    let path = repo_path(FILE);
    let mut annotator = FileAnnotator::from_commit(&commits[start], path).block_on().map_err(|e| format!("from_commit: {e}"))?;
    annotator.compute(repo, &domain_expr(d, ids, start)).block_on().map_err(|e| format!("compute: {e}"))?;
    let annotation = annotator.to_annotation();
    let node_of = |id: &CommitId| -> Result<usize, String> {
        ids.iter().position(|x| x == id).ok_or_else(|| format!("origin {id} is not a commit of the history"))
    };
    let origins = annotation
        .line_origins()
        .map(|(o, _line)| match o {
            Ok(lo) => node_of(&lo.commit_id).map(|node| Origin { ok: true, node, line: lo.line_number }),
            Err(lo) => node_of(&lo.commit_id).map(|node| Origin { ok: false, node, line: lo.line_number }),
        })
        .collect();
    Ok(Observed { text: annotation.text().to_vec(), origins })
}

struct CaseInfo {
    lines: usize,
    lines_to_ancestors: usize,
    err_lines: usize,
    err_inside_domain: usize,
    ambiguous_lines: usize,
    searched: usize,
    has_indirect: bool,
    has_transitive: bool,
    has_merge_in_searched: bool,
}

/// `files` = the commits of `::start & files(path)` according to the real revset engine.
fn check_case(repo: &dyn Repo, g: &G, carry: &Carry, commits: &[Commit], ids: &[CommitId], start: usize, d: &Domain, files: u32) -> Result<CaseInfo, Fail> {
    let ctxt = || {
        let hist: Vec<String> = (1..=g.n).map(|i| format!("n{i}{:?}={:?}", g.parents[i], VERSIONS[g.version[i]])).collect();
        format!("history [{}], annotate n{start} within {d:?}", hist.join(", "))
    };
    let obs = catch(|| run_annotate(repo, commits, ids, start, d))
        .map_err(|p| Fail { sig: "C38/panic".into(), msg: format!("{}: annotate panicked: {p}", ctxt()) })?
        .map_err(|e| Fail { sig: "C38/error".into(), msg: format!("{}: {e}", ctxt()) })?;
    let want_text = text_of(g.version[start]);
    let show_obs = || {
        obs.origins
            .iter()
            .map(|o| match o {
                Ok(o) => format!("{}(n{}:{})", if o.ok { "Ok" } else { "Err" }, o.node, o.line),
                Err(e) => format!("?({e})"),
            })
            .collect::<Vec<_>>()
            .join(" ")
    };
    let fail = |clause: &str, what: String| Fail { sig: format!("C38/{clause}"), msg: format!("{}: {what}; origins = {}", ctxt(), show_obs()) };
    if obs.text != want_text.as_bytes() {
        return Err(fail("text-differs", format!("annotated text {:?} is not the file content {want_text:?}", String::from_utf8_lossy(&obs.text))));
    }
    let lines = lines_of(want_text);
    if obs.origins.len() != lines.len() {
        return Err(fail("line-count", format!("{} origins for {} lines", obs.origins.len(), lines.len())));
    }
    // --- the searched set and its graph
    let dmask = g.domain_mask(d, start);
    let s = bit(start) | (dmask & files);
    let refs: BTreeMap<usize, RefNode> = nodes_of(s).into_iter().map(|c| (c, reference_node(g, s, c))).collect();
    // graph parents that cannot be dropped as transitive: nearest ancestors not behind another
    let minimal = |c: usize| -> u32 {
        let near = refs[&c].nearest;
        nodes_of(near).into_iter().filter(|&q| !nodes_of(near).iter().any(|&q2| q2 != q && g.anc[q2] & bit(q) != 0)).fold(0, |a, q| a | bit(q))
    };
    let mut info = CaseInfo {
        lines: lines.len(),
        lines_to_ancestors: 0,
        err_lines: 0,
        err_inside_domain: 0,
        ambiguous_lines: 0,
        searched: s.count_ones() as usize,
        has_indirect: refs.values().any(|r| r.through_outside != 0),
        has_transitive: refs.keys().any(|&c| minimal(c) != refs[&c].nearest),
        has_merge_in_searched: refs.values().any(|r| r.nearest.count_ones() >= 2),
    };
    for (i, line) in lines.iter().enumerate() {
        let o = match &obs.origins[i] {
            Ok(o) => o.clone(),
            Err(e) => return Err(fail("origin/unknown-commit", format!("line {i}: {e}"))),
        };
        if g.anc[start] & bit(o.node) == 0 {
            return Err(fail("origin/not-an-ancestor", format!("line {i} is attributed to n{}, which is not an ancestor of the start", o.node)));
        }
        let their_lines = lines_of(text_of(g.version[o.node]));
        if their_lines.get(o.line) != Some(line) {
            return Err(fail(
                if o.ok { "origin/line-not-in-that-version" } else { "unresolved/line-not-in-that-version" },
                format!("line {i} {line:?} is attributed to n{}:{} but that version is {:?}", o.node, o.line, VERSIONS[g.version[o.node]]),
            ));
        }
        // every (commit, line) the line can be followed to by carried-over steps
        let mut reach: BTreeSet<(usize, usize)> = BTreeSet::new();
        let mut stops: BTreeSet<(usize, usize)> = BTreeSet::new();
        let mut todo = vec![(start, i)];
        while let Some((c, k)) = todo.pop() {
            if !reach.insert((c, k)) {
                continue;
            }
            for q in nodes_of(refs[&c].nearest) {
                for k2 in carry.images(g.version[c], g.version[q], k) {
                    todo.push((q, k2));
                }
            }
            for m in nodes_of(refs[&c].missing) {
                for k2 in carry.images(g.version[c], g.version[m], k) {
                    stops.insert((m, k2));
                }
            }
        }
        let acceptable_ok: Vec<(usize, usize)> = reach
            .iter()
            .copied()
            .filter(|&(c, k)| {
                !nodes_of(refs[&c].nearest | refs[&c].missing).iter().any(|&q| carry.surely_carried(g.version[c], g.version[q], k))
            })
            .collect();
        if acceptable_ok.len() + stops.len() > 1 {
            info.ambiguous_lines += 1;
        }
        if o.ok {
            if s & bit(o.node) == 0 {
                return Err(fail(
                    "origin/outside-searched-range",
                    format!("line {i} is attributed to n{}, which is not in the searched set {:?} (domain & ::start & files(), plus the start)", o.node, nodes_of(s)),
                ));
            }
            if !reach.contains(&(o.node, o.line)) {
                return Err(fail(
                    "origin/not-connected-by-carried-over-lines",
                    format!("line {i} is attributed to n{}:{} but following carried-over lines along the graph of the searched set reaches only {reach:?}", o.node, o.line),
                ));
            }
            let r = &refs[&o.node];
            let vc = g.version[o.node];
            if let Some(q) = nodes_of(minimal(o.node)).into_iter().find(|&q| carry.surely_carried(vc, g.version[q], o.line)) {
                return Err(fail(
                    "carried-over/from-graph-parent",
                    format!("line {i} is attributed to n{}:{} but it is carried over from its parent n{q} in the searched range ({:?})", o.node, o.line, VERSIONS[g.version[q]]),
                ));
            }
            if let Some(m) = nodes_of(r.missing).into_iter().find(|&m| carry.surely_carried(vc, g.version[m], o.line)) {
                return Err(fail(
                    "carried-over/from-unsearched-parent-but-resolved",
                    format!("line {i} is attributed to n{}:{} as its originator, but the unsearched parent n{m} ({:?}) already has it", o.node, o.line, VERSIONS[g.version[m]]),
                ));
            }
            if let Some(q) = nodes_of(r.nearest & !minimal(o.node)).into_iter().find(|&q| carry.surely_carried(vc, g.version[q], o.line)) {
                return Err(fail(
                    "carried-over/only-from-transitively-skipped-ancestor",
                    format!(
                        "line {i} is attributed to n{}:{} but it is carried over from n{q} ({:?}), a nearest searched ancestor reached through an unsearched parent; the edge to n{q} is dropped as transitive",
                        o.node,
                        o.line,
                        VERSIONS[g.version[q]]
                    ),
                ));
            }
            if o.node != start {
                info.lines_to_ancestors += 1;
            }
        } else {
            info.err_lines += 1;
            if s & bit(o.node) != 0 {
                // known shapes: an unsearched parent is counted twice as an unresolved root by
                // process_commit, either because it is a missing-edge target of two searched
                // commits, or because one searched commit has two missing edges to it (it is a
                // parent of that commit and also a parent of a hidden, live parent: the walk
                // does not de-duplicate that case); the walk then stops early and the initial
                // Err(start, line) stays in place
                let shared = refs.iter().any(|(c1, r1)| refs.iter().any(|(c2, r2)| c1 < c2 && r1.missing & r2.missing != 0));
                let twice = refs.keys().any(|&c| {
                    let dead_parents = g.parents[c].iter().filter(|&&p| s & bit(p) == 0 && g.anc[p] & s == 0).fold(0, |a, &p| a | bit(p));
                    let mut inherited = RefNode::default();
                    for &p in &g.parents[c] {
                        if s & bit(p) == 0 && g.anc[p] & s != 0 {
                            inherited.missing |= reference_node(g, s, p).missing;
                        }
                    }
                    dead_parents & inherited.missing != 0
                });
                let clause = format!(
                    "unresolved/inside-searched-range/{}{}",
                    if o.node == start && o.line == i { "initial-origin-left-at-start" } else { "other" },
                    if shared {
                        "/unsearched-parent-shared-by-two-searched-commits"
                    } else if twice {
                        "/unsearched-parent-reached-twice-from-one-searched-commit"
                    } else {
                        ""
                    }
                );
                return Err(fail(&clause, format!("line {i} is left unresolved at n{}, which is in the searched set {:?}", o.node, nodes_of(s))));
            }
            if !stops.contains(&(o.node, o.line)) {
                return Err(fail(
                    "unresolved/not-where-the-walk-stops",
                    format!("line {i} is left unresolved at n{}:{} but following carried-over lines the walk can only stop at {stops:?}", o.node, o.line),
                ));
            }
            if dmask & bit(o.node) != 0 {
                info.err_inside_domain += 1;
            }
        }
    }
    Ok(info)
}

// ---------------------------------------------------------------------------------------
// Building and enumerating
// ---------------------------------------------------------------------------------------

fn signature(ts: i64) -> Signature {
    Signature {
        name: "c38".to_string(),
        email: "c38@example.com".to_string(),
        timestamp: Timestamp { timestamp: MillisSinceEpoch(ts), tz_offset: 0 },
    }
}

fn write_node(mut_repo: &mut MutableRepo, tree: &MergedTree, parents: Vec<CommitId>, depth: usize) -> Commit {
    let sig = signature(1000 * depth as i64);
    mut_repo
        .new_commit(parents, tree.clone())
        .set_description(format!("n{depth}"))
        .set_author(sig.clone())
        .set_committer(sig)
        .write()
        .block_on()
        .unwrap_or_else(|e| machinery_failure(&format!("cannot write commit: {e}")))
}

/// `::start & files(path)` according to the real engine, as a node mask
fn files_mask(repo: &dyn Repo, ids: &[CommitId], start: usize) -> u32 {
    let predicate = RevsetFilterPredicate::File(FilesetExpression::file_path(repo_path(FILE).to_owned()));
    let expr = Rx::commit(ids[start].clone()).ancestors().filtered(predicate);
    let revset = expr.evaluate(repo).unwrap_or_else(|e| machinery_failure(&format!("files(): {e}")));
    let got: Vec<_> = revset.stream().collect::<Vec<_>>().block_on();
    let mut m = 0;
    for id in got {
        let id = id.unwrap_or_else(|e| machinery_failure(&format!("files(): {e}")));
        let node = ids.iter().position(|x| *x == id).unwrap_or_else(|| machinery_failure("files() yields a commit outside the history"));
        m |= bit(node);
    }
    m
}

/// Where `files(path)` is decidable without a tree merge (single-parent commits), it must say
/// what the versions say. (For a merge commit the parents' auto-merge can be a conflict even
/// when all parents have the same version -- criss-cross merges with two different bases --,
/// so merges are not cross-checked.)
fn sanity_files(g: &G, files: u32, start: usize) {
    for c in nodes_of(g.anc[start]) {
        if c == 0 || g.parents[c].len() != 1 {
            continue;
        }
        let pv: BTreeSet<usize> = g.parents[c].iter().map(|&p| g.version[p]).collect();
        if pv.len() == 1 {
            let changed = *pv.iter().next().unwrap() != g.version[c];
            if changed != (files & bit(c) != 0) {
                machinery_failure(&format!(
                    "files(path) disagrees with the versions at n{c} (parents' version {:?}, own {:?})",
                    VERSIONS[*pv.iter().next().unwrap()],
                    VERSIONS[g.version[c]]
                ));
            }
        }
    }
}

struct Stats {
    histories: Counter,
    cases: Counter,
    nontrivial: Counter,
    lines: Counter,
    lines_to_ancestors: Counter,
    err_lines: Counter,
    err_inside_domain: Counter,
    ambiguous_lines: Counter,
    cases_with_indirect: Counter,
    cases_with_transitive: Counter,
    cases_with_merge: Counter,
    histories_with_merge: Counter,
    histories_merge_changes_file: Counter,
    searched_commits: Counter,
}

struct Plan {
    n: usize,
    /// indices into VERSIONS
    alphabet: Vec<usize>,
}

struct Run<'a> {
    ctx: &'a Ctx,
    st: &'a Stats,
    samples: &'a Samples,
    carry: &'a Carry,
}

fn history_json(g: &G) -> Vec<NodeSpec> {
    (1..=g.n).map(|i| NodeSpec { parents: g.parents[i].clone(), content: VERSIONS[g.version[i]].map(|s| s.to_string()) }).collect()
}

fn domains(n: usize) -> Vec<Domain> {
    let mut v = vec![Domain::All, Domain::AncestorsOfStart, Domain::None];
    for x in 0..n {
        v.push(Domain::Range(x));
    }
    v
}

impl Run<'_> {
    /// all checks for the history that ends at the newest node of `nodes`
    fn check_history(&self, repo: &dyn Repo, nodes: &[(Vec<usize>, usize)], commits: &[Commit], ids: &[CommitId]) {
        let st = self.st;
        let g = G::new(nodes);
        let start = g.n;
        st.histories.inc();
        let has_merge = g.parents.iter().any(|p| p.len() >= 2);
        if has_merge {
            st.histories_with_merge.inc();
        }
        let files = files_mask(repo, ids, start);
        sanity_files(&g, files, start);
        if (1..=g.n).any(|c| g.parents[c].len() >= 2 && files & bit(c) != 0) {
            st.histories_merge_changes_file.inc();
        }
        for d in domains(g.n) {
            st.cases.inc();
            match check_case(repo, &g, self.carry, commits, ids, start, &d, files) {
                Ok(info) => {
                    st.lines.add(info.lines as u64);
                    st.lines_to_ancestors.add(info.lines_to_ancestors as u64);
                    st.err_lines.add(info.err_lines as u64);
                    st.err_inside_domain.add(info.err_inside_domain as u64);
                    st.ambiguous_lines.add(info.ambiguous_lines as u64);
                    st.searched_commits.add(info.searched as u64);
                    if info.lines_to_ancestors + info.err_lines > 0 {
                        st.nontrivial.inc();
                    }
                    if info.has_indirect {
                        st.cases_with_indirect.inc();
                    }
                    if info.has_transitive {
                        st.cases_with_transitive.inc();
                    }
                    if info.has_merge_in_searched {
                        st.cases_with_merge.inc();
                        if info.lines_to_ancestors >= 2 && g.n >= 3 {
                            self.samples.offer(|| json!({"history": history_json(&g), "start": start, "domain": d}));
                        }
                    }
                }
                Err(f) => self.ctx.violation(&f.sig, f.msg, json!({"history": history_json(&g), "start": start, "domain": d})),
            }
        }
    }
}

struct Shard<'a> {
    run: &'a Run<'a>,
    plan: &'a Plan,
    trees: Vec<MergedTree>,
    tx: jj_lib::transaction::Transaction,
    root: Commit,
}

impl Shard<'_> {
    /// depth-first over the trie of histories below `nodes` (which is already written)
    fn descend(&mut self, nodes: &mut Vec<(Vec<usize>, usize)>, commits: &mut Vec<Commit>, ids: &mut Vec<CommitId>, check_self: bool) {
        if check_self {
            self.run.check_history(self.tx.repo(), nodes, commits, ids);
        }
        if nodes.len() == self.plan.n {
            return;
        }
        let i = nodes.len() + 1;
        for ps in parent_choices(i) {
            for &v in &self.plan.alphabet {
                self.push(nodes, commits, ids, &ps, v);
                self.descend(nodes, commits, ids, true);
                nodes.pop();
                commits.pop();
                ids.pop();
            }
        }
    }

    fn push(&mut self, nodes: &mut Vec<(Vec<usize>, usize)>, commits: &mut Vec<Commit>, ids: &mut Vec<CommitId>, ps: &[usize], v: usize) {
        let depth = nodes.len() + 1;
        let parent_ids: Vec<CommitId> = ps.iter().map(|&p| ids[p].clone()).collect();
        let commit = write_node(self.tx.repo_mut(), &self.trees[v], parent_ids, depth);
        nodes.push((ps.to_vec(), v));
        ids.push(commit.id().clone());
        commits.push(commit);
        let _ = &self.root;
    }
}

/// parent sets of node i (1-based): 1 or 2 parents among root (0, only alone) and 1..i-1
fn parent_choices(i: usize) -> Vec<Vec<usize>> {
    // the same enumeration as vcommon::enumerate::dags with max_parents = 2: subsets of the
    // i - 1 earlier nodes of size <= 2, the empty set meaning "child of the root"
    subsets_up_to(i - 1, 2)
        .into_iter()
        .map(|s| if s.is_empty() { vec![0] } else { s.into_iter().map(|p| p + 1).collect() })
        .collect()
}

/// One shard = one repository = all histories that start with `prefix` (up to 3 nodes).
fn run_shard(run: &Run, plan: &Plan, prefix: &[(Vec<usize>, usize)], check_prefixes_from: usize) {
    let test_repo = TestRepo::init_with_backend(testutils::TestRepoBackend::Simple);
    let repo0 = test_repo.repo.clone();
    let path = repo_path(FILE);
    let trees: Vec<MergedTree> = VERSIONS
        .iter()
        .map(|v| match v {
            Some(text) => create_tree(&repo0, &[(path, text)]),
            None => repo0.store().empty_merged_tree(),
        })
        .collect();
    let root = repo0.store().root_commit();
    let tx = repo0.start_transaction();
    let mut shard = Shard { run, plan, trees, tx, root: root.clone() };
    let mut nodes = vec![];
    let mut commits = vec![root.clone()];
    let mut ids = vec![root.id().clone()];
    for (k, (ps, v)) in prefix.iter().enumerate() {
        shard.push(&mut nodes, &mut commits, &mut ids, ps, *v);
        if k + 1 >= check_prefixes_from && k + 1 < prefix.len() {
            run.check_history(shard.tx.repo(), &nodes, &commits, &ids);
        }
    }
    shard.descend(&mut nodes, &mut commits, &mut ids, true);
    drop(test_repo);
}

fn run_plan(run: &Run, plan: &Plan) {
    // Shards: every prefix of d = min(3, n - 1) nodes gets its own repository (a repository with
    // many thousands of heads makes every revset evaluation slow). A shorter prefix (k < d
    // nodes) is checked by the first shard that extends it, i.e. the one whose choices after
    // position k are all the first ones.
    let depth = plan.n.saturating_sub(1).clamp(1, 3);
    let mut shards: Vec<(Vec<(Vec<usize>, usize)>, usize)> = vec![];
    fn rec(plan: &Plan, depth: usize, prefix: &mut Vec<(Vec<usize>, usize)>, last_nonzero: usize, out: &mut Vec<(Vec<(Vec<usize>, usize)>, usize)>) {
        if prefix.len() == depth {
            out.push((prefix.clone(), last_nonzero.max(1)));
            return;
        }
        let pos = prefix.len() + 1;
        let mut idx = 0;
        for ps in parent_choices(pos) {
            for &v in &plan.alphabet {
                prefix.push((ps.clone(), v));
                rec(plan, depth, prefix, if idx == 0 { last_nonzero } else { pos }, out);
                prefix.pop();
                idx += 1;
            }
        }
    }
    rec(plan, depth, &mut vec![], 0, &mut shards);
    shards.par_iter().for_each(|(prefix, from)| run_shard(run, plan, prefix, *from));
}

fn replay(carry: &Carry, case: &Value) -> Result<(), Fail> {
    let history: Vec<NodeSpec> = serde_json::from_value(case["history"].clone())
        .unwrap_or_else(|e| machinery_failure(&format!("bad replay history: {e}")));
    let start: usize = serde_json::from_value(case["start"].clone()).unwrap_or_else(|e| machinery_failure(&format!("bad replay start: {e}")));
    let d: Domain = serde_json::from_value(case["domain"].clone()).unwrap_or_else(|e| machinery_failure(&format!("bad replay domain: {e}")));
    let nodes: Vec<(Vec<usize>, usize)> = history
        .iter()
        .map(|ns| {
            let v = VERSIONS
                .iter()
                .position(|x| x.map(|s| s.to_string()) == ns.content)
                .unwrap_or_else(|| machinery_failure("replay content is not in the version alphabet"));
            (ns.parents.clone(), v)
        })
        .collect();
    let g = G::new(&nodes);
    let test_repo = TestRepo::init_with_backend(testutils::TestRepoBackend::Simple);
    let repo0 = test_repo.repo.clone();
    let path = repo_path(FILE);
    let root = repo0.store().root_commit();
    let mut tx = repo0.start_transaction();
    let mut commits = vec![root.clone()];
    let mut ids = vec![root.id().clone()];
    for (i, (ps, v)) in nodes.iter().enumerate() {
        let tree = match VERSIONS[*v] {
            Some(text) => create_tree(&repo0, &[(path, text)]),
            None => repo0.store().empty_merged_tree(),
        };
        let parent_ids = ps.iter().map(|&p| ids[p].clone()).collect();
        let c = write_node(tx.repo_mut(), &tree, parent_ids, i + 1);
        ids.push(c.id().clone());
        commits.push(c);
    }
    if start != g.n {
        machinery_failure("replay: the start must be the newest commit of the history");
    }
    let files = files_mask(tx.repo(), &ids, start);
    sanity_files(&g, files, start);
    check_case(tx.repo(), &g, carry, &commits, &ids, start, &d, files).map(|_| ())
}

fn main() {
    let ctx = Ctx::from_args("C38", Level::Exploration);
    vcommon::silence_panics();
    let carry = Carry::new();
    if let Some((_sig, case)) = ctx.replay_case() {
        if let Err(f) = replay(&carry, &case) {
            ctx.violation(&f.sig, f.msg, case);
        }
        ctx.finish(Coverage { evaluations: 1, ..Default::default() });
    }
    let full: Vec<usize> = (0..VERSIONS.len()).collect();
    let plans: Vec<Plan> = ctx.pick(
        vec![Plan { n: 3, alphabet: full.clone() }, Plan { n: 4, alphabet: vec![0, 1, 2, 3, 4] }],
        vec![Plan { n: 4, alphabet: full.clone() }, Plan { n: 5, alphabet: vec![0, 1, 2, 3] }],
    );
    let st = Stats {
        histories: Counter::new(),
        cases: Counter::new(),
        nontrivial: Counter::new(),
        lines: Counter::new(),
        lines_to_ancestors: Counter::new(),
        err_lines: Counter::new(),
        err_inside_domain: Counter::new(),
        ambiguous_lines: Counter::new(),
        cases_with_indirect: Counter::new(),
        cases_with_transitive: Counter::new(),
        cases_with_merge: Counter::new(),
        histories_with_merge: Counter::new(),
        histories_merge_changes_file: Counter::new(),
        searched_commits: Counter::new(),
    };
    let samples = Samples::new(5);
    let run = Run { ctx: &ctx, st: &st, samples: &samples, carry: &carry };
    let mut plan_desc = vec![];
    for plan in &plans {
        let (h0, c0, t0) = (st.histories.get(), st.cases.get(), ctx.elapsed_s());
        run_plan(&run, plan);
        plan_desc.push(json!({
            "commits_up_to": plan.n,
            "versions": plan.alphabet.iter().map(|&v| VERSIONS[v]).collect::<Vec<_>>(),
            "histories": st.histories.get() - h0,
            "annotations": st.cases.get() - c0,
            "wall_s": ((ctx.elapsed_s() - t0) * 10.0).round() / 10.0,
        }));
    }
    if ctx.violation_count() == 0 {
        for (name, c) in [
            ("lines_to_ancestors", &st.lines_to_ancestors),
            ("err_lines", &st.err_lines),
            ("ambiguous_lines", &st.ambiguous_lines),
            ("cases_with_indirect", &st.cases_with_indirect),
            ("cases_with_transitive", &st.cases_with_transitive),
            ("cases_with_merge", &st.cases_with_merge),
            ("histories_merge_changes_file", &st.histories_merge_changes_file),
        ] {
            if c.get() == 0 {
                machinery_failure(&format!("vacuous: counter {name} is zero"));
            }
        }
    }
    let mut extra: BTreeMap<String, Value> = BTreeMap::new();
    extra.insert("plans".into(), json!(plan_desc));
    extra.insert("histories".into(), json!(st.histories.get()));
    extra.insert("histories_with_a_merge".into(), json!(st.histories_with_merge.get()));
    extra.insert("histories_where_a_merge_commit_changes_the_file".into(), json!(st.histories_merge_changes_file.get()));
    extra.insert("lines_checked".into(), json!(st.lines.get()));
    extra.insert("lines_attributed_to_a_proper_ancestor".into(), json!(st.lines_to_ancestors.get()));
    extra.insert("lines_left_unresolved_(Err)".into(), json!(st.err_lines.get()));
    extra.insert("unresolved_lines_pointing_at_a_commit_inside_the_domain_that_does_not_touch_the_file".into(), json!(st.err_inside_domain.get()));
    extra.insert("lines_with_more_than_one_acceptable_origin".into(), json!(st.ambiguous_lines.get()));
    extra.insert("annotations_whose_searched_graph_has_an_indirect_edge".into(), json!(st.cases_with_indirect.get()));
    extra.insert("annotations_whose_searched_graph_has_a_transitive_edge".into(), json!(st.cases_with_transitive.get()));
    extra.insert("annotations_whose_searched_graph_has_a_merge".into(), json!(st.cases_with_merge.get()));
    extra.insert("searched_commits_total".into(), json!(st.searched_commits.get()));
    extra.insert("version_pairs_where_diff_argument_order_or_repetition_changes_the_matching".into(), json!(carry.pairs_where_orders_disagree));
    let cov = Coverage {
        evaluations: st.cases.get(),
        distinct_nontrivial: st.nontrivial.get(),
        rule: "case = (history [every sequence of <= n commits, each with 1-2 parents among the earlier ones or the root \
               and any version of the file from the plan's alphabet; built once in a trie of real commits], start = the \
               newest commit, domain [all(), ::start, none(), x..start for every other commit x incl. the root]); each \
               case is generated once and is one FileAnnotator::from_commit + compute + to_annotation; non-trivial = at \
               least one line is attributed to a proper ancestor or left unresolved at one (a line was really followed \
               through a diff)"
            .into(),
        samples: samples.take(),
        exhaustive: true,
        extra,
        assumptions: vec![
            "files(path) membership of each commit is taken from the real revset engine (lower layer, C19/C22); it is cross-checked against the versions for every single-parent commit".into(),
            "'carried over' is defined by ContentDiff::by_line (C03), evaluated in both argument orders, 4 times each".into(),
            "the graph of the searched set (nearest searched ancestors, missing-edge targets) is the reference of C39; an edge to a nearest searched ancestor that is also reachable through another one may be dropped as transitive".into(),
            "every (history, start) pair is covered as the history on the ancestors of the start with the start newest; unrelated commits of the same repository (other histories of the trie) sit between them in the index".into(),
            "domains are ancestor-closed from the start (jj documents that non-contiguous domains may mask changes); a single compute() call per annotation".into(),
            "an Err origin may point at a commit inside the domain that does not touch the file when all of its parents are outside the domain (counted)".into(),
        ],
        ..Default::default()
    };
    ctx.finish(cov);
}

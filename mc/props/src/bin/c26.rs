//! C26 — Edits after a command finished are always detected.
//!
//! jj decides "this tracked file is unchanged, do not read it" from three values only: the
//! (type, size, mtime) it recorded for the file (`a` = recorded mtime), the mtime of its own
//! state file `.jj/working_copy/tree_state` as read back by the next process (`b`), and the
//! stat of the file now (`c` = mtime after the user's edit). All are truncated to
//! milliseconds and only compared with `==` and `<`. An edit made after the state was saved
//! satisfies a <= b <= c, so the order types a=b=c, a=b<c, a<b=c, a<b<c are all there is.
//!
//! This check realises every order type at several clock granularities by forcing the
//! mtimes of the file and of `tree_state` with utimensat (the recorded value `a` is the file's
//! real mtime by construction), for both ways jj can have learned the file (written by
//! `check_out`, recorded by `snapshot`), three snapshot code paths (root directory, nested
//! directory, tracked file inside a git-ignored directory) and four same-size edits (content
//! change, symlink retarget of equal length, executable-bit flip without any mtime change,
//! content change with the mtime put back to `a`), runs the real `snapshot()` through a
//! `Workspace` (which reloads the tree state from disk) and demands that the returned tree
//! contains the new content / target / bit.
//!
//! The last edit kind with a < b is a forged timestamp (c < b), not a coarse clock; it is not
//! claimed by the statement, is expected to go unnoticed and is only counted. With a = b (at
//! millisecond precision) it is indistinguishable from an honest coarse clock and must be
//! detected.

use std::collections::BTreeMap;
use std::ffi::CString;
use std::os::unix::ffi::OsStrExt as _;
use std::os::unix::fs::PermissionsExt as _;
use std::path::Path;
use std::path::PathBuf;
use std::time::Duration;
use std::time::SystemTime;

use jj_lib::backend::TreeValue;
use jj_lib::config::ConfigLayer;
use jj_lib::config::ConfigSource;
use jj_lib::local_working_copy::FileType;
use jj_lib::local_working_copy::LocalWorkingCopy;
use jj_lib::merged_tree::MergedTree;
use jj_lib::repo::Repo as _;
use jj_lib::settings::UserSettings;
use pollster::FutureExt as _;
use rayon::prelude::*;
use serde_json::Value;
use serde_json::json;
use testutils::TestRepoBackend;
use testutils::TestTreeBuilder;
use testutils::TestWorkspace;
use testutils::commit_with_tree;
use testutils::repo_path;
use vcommon::Counter;
use vcommon::Coverage;
use vcommon::Ctx;
use vcommon::Level;
use vcommon::Samples;
use vcommon::catch;
use vcommon::machinery_failure;

// ---------------------------------------------------------------------------------------
// the space

#[derive(Clone, Copy, Debug, PartialEq, Eq)]
enum Order {
    /// a = b = c
    Eee,
    /// a = b < c
    Eel,
    /// a < b = c
    Lee,
    /// a < b < c
    Lll,
}
const ORDERS: [Order; 4] = [Order::Eee, Order::Eel, Order::Lee, Order::Lll];

impl Order {
    fn name(self) -> &'static str {
        match self {
            Order::Eee => "a=b=c",
            Order::Eel => "a=b<c",
            Order::Lee => "a<b=c",
            Order::Lll => "a<b<c",
        }
    }
    fn ab_strict(self) -> bool {
        matches!(self, Order::Lee | Order::Lll)
    }
    fn bc_strict(self) -> bool {
        matches!(self, Order::Eel | Order::Lll)
    }
}

/// The size of one strict step of the clock.
#[derive(Clone, Copy, Debug, PartialEq, Eq)]
enum Gran {
    /// distinct nanoseconds inside one millisecond: jj sees them as equal
    SubMs,
    Ms,
    TenMs,
    Sec,
    TwoSec,
}

impl Gran {
    fn name(self) -> &'static str {
        match self {
            Gran::SubMs => "sub-ms",
            Gran::Ms => "1ms",
            Gran::TenMs => "10ms",
            Gran::Sec => "1s",
            Gran::TwoSec => "2s",
        }
    }
    fn step_ns(self) -> u128 {
        match self {
            Gran::SubMs => 100_000,
            Gran::Ms => 1_000_000,
            Gran::TenMs => 10_000_000,
            Gran::Sec => 1_000_000_000,
            Gran::TwoSec => 2_000_000_000,
        }
    }
}

#[derive(Clone, Copy, Debug, PartialEq, Eq)]
enum Route {
    /// jj wrote the file itself (`check_out`) and recorded the mtime it read back
    Checkout,
    /// the user wrote the file, a `snapshot` recorded it
    Snapshot,
}

impl Route {
    fn name(self) -> &'static str {
        match self {
            Route::Checkout => "checkout",
            Route::Snapshot => "snapshot",
        }
    }
}

#[derive(Clone, Copy, Debug, PartialEq, Eq)]
enum Edit {
    Content,
    Symlink,
    ExecFlip,
    /// same-size content change, mtime put back to exactly the recorded one
    Forged,
}
const EDITS: [Edit; 4] = [Edit::Content, Edit::Symlink, Edit::ExecFlip, Edit::Forged];

impl Edit {
    fn name(self) -> &'static str {
        match self {
            Edit::Content => "content",
            Edit::Symlink => "symlink",
            Edit::ExecFlip => "exec-flip",
            Edit::Forged => "content-mtime-restored",
        }
    }
}

#[derive(Clone, Copy, Debug, PartialEq, Eq)]
enum Place {
    Root,
    Nested,
    /// tracked file below a directory that `.gitignore` ignores (`visit_tracked_files`)
    IgnoredDir,
}
const PLACES: [Place; 3] = [Place::Root, Place::Nested, Place::IgnoredDir];

impl Place {
    fn name(self) -> &'static str {
        match self {
            Place::Root => "root",
            Place::Nested => "nested",
            Place::IgnoredDir => "ignored-dir",
        }
    }
    fn path(self) -> &'static str {
        match self {
            Place::Root => "f",
            Place::Nested => "d/g",
            Place::IgnoredDir => "i/h",
        }
    }
}

/// What jj does between learning the file and the user's edit.
#[derive(Clone, Copy, Debug, PartialEq, Eq)]
enum Between {
    Nothing,
    /// a snapshot that finds nothing to record (the state file is not rewritten)
    IdleSnapshot,
    /// a snapshot that records another, new file (the state file is rewritten, the
    /// recorded state of our file is carried over)
    OtherFileSnapshot,
}
const BETWEENS: [Between; 3] = [Between::Nothing, Between::IdleSnapshot, Between::OtherFileSnapshot];

impl Between {
    fn name(self) -> &'static str {
        match self {
            Between::Nothing => "nothing",
            Between::IdleSnapshot => "idle-snapshot",
            Between::OtherFileSnapshot => "snapshot-of-another-file",
        }
    }
}

#[derive(Clone, Copy, Debug)]
struct Case {
    order: Order,
    gran: Gran,
    route: Route,
    edit: Edit,
    place: Place,
    between: Between,
}

impl Case {
    fn to_json(&self) -> Value {
        json!({
            "order": self.order.name(),
            "granularity": self.gran.name(),
            "learned_by": self.route.name(),
            "edit": self.edit.name(),
            "place": self.place.name(),
            "path": self.place.path(),
            "between": self.between.name(),
        })
    }
    fn from_json(v: &Value) -> Option<Case> {
        let s = |k: &str| v[k].as_str().map(str::to_string);
        let order = *ORDERS.iter().find(|o| Some(o.name().to_string()) == s("order"))?;
        let gran = *[Gran::SubMs, Gran::Ms, Gran::TenMs, Gran::Sec, Gran::TwoSec]
            .iter()
            .find(|o| Some(o.name().to_string()) == s("granularity"))?;
        let route = *[Route::Checkout, Route::Snapshot]
            .iter()
            .find(|o| Some(o.name().to_string()) == s("learned_by"))?;
        let edit = *EDITS.iter().find(|o| Some(o.name().to_string()) == s("edit"))?;
        let place = *PLACES.iter().find(|o| Some(o.name().to_string()) == s("place"))?;
        let between = *BETWEENS.iter().find(|o| Some(o.name().to_string()) == s("between"))?;
        Some(Case { order, gran, route, edit, place, between })
    }
}

// ---------------------------------------------------------------------------------------
// helpers

const OLD_CONTENT: &[u8] = b"old1\n";
const NEW_CONTENT: &[u8] = b"new2\n";
const OLD_TARGET: &str = "tgt-a";
const NEW_TARGET: &str = "tgt-b";
/// 2023-11-14T22:13:20Z, a whole second
const BASE_S: u64 = 1_700_000_000;

fn settings() -> UserSettings {
    let mut config = testutils::base_user_config();
    config.add_layer(
        ConfigLayer::parse(ConfigSource::User, "working-copy.exec-bit-change = \"respect\"\n")
            .unwrap_or_else(|e| machinery_failure(&format!("config: {e}"))),
    );
    UserSettings::from_config(config).unwrap_or_else(|e| machinery_failure(&format!("settings: {e}")))
}

fn ns_of(t: SystemTime) -> u128 {
    t.duration_since(SystemTime::UNIX_EPOCH)
        .unwrap_or_else(|_| machinery_failure("mtime before the epoch"))
        .as_nanos()
}

fn time_of(ns: u128) -> SystemTime {
    SystemTime::UNIX_EPOCH + Duration::new((ns / 1_000_000_000) as u64, (ns % 1_000_000_000) as u32)
}

fn ms_of(ns: u128) -> i64 {
    (ns / 1_000_000) as i64
}

/// Sets the mtime of `path` itself (symlinks are not followed), leaves the atime alone.
fn set_mtime(path: &Path, ns: u128) {
    let c = CString::new(path.as_os_str().as_bytes()).unwrap();
    let times = [
        libc::timespec { tv_sec: 0, tv_nsec: libc::UTIME_OMIT },
        libc::timespec { tv_sec: (ns / 1_000_000_000) as libc::time_t, tv_nsec: (ns % 1_000_000_000) as _ },
    ];
    // SAFETY: valid C string and a two-element timespec array
    let rc = unsafe { libc::utimensat(libc::AT_FDCWD, c.as_ptr(), times.as_ptr(), libc::AT_SYMLINK_NOFOLLOW) };
    if rc != 0 {
        machinery_failure(&format!("utimensat {}: {}", path.display(), std::io::Error::last_os_error()));
    }
    let back = ns_of(
        path.symlink_metadata()
            .and_then(|m| m.modified())
            .unwrap_or_else(|e| machinery_failure(&format!("stat {}: {e}", path.display()))),
    );
    if back != ns {
        machinery_failure(&format!("the file system did not keep the mtime {ns} of {} (got {back})", path.display()));
    }
}

fn mtime_ns(path: &Path) -> u128 {
    ns_of(
        path.symlink_metadata()
            .and_then(|m| m.modified())
            .unwrap_or_else(|e| machinery_failure(&format!("stat {}: {e}", path.display()))),
    )
}

fn write_object(disk: &Path, edit: Edit, new: bool) {
    if let Some(parent) = disk.parent() {
        std::fs::create_dir_all(parent).unwrap_or_else(|e| machinery_failure(&format!("mkdir: {e}")));
    }
    match edit {
        Edit::Symlink => {
            let _ = std::fs::remove_file(disk);
            std::os::unix::fs::symlink(if new { NEW_TARGET } else { OLD_TARGET }, disk)
                .unwrap_or_else(|e| machinery_failure(&format!("symlink: {e}")));
        }
        _ => {
            // in place: same inode, like an editor that rewrites the file
            std::fs::write(disk, if new { NEW_CONTENT } else { OLD_CONTENT })
                .unwrap_or_else(|e| machinery_failure(&format!("write: {e}")));
        }
    }
}

#[derive(Debug, Clone, PartialEq, Eq)]
enum Seen {
    Old,
    New,
    Other(String),
}

fn observe(tree: &MergedTree, case: &Case) -> Seen {
    let path = repo_path(case.place.path());
    let value = tree
        .path_value(path)
        .block_on()
        .unwrap_or_else(|e| machinery_failure(&format!("path_value: {e}")));
    let Some(Some(value)) = value.as_resolved() else {
        return Seen::Other(format!("{value:?}"));
    };
    match (case.edit, value) {
        (Edit::Symlink, TreeValue::Symlink(id)) => {
            let target = tree
                .store()
                .read_symlink(path, id)
                .block_on()
                .unwrap_or_else(|e| machinery_failure(&format!("read_symlink: {e}")));
            if target == NEW_TARGET {
                Seen::New
            } else if target == OLD_TARGET {
                Seen::Old
            } else {
                Seen::Other(format!("symlink to {target}"))
            }
        }
        (Edit::ExecFlip, TreeValue::File { id, executable, .. }) => {
            let content = testutils::read_file(tree.store(), path, id);
            if content != OLD_CONTENT {
                Seen::Other(format!("content {:?}", String::from_utf8_lossy(&content)))
            } else if *executable {
                Seen::New
            } else {
                Seen::Old
            }
        }
        (Edit::Content | Edit::Forged, TreeValue::File { id, executable, .. }) => {
            let content = testutils::read_file(tree.store(), path, id);
            if *executable {
                Seen::Other("executable".into())
            } else if content == NEW_CONTENT {
                Seen::New
            } else if content == OLD_CONTENT {
                Seen::Old
            } else {
                Seen::Other(format!("content {:?}", String::from_utf8_lossy(&content)))
            }
        }
        (_, other) => Seen::Other(format!("{other:?}")),
    }
}

struct Outcome {
    detected: bool,
    must_detect: bool,
    /// the stat of the edited file equals the recorded state in type, size and
    /// millisecond mtime: only the comparison with the state file's mtime can reveal the edit
    stat_identical: bool,
    /// a, b, c as jj sees them (milliseconds)
    ms: (i64, i64, i64),
}

struct Failure {
    signature: String,
    message: String,
}

fn run_case(case: &Case) -> Result<Outcome, Failure> {
    let settings = settings();
    let mut ws = TestWorkspace::init_with_backend_and_settings(TestRepoBackend::Simple, &settings);
    let root: PathBuf = ws.workspace.workspace_root().to_owned();
    let rpath = repo_path(case.place.path());
    let disk = rpath
        .to_fs_path(&root)
        .unwrap_or_else(|e| machinery_failure(&format!("fs path: {e}")));
    let state_file = root.join(".jj").join("working_copy").join("tree_state");
    let describe = || format!("{}", case.to_json());
    let fail = |what: &str, e: String| Failure {
        signature: format!("C26/{what}"),
        message: format!("{what}: {e}; case {}", describe()),
    };

    // ---- jj learns the file ------------------------------------------------------------
    let a_ns: u128 = match case.route {
        Route::Checkout => {
            let store = ws.repo.store().clone();
            let mut b = TestTreeBuilder::new(store.clone());
            match case.edit {
                Edit::Symlink => b.symlink(rpath, OLD_TARGET),
                _ => {
                    b.file(rpath, OLD_CONTENT);
                }
            }
            if case.place == Place::IgnoredDir {
                b.file(repo_path(".gitignore"), "i/\n");
            }
            let commit = commit_with_tree(&store, b.write_merged_tree());
            let op_id = ws.repo.op_id().clone();
            catch(|| ws.workspace.check_out(op_id, None, &commit).block_on())
                .map_err(|e| fail("checkout-panic", e))?
                .map_err(|e| fail("checkout-error", e.to_string()))?;
            mtime_ns(&disk)
        }
        Route::Snapshot => {
            write_object(&disk, case.edit, false);
            // a whole second for the coarse granularities, room inside the millisecond for
            // the sub-millisecond one
            let a = BASE_S as u128 * 1_000_000_000 + if case.gran == Gran::SubMs { 100_000 } else { 0 };
            set_mtime(&disk, a);
            let tree = catch(|| ws.snapshot())
                .map_err(|e| fail("snapshot-panic", e))?
                .map_err(|e| fail("snapshot-error", e.to_string()))?;
            if observe(&tree, case) != Seen::Old {
                machinery_failure(&format!("the recording snapshot did not record the file: {}", describe()));
            }
            if case.place == Place::IgnoredDir {
                // now ignore the directory: the file stays tracked and is visited through
                // `visit_tracked_files` from now on
                std::fs::write(root.join(".gitignore"), "i/\n")
                    .unwrap_or_else(|e| machinery_failure(&format!("write: {e}")));
                let tree = catch(|| ws.snapshot())
                    .map_err(|e| fail("snapshot-panic", e))?
                    .map_err(|e| fail("snapshot-error", e.to_string()))?;
                if observe(&tree, case) != Seen::Old {
                    machinery_failure(&format!("the file did not stay tracked in the ignored directory: {}", describe()));
                }
            }
            a
        }
    };
    // ---- more jj commands before the edit ------------------------------------------------
    match case.between {
        Between::Nothing => {}
        Between::IdleSnapshot | Between::OtherFileSnapshot => {
            if case.between == Between::OtherFileSnapshot {
                std::fs::write(root.join("z"), "another file\n")
                    .unwrap_or_else(|e| machinery_failure(&format!("write: {e}")));
            }
            let tree = catch(|| ws.snapshot())
                .map_err(|e| fail("snapshot-panic", e))?
                .map_err(|e| fail("snapshot-error", e.to_string()))?;
            if observe(&tree, case) != Seen::Old {
                machinery_failure(&format!("an intermediate snapshot changed the file's value: {}", describe()));
            }
        }
    }
    // what did jj record?
    let recorded = {
        let wc: &LocalWorkingCopy = ws
            .workspace
            .working_copy()
            .downcast_ref()
            .unwrap_or_else(|| machinery_failure("not a LocalWorkingCopy"));
        wc.file_states()
            .unwrap_or_else(|e| machinery_failure(&format!("file_states: {e}")))
            .get(rpath)
            .unwrap_or_else(|| machinery_failure(&format!("no file state recorded: {}", describe())))
    };
    if recorded.mtime.0 != ms_of(a_ns) {
        machinery_failure(&format!(
            "recorded mtime {} is not the file's mtime {} ({})",
            recorded.mtime.0,
            ms_of(a_ns),
            describe()
        ));
    }
    if (recorded.file_type == FileType::Symlink) != (case.edit == Edit::Symlink) {
        machinery_failure(&format!("recorded file type {:?}: {}", recorded.file_type, describe()));
    }

    // ---- the clock -----------------------------------------------------------------------
    let step = match case.gran {
        // stay inside a's millisecond
        Gran::SubMs => {
            let room = 999_999 - a_ns % 1_000_000;
            case.gran.step_ns().min(room / 2)
        }
        g => g.step_ns(),
    };
    let b_ns = a_ns + if case.order.ab_strict() { step } else { 0 };
    let c_ns = b_ns + if case.order.bc_strict() { step } else { 0 };
    if !state_file.is_file() {
        machinery_failure(&format!("no state file at {}", state_file.display()));
    }
    set_mtime(&state_file, b_ns);

    // ---- the user's edit, after jj saved its state -------------------------------------
    let effective_c_ns = match case.edit {
        Edit::Content | Edit::Symlink => {
            write_object(&disk, case.edit, true);
            set_mtime(&disk, c_ns);
            c_ns
        }
        Edit::ExecFlip => {
            // chmod changes the ctime only
            std::fs::set_permissions(&disk, std::fs::Permissions::from_mode(0o755))
                .unwrap_or_else(|e| machinery_failure(&format!("chmod: {e}")));
            let now = mtime_ns(&disk);
            if now != a_ns {
                machinery_failure("chmod changed the mtime");
            }
            a_ns
        }
        Edit::Forged => {
            write_object(&disk, case.edit, true);
            set_mtime(&disk, a_ns);
            a_ns
        }
    };
    let meta = disk
        .symlink_metadata()
        .unwrap_or_else(|e| machinery_failure(&format!("stat: {e}")));
    let stat_identical = case.edit != Edit::ExecFlip
        && meta.len() == recorded.size
        && ms_of(effective_c_ns) == recorded.mtime.0;
    if meta.len() != recorded.size {
        machinery_failure(&format!("the edit changed the size: {}", describe()));
    }
    let ms = (ms_of(a_ns), ms_of(b_ns), ms_of(effective_c_ns));
    // claimed by the statement: every edit whose timestamp is honest (c >= b at the
    // precision jj sees), plus anything that has no timestamp of its own (chmod)
    let must_detect = match case.edit {
        Edit::Content | Edit::Symlink | Edit::ExecFlip => true,
        Edit::Forged => ms.0 == ms.1,
    };

    // ---- the next command ------------------------------------------------------------------
    let tree = catch(|| ws.snapshot())
        .map_err(|e| fail("snapshot-panic", e))?
        .map_err(|e| fail("snapshot-error", e.to_string()))?;
    let seen = observe(&tree, case);
    let ms_order = match (ms.0 < ms.1, ms.1 < ms.2, ms.2 < ms.1) {
        (_, _, true) => "c<b",
        (false, false, _) => "a=b=c",
        (false, true, _) => "a=b<c",
        (true, false, _) => "a<b=c",
        (true, true, _) => "a<b<c",
    };
    match seen {
        Seen::New => Ok(Outcome { detected: true, must_detect, stat_identical, ms }),
        Seen::Old => {
            if must_detect {
                Err(Failure {
                    signature: format!("C26/{}/{}/{}/missed", case.route.name(), case.edit.name(), ms_order),
                    message: format!(
                        "edit made after the state save was not seen by the next snapshot: {} (ms: recorded a={} state file b={} \
                         file now c={}, same size {}, place {})",
                        describe(),
                        ms.0,
                        ms.1,
                        ms.2,
                        recorded.size,
                        case.place.name()
                    ),
                })
            } else {
                Ok(Outcome { detected: false, must_detect, stat_identical, ms })
            }
        }
        Seen::Other(what) => Err(Failure {
            signature: format!("C26/{}/{}/unexpected-value", case.route.name(), case.edit.name()),
            message: format!("snapshot recorded neither the old nor the new value ({what}): {}", describe()),
        }),
    }
}

fn main() {
    let ctx = Ctx::from_args("C26", Level::Exploration);
    vcommon::silence_panics();
    if let Some((_sig, case)) = ctx.replay_case() {
        let Some(c) = Case::from_json(&case) else {
            machinery_failure("replay file does not describe a C26 case");
        };
        if let Err(f) = run_case(&c) {
            ctx.violation(&f.signature, f.message, case);
        }
        ctx.finish(Coverage { evaluations: 1, ..Default::default() });
    }

    // the space is small: both tiers run all of it (thorough repeats it three times to show
    // that the verdict does not depend on where the real clock happened to be)
    let grans: Vec<Gran> = vec![Gran::SubMs, Gran::Ms, Gran::TenMs, Gran::Sec, Gran::TwoSec];
    let repeats = ctx.pick(1, 3);
    let mut cases = vec![];
    for &order in &ORDERS {
        for &gran in &grans {
            for route in [Route::Checkout, Route::Snapshot] {
                for &edit in &EDITS {
                    for &place in &PLACES {
                        for &between in &BETWEENS {
                            cases.push(Case { order, gran, route, edit, place, between });
                        }
                    }
                }
            }
        }
    }

    // determinism gate: one case twice
    {
        let probe = Case { order: Order::Eee, gran: Gran::Ms, route: Route::Snapshot, edit: Edit::Content, place: Place::Root, between: Between::Nothing };
        let r1 = run_case(&probe).map(|o| (o.detected, o.stat_identical)).map_err(|f| f.signature);
        let r2 = run_case(&probe).map(|o| (o.detected, o.stat_identical)).map_err(|f| f.signature);
        if r1 != r2 {
            machinery_failure(&format!("nondeterministic probe: {r1:?} vs {r2:?}"));
        }
    }

    let evals = Counter::new();
    let claimed = Counter::new();
    let only_own_mtime = Counter::new();
    let forged_unclaimed = Counter::new();
    let forged_unclaimed_detected = Counter::new();
    let samples = Samples::new(6);
    let per_ms_order: std::sync::Mutex<BTreeMap<String, u64>> = std::sync::Mutex::new(BTreeMap::new());
    let runs: Vec<(usize, &Case)> = (0..repeats).flat_map(|r| cases.iter().map(move |c| (r, c))).collect();
    runs.par_iter().for_each(|&(rep, case)| {
        evals.inc();
        match run_case(case) {
            Ok(o) => {
                let key = format!(
                    "{}{}",
                    if o.ms.0 < o.ms.1 { "a<b" } else { "a=b" },
                    if o.ms.1 < o.ms.2 {
                        "<c"
                    } else if o.ms.1 == o.ms.2 {
                        "=c"
                    } else {
                        ">c"
                    }
                );
                *per_ms_order.lock().unwrap().entry(key).or_insert(0) += 1;
                if o.must_detect {
                    claimed.inc();
                    if o.stat_identical && rep == 0 {
                        only_own_mtime.inc();
                        samples.offer(|| case.to_json());
                    }
                } else {
                    forged_unclaimed.inc();
                    if o.detected {
                        forged_unclaimed_detected.inc();
                    }
                }
            }
            Err(f) => ctx.violation(&f.signature, f.message, case.to_json()),
        }
    });

    // vacuity: the racy cases (only the state file's mtime can tell) must really occur, and
    // the unclaimed forged cases must really be the ones jj cannot see (otherwise the
    // harness is not controlling the timestamps it thinks it controls)
    if ctx.violation_count() == 0 {
        if only_own_mtime.get() == 0 {
            machinery_failure("no case in which the edited file's stat equals the recorded state: the space is vacuous");
        }
        if forged_unclaimed.get() == 0 || forged_unclaimed_detected.get() != 0 {
            machinery_failure(&format!(
                "forged-timestamp control cases: {} run, {} detected (expected > 0 run, 0 detected): the harness does not \
                 control the timestamps",
                forged_unclaimed.get(),
                forged_unclaimed_detected.get()
            ));
        }
    }

    let mut extra: BTreeMap<String, Value> = BTreeMap::new();
    extra.insert("distinct_cases".into(), json!(cases.len()));
    extra.insert("repeats_of_the_whole_space".into(), json!(repeats));
    extra.insert("granularities".into(), json!(grans.iter().map(|g| g.name()).collect::<Vec<_>>()));
    extra.insert("claimed_cases_all_detected".into(), json!(claimed.get()));
    extra.insert("cases_where_only_the_state_file_mtime_reveals_the_edit".into(), json!(only_own_mtime.get()));
    extra.insert("forged_timestamp_control_cases_not_claimed".into(), json!(forged_unclaimed.get()));
    extra.insert("forged_timestamp_control_cases_detected".into(), json!(forged_unclaimed_detected.get()));
    extra.insert("cases_per_order_type_at_millisecond_precision".into(), json!(*per_ms_order.lock().unwrap()));
    println!(
        "[C26] cases={} claimed={} stat-identical(racy)={} forged-unclaimed={} (detected {}) per-order={:?}",
        evals.get(),
        claimed.get(),
        only_own_mtime.get(),
        forged_unclaimed.get(),
        forged_unclaimed_detected.get(),
        per_ms_order.lock().unwrap()
    );
    let cov = Coverage {
        evaluations: evals.get(),
        distinct_nontrivial: only_own_mtime.get(),
        rule: format!(
            "4 order types of (recorded mtime a, state-file mtime b, mtime after the edit c) x {} clock granularities x \
             {{written by check_out, recorded by snapshot}} x {{same-size content change, equal-length symlink retarget, \
             exec-bit flip, content change with mtime restored to a}} x {{root file, nested file, tracked file in an ignored \
             directory}} x {{nothing, an idle snapshot, a snapshot recording another file}} between learning the file and \
             the edit; each combination is run once; non-trivial = the statement claims detection and the edited file's \
             (type, size, millisecond mtime) equals what jj recorded, so only the comparison with the state file's mtime can \
             reveal the edit",
            grans.len()
        ),
        samples: samples.take(),
        exhaustive: true,
        extra,
        assumptions: vec![
            "the clean/dirty decision uses a, b, c only through == and < after truncation to milliseconds, so the order types \
             are complete for it (parametricity in the clock values); the granularities only vary how a strict step is realised"
                .into(),
            "time is monotone and the edit happens after the state file was written (a <= b <= c); edits made while jj is \
             running are not claimed"
                .into(),
            "the next command reloads the tree state from disk (Workspace::start_working_copy_mutation always does)".into(),
            "a same-size edit whose mtime is put back to a value older than the state file (forged, c < b) is not claimed; it \
             is run as a control and must go unnoticed"
                .into(),
        ],
        ..Default::default()
    };
    ctx.finish(cov);
}

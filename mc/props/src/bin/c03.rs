//! C03 — Content diffs partition their inputs deterministically.
//!
//! Bounded-exhaustive over (i) every byte string up to a length over a small alphabet
//! (text, whitespace of every kind, CR, NUL, a two-byte UTF-8 character) as each of 2 / 3
//! inputs, (ii) every sequence of lines up to a length over a small line alphabet as each
//! of 1 / 2 / 3 / 4 inputs, (iii) a finite family around the `max_occurrences = 100`
//! threshold of the histogram; crossed with every tokenizer stack (unrefined, line, word,
//! word+non-word, line+word+non-word) and every comparison (exact, ignore all whitespace,
//! ignore whitespace amount). Each case is diffed R times (each `ContentDiff` draws a fresh
//! `RandomState`) and the hunk lists must be identical.

use std::ops::Range;

use jj_core::diff::CompareBytes;
use jj_core::diff::CompareBytesExactly;
use jj_core::diff::CompareBytesIgnoreAllWhitespace;
use jj_core::diff::CompareBytesIgnoreWhitespaceAmount;
use jj_core::diff::ContentDiff;
use jj_core::diff::DiffHunkKind;
use jj_core::diff::find_line_ranges;
use jj_core::diff::find_nonword_ranges;
use jj_core::diff::find_word_ranges;
use rayon::prelude::*;
use serde_json::Value;
use serde_json::json;
use vcommon::Counter;
use vcommon::Coverage;
use vcommon::Ctx;
use vcommon::Level;
use vcommon::Samples;
use vcommon::catch;

#[derive(Clone, Copy, PartialEq, Eq, Debug)]
enum Tok {
    Unrefined,
    Line,
    Word,
    WordNonword,
    LineWordNonword,
}

#[derive(Clone, Copy, PartialEq, Eq, Debug)]
enum Cmp {
    Exact,
    IgnoreAll,
    IgnoreAmount,
}

#[derive(Clone, Copy, PartialEq, Eq, Debug)]
struct Mode {
    tok: Tok,
    cmp: Cmp,
}

impl Tok {
    fn name(self) -> &'static str {
        match self {
            Tok::Unrefined => "unrefined",
            Tok::Line => "line",
            Tok::Word => "word",
            Tok::WordNonword => "word+nonword",
            Tok::LineWordNonword => "line+word+nonword",
        }
    }
    fn parse(s: &str) -> Option<Tok> {
        [Tok::Unrefined, Tok::Line, Tok::Word, Tok::WordNonword, Tok::LineWordNonword]
            .into_iter()
            .find(|t| t.name() == s)
    }
}

impl Cmp {
    fn name(self) -> &'static str {
        match self {
            Cmp::Exact => "exact",
            Cmp::IgnoreAll => "ignore-all-space",
            Cmp::IgnoreAmount => "ignore-space-amount",
        }
    }
    fn parse(s: &str) -> Option<Cmp> {
        [Cmp::Exact, Cmp::IgnoreAll, Cmp::IgnoreAmount].into_iter().find(|t| t.name() == s)
    }
}

fn all_modes() -> Vec<Mode> {
    let mut v = vec![Mode { tok: Tok::Unrefined, cmp: Cmp::Exact }];
    for tok in [Tok::Line, Tok::Word, Tok::WordNonword, Tok::LineWordNonword] {
        for cmp in [Cmp::Exact, Cmp::IgnoreAll, Cmp::IgnoreAmount] {
            v.push(Mode { tok, cmp });
        }
    }
    v
}

// ---------------------------------------------------------------------------------------
// The code under test
// ---------------------------------------------------------------------------------------

fn build_with<'a, C: CompareBytes + Clone>(inputs: &[&'a [u8]], tok: Tok, c: C) -> ContentDiff<'a> {
    let it = inputs.iter().copied();
    match tok {
        Tok::Unrefined => ContentDiff::for_tokenizer(it, |_| vec![], c),
        Tok::Line => ContentDiff::for_tokenizer(it, find_line_ranges, c),
        Tok::Word => ContentDiff::for_tokenizer(it, find_word_ranges, c),
        Tok::WordNonword => {
            let mut d = ContentDiff::for_tokenizer(it, find_word_ranges, c.clone());
            d.refine_changed_regions(find_nonword_ranges, c);
            d
        }
        Tok::LineWordNonword => {
            let mut d = ContentDiff::for_tokenizer(it, find_line_ranges, c.clone());
            d.refine_changed_regions(find_word_ranges, c.clone());
            d.refine_changed_regions(find_nonword_ranges, c);
            d
        }
    }
}

fn build<'a>(inputs: &[&'a [u8]], mode: Mode) -> ContentDiff<'a> {
    match mode.cmp {
        Cmp::Exact => build_with(inputs, mode.tok, CompareBytesExactly),
        Cmp::IgnoreAll => build_with(inputs, mode.tok, CompareBytesIgnoreAllWhitespace),
        Cmp::IgnoreAmount => build_with(inputs, mode.tok, CompareBytesIgnoreWhitespaceAmount),
    }
}

/// The convenience constructors that fix tokenizer + exact comparison.
fn build_named<'a>(inputs: &[&'a [u8]], tok: Tok) -> Option<ContentDiff<'a>> {
    let it = inputs.iter().copied();
    match tok {
        Tok::Unrefined => Some(ContentDiff::unrefined(it)),
        Tok::Line => Some(ContentDiff::by_line(it)),
        Tok::WordNonword => Some(ContentDiff::by_word(it)),
        _ => None,
    }
}

type Hunks = Vec<(bool, Vec<Range<usize>>)>; // (is_matching, one range per input)

fn observe_ranges(diff: &ContentDiff<'_>) -> Hunks {
    diff.hunk_ranges()
        .map(|h| (h.kind == DiffHunkKind::Matching, h.ranges.iter().cloned().collect()))
        .collect()
}

// ---------------------------------------------------------------------------------------
// Reference comparison, written from the doc comments of the three comparators
// ---------------------------------------------------------------------------------------

fn is_space(b: u8) -> bool {
    // ASCII whitespace: space, tab, line feed, form feed, carriage return
    b == b' ' || b == b'\t' || b == b'\n' || b == 0x0c || b == b'\r'
}

fn normal_form(text: &[u8], cmp: Cmp) -> Vec<u8> {
    match cmp {
        Cmp::Exact => text.to_vec(),
        Cmp::IgnoreAll => text.iter().copied().filter(|b| !is_space(*b)).collect(),
        Cmp::IgnoreAmount => {
            let mut out = vec![];
            let mut i = 0;
            while i < text.len() {
                if is_space(text[i]) {
                    out.push(b' ');
                    while i < text.len() && is_space(text[i]) {
                        i += 1;
                    }
                } else {
                    out.push(text[i]);
                    i += 1;
                }
            }
            out
        }
    }
}

// ---------------------------------------------------------------------------------------
// Oracle
// ---------------------------------------------------------------------------------------

#[derive(Default, Clone, Copy)]
struct Info {
    matching: usize,
    different: usize,
    /// a matching hunk whose sides are equal under the comparison but not byte-identical
    loose_match: bool,
    /// a different hunk in which all sides are byte-identical (text the tokenizer skipped)
    equal_different: bool,
}

type Fail = (String, String);

fn show(b: &[u8]) -> String {
    format!("{:?}", bstr::BStr::new(b))
}

fn check_partition(inputs: &[&[u8]], mode: Mode, diff: &ContentDiff<'_>) -> Result<(Hunks, Info), Fail> {
    let sig = |clause: &str| format!("C03/{}/{}/{}", clause, mode.tok.name(), mode.cmp.name());
    let desc = |what: String| {
        format!(
            "{} [{}; {}] inputs {:?}",
            what,
            mode.tok.name(),
            mode.cmp.name(),
            inputs.iter().map(|i| show(i)).collect::<Vec<_>>()
        )
    };
    let ranges = observe_ranges(diff);
    let hunks: Vec<(bool, Vec<Vec<u8>>)> = diff
        .hunks()
        .map(|h| {
            (
                h.kind == DiffHunkKind::Matching,
                h.contents.iter().map(|c| c.to_vec()).collect(),
            )
        })
        .collect();
    // (e) hunks() and hunk_ranges() describe the same thing
    if ranges.len() != hunks.len() {
        return Err((sig("ranges-vs-hunks"), desc(format!("{} range hunks, {} content hunks", ranges.len(), hunks.len()))));
    }
    let n = inputs.len();
    let mut info = Info::default();
    let mut pos = vec![0usize; n];
    let mut concat: Vec<Vec<u8>> = vec![vec![]; n];
    let mut prev_kind: Option<bool> = None;
    for (idx, ((rk, rr), (hk, hc))) in ranges.iter().zip(&hunks).enumerate() {
        if rk != hk || rr.len() != n || hc.len() != n {
            return Err((sig("ranges-vs-hunks"), desc(format!("hunk {idx}: kind/arity differ: ranges {rr:?} contents {hc:?}"))));
        }
        for i in 0..n {
            let r = &rr[i];
            // (a) contiguous, in bounds, starting where the previous hunk stopped
            if r.start != pos[i] || r.end < r.start || r.end > inputs[i].len() {
                return Err((
                    sig("reconstruction"),
                    desc(format!("hunk {idx} input {i}: range {r:?} does not continue at {} (len {})", pos[i], inputs[i].len())),
                ));
            }
            pos[i] = r.end;
            if hc[i] != inputs[i][r.clone()] {
                return Err((sig("ranges-vs-hunks"), desc(format!("hunk {idx} input {i}: content {} is not input[{r:?}]", show(&hc[i])))));
            }
            concat[i].extend_from_slice(&hc[i]);
        }
        // (c) not empty on every side
        if hc.iter().all(|c| c.is_empty()) {
            return Err((sig("empty-hunk"), desc(format!("hunk {idx} is empty on every side ({})", if *hk { "matching" } else { "different" }))));
        }
        // (d) kinds alternate
        if prev_kind == Some(*hk) {
            return Err((sig("alternation"), desc(format!("hunks {} and {idx} are both {}", idx - 1, if *hk { "matching" } else { "different" }))));
        }
        prev_kind = Some(*hk);
        if *hk {
            info.matching += 1;
            // (b) equal under the chosen comparison
            let first = normal_form(&hc[0], mode.cmp);
            for c in &hc[1..] {
                if normal_form(c, mode.cmp) != first {
                    return Err((
                        sig("matching-not-equal"),
                        desc(format!("matching hunk {idx} has sides {} and {}", show(&hc[0]), show(c))),
                    ));
                }
                if *c != hc[0] {
                    info.loose_match = true;
                }
            }
        } else {
            info.different += 1;
            if n > 1 && hc.iter().all(|c| *c == hc[0]) {
                info.equal_different = true;
            }
        }
    }
    for i in 0..n {
        if pos[i] != inputs[i].len() || concat[i] != inputs[i] {
            return Err((
                sig("reconstruction"),
                desc(format!("input {i}: hunks cover {} of {} bytes, concatenation {}", pos[i], inputs[i].len(), show(&concat[i]))),
            ));
        }
    }
    Ok((ranges, info))
}

fn check_case(inputs: &[&[u8]], mode: Mode, runs: usize) -> Result<Info, Fail> {
    let sig = |clause: &str| format!("C03/{}/{}/{}", clause, mode.tok.name(), mode.cmp.name());
    let r = catch(|| -> Result<Info, Fail> {
        let first = build(inputs, mode);
        let (ranges, info) = check_partition(inputs, mode, &first)?;
        // (f) the hunks are the same on every run; every ContentDiff draws a fresh RandomState
        for run in 1..runs {
            let again = build(inputs, mode);
            let ranges2 = observe_ranges(&again);
            if ranges2 != ranges {
                // make sure the second observation is a legal partition as well before blaming
                // determinism (a different, more specific clause would fire otherwise)
                check_partition(inputs, mode, &again)?;
                return Err((
                    sig("nondeterministic"),
                    format!(
                        "run 0 and run {run} differ [{}; {}] inputs {:?}: {:?} vs {:?}",
                        mode.tok.name(),
                        mode.cmp.name(),
                        inputs.iter().map(|i| show(i)).collect::<Vec<_>>(),
                        ranges,
                        ranges2
                    ),
                ));
            }
        }
        // the named constructors are the same diff as the explicit tokenizer stack
        if mode.cmp == Cmp::Exact {
            if let Some(named) = build_named(inputs, mode.tok) {
                let ranges2 = observe_ranges(&named);
                if ranges2 != ranges {
                    check_partition(inputs, mode, &named)?;
                    return Err((
                        sig("nondeterministic"),
                        format!(
                            "named constructor differs from for_tokenizer [{}] inputs {:?}: {:?} vs {:?}",
                            mode.tok.name(),
                            inputs.iter().map(|i| show(i)).collect::<Vec<_>>(),
                            ranges,
                            ranges2
                        ),
                    ));
                }
            }
            if mode.tok == Tok::LineWordNonword {
                let via_fn = jj_core::diff::diff(inputs.iter().copied());
                let direct: Vec<_> = first.hunks().collect();
                if via_fn != direct {
                    return Err((
                        sig("nondeterministic"),
                        format!(
                            "diff() differs from the explicit line+word+nonword stack, inputs {:?}",
                            inputs.iter().map(|i| show(i)).collect::<Vec<_>>()
                        ),
                    ));
                }
            }
        }
        Ok(info)
    });
    match r {
        Ok(r) => r,
        Err(panic) => Err((
            sig("panic"),
            format!(
                "panic {panic} [{}; {}] inputs {:?}",
                mode.tok.name(),
                mode.cmp.name(),
                inputs.iter().map(|i| show(i)).collect::<Vec<_>>()
            ),
        )),
    }
}

fn case_json(inputs: &[&[u8]], mode: Mode, runs: usize) -> Value {
    json!({
        "inputs": inputs.iter().map(|i| i.to_vec()).collect::<Vec<_>>(),
        "inputs_readable": inputs.iter().map(|i| show(i)).collect::<Vec<_>>(),
        "tokenizer": mode.tok.name(),
        "comparison": mode.cmp.name(),
        "runs": runs,
    })
}

// ---------------------------------------------------------------------------------------
// Enumerated spaces
// ---------------------------------------------------------------------------------------

/// Every concatenation of at most `max_len` symbols, shortest first, without duplicates.
fn strings_over(symbols: &[&[u8]], max_len: usize) -> Vec<Vec<u8>> {
    let mut out: Vec<Vec<u8>> = vec![];
    vcommon::enumerate::sequences(symbols.len(), max_len, |seq| {
        let mut s = vec![];
        for &i in seq {
            s.extend_from_slice(symbols[i]);
        }
        out.push(s);
    });
    let mut seen = std::collections::BTreeSet::new();
    out.retain(|s| seen.insert(s.clone()));
    out
}

const BYTE_SYMBOLS: &[&[u8]] = &[b"a", b"b", b" ", b"\t", b"\n", b"\r", b"\0", "\u{e9}".as_bytes()];
const LINE_SYMBOLS: &[&[u8]] = &[b"A\n", b"B\n", b"C\n", b"A", b" A\n"];
const LINE_SYMBOLS_ABC: &[&[u8]] = &[b"A\n", b"B\n", b"C\n"];

struct Stats {
    evals: Counter,
    nontrivial: Counter,
    with_matching: Counter,
    multi_matching: Counter,
    loose_match: Counter,
    equal_different: Counter,
    nontrivial_3plus: Counter,
    samples: Samples,
}

struct Runner<'a> {
    ctx: &'a Ctx,
    stats: &'a Stats,
    modes: Vec<Mode>,
    runs: usize,
}

impl Runner<'_> {
    fn run(&self, inputs: &[&[u8]]) {
        for &mode in &self.modes {
            self.run_mode(inputs, mode);
        }
    }

    fn run_mode(&self, inputs: &[&[u8]], mode: Mode) {
        let st = self.stats;
        st.evals.inc();
        match check_case(inputs, mode, self.runs) {
            Ok(info) => {
                if info.matching > 0 {
                    st.with_matching.inc();
                }
                if info.matching >= 2 {
                    st.multi_matching.inc();
                }
                if info.loose_match {
                    st.loose_match.inc();
                }
                if info.equal_different {
                    st.equal_different.inc();
                }
                if info.matching > 0 && info.different > 0 {
                    st.nontrivial.inc();
                    if inputs.len() >= 3 {
                        st.nontrivial_3plus.inc();
                    }
                    // which cases are *shown* is picked by a hash of the case so that the samples
                    // are spread over the families (every case is run regardless)
                    if info.matching >= 2 && inputs.iter().fold(0u64, |h, i| h.rotate_left(7) ^ vcommon::fnv(i)) % 200_003 == mode.tok as u64 {
                        st.samples.offer(|| case_json(inputs, mode, self.runs));
                    }
                }
            }
            Err((sig, msg)) => self.ctx.violation(&sig, msg, case_json(inputs, mode, self.runs)),
        }
    }

    /// Every ordered tuple of `arity` strings from `pool`, except the tuples made only of
    /// strings in `covered` (those were enumerated by an earlier family).
    fn tuples(&self, pool: &[Vec<u8>], arity: usize, covered: &std::collections::BTreeSet<Vec<u8>>) -> u64 {
        let before = self.stats.evals.get();
        let is_covered: Vec<bool> = pool.iter().map(|s| covered.contains(s)).collect();
        let head = arity.min(2);
        let mut heads: Vec<Vec<usize>> = vec![];
        vcommon::enumerate::odometer(&vec![pool.len(); head], |t| {
            heads.push(t.to_vec());
            true
        });
        heads.par_iter().for_each(|h| {
            let mut idx: Vec<usize> = h.clone();
            let tail_dims = vec![pool.len(); arity - head];
            let mut visit = |tail: &[usize]| {
                idx.truncate(head);
                idx.extend_from_slice(tail);
                if idx.iter().all(|&i| is_covered[i]) {
                    return;
                }
                let inputs: Vec<&[u8]> = idx.iter().map(|&i| &pool[i][..]).collect();
                self.run(&inputs);
            };
            if tail_dims.is_empty() {
                visit(&[]);
            } else {
                vcommon::enumerate::odometer(&tail_dims, |t| {
                    visit(t);
                    true
                });
            }
        });
        self.stats.evals.get() - before
    }
}

fn repeat(unit: &[u8], n: usize) -> Vec<u8> {
    let mut v = Vec::with_capacity(unit.len() * n);
    for _ in 0..n {
        v.extend_from_slice(unit);
    }
    v
}

fn main() {
    let ctx = Ctx::from_args("C03", Level::Exploration);
    vcommon::silence_panics();
    if let Some((_sig, case)) = ctx.replay_case() {
        let inputs: Vec<Vec<u8>> = serde_json::from_value(case["inputs"].clone())
            .unwrap_or_else(|e| vcommon::machinery_failure(&format!("bad replay case: {e}")));
        let tok = case["tokenizer"].as_str().and_then(Tok::parse);
        let cmp = case["comparison"].as_str().and_then(Cmp::parse);
        let (Some(tok), Some(cmp)) = (tok, cmp) else {
            vcommon::machinery_failure("bad replay case: tokenizer/comparison");
        };
        // a nondeterminism finding may need more than the recorded number of runs to show again
        let runs = (case["runs"].as_u64().unwrap_or(2) as usize).max(16);
        let refs: Vec<&[u8]> = inputs.iter().map(|v| v.as_slice()).collect();
        if let Err((sig, msg)) = check_case(&refs, Mode { tok, cmp }, runs) {
            ctx.violation(&sig, msg, case);
        }
        ctx.finish(Coverage { evaluations: 1, ..Default::default() });
    }

    // bounds -----------------------------------------------------------------------------
    let byte_len2 = ctx.pick(3, 4); // 2 inputs, symbols per input
    let byte_len3 = 2; // 3 inputs
    let line_len2 = ctx.pick(4, 5); // 2 inputs, 5-line alphabet
    let line_len2_abc = ctx.pick(5, 6); // 2 inputs, {A,B,C} lines only
    let line_len3 = 2; // 3 inputs, 5-line alphabet
    let line_len3_abc = ctx.pick(2, 3); // 3 inputs, {A,B,C} lines only
    let line_len4 = ctx.pick(1, 2); // 4 inputs, 5-line alphabet
    let line_len4_abc = ctx.pick(2, 3); // 4 inputs, {A,B,C} lines only
    let runs = ctx.pick(2, 3);

    let stats = Stats {
        evals: Counter::new(),
        nontrivial: Counter::new(),
        with_matching: Counter::new(),
        multi_matching: Counter::new(),
        loose_match: Counter::new(),
        equal_different: Counter::new(),
        nontrivial_3plus: Counter::new(),
        samples: Samples::new(10),
    };
    let runner = Runner { ctx: &ctx, stats: &stats, modes: all_modes(), runs };
    let mut extra: Vec<(String, Value)> = vec![];
    let mut family = |name: &str, symbols: &[&[u8]], max_len: usize, arity: usize, covered: &[Vec<u8>]| {
        let pool = strings_over(symbols, max_len);
        let covered: std::collections::BTreeSet<Vec<u8>> = covered.iter().cloned().collect();
        let cases = runner.tuples(&pool, arity, &covered);
        extra.push((
            format!("family_{name}"),
            json!({"strings": pool.len(), "max_symbols_per_string": max_len, "inputs": arity, "cases_incl_modes": cases,
                   "elapsed_s": (ctx.elapsed_s() * 10.0).round() / 10.0}),
        ));
        pool
    };

    // (i) byte level
    family("bytes_2_inputs", BYTE_SYMBOLS, byte_len2, 2, &[]);
    family("bytes_3_inputs", BYTE_SYMBOLS, byte_len3, 3, &[]);
    family("bytes_1_input", BYTE_SYMBOLS, byte_len2, 1, &[]);

    // (ii) token level; the {A,B,C}-only families go further and skip what was already covered
    let l2 = family("lines_2_inputs", LINE_SYMBOLS, line_len2, 2, &[]);
    family("lines_abc_2_inputs", LINE_SYMBOLS_ABC, line_len2_abc, 2, &l2);
    let l3 = family("lines_3_inputs", LINE_SYMBOLS, line_len3, 3, &[]);
    family("lines_abc_3_inputs", LINE_SYMBOLS_ABC, line_len3_abc, 3, &l3);
    let l4 = family("lines_4_inputs", LINE_SYMBOLS, line_len4, 4, &[]);
    family("lines_abc_4_inputs", LINE_SYMBOLS_ABC, line_len4_abc, 4, &l4);
    family("lines_1_input", LINE_SYMBOLS, line_len2, 1, &[]);

    // (iii) the max_occurrences = 100 threshold: T^n against T^m X T^k (and the same with a
    // second frequent token), in both orders, for line-shaped and word-shaped tokens
    {
        let before = stats.evals.get();
        let counts = [0usize, 1, 99, 100, 101, 102];
        let mut pairs: Vec<(Vec<u8>, Vec<u8>)> = vec![];
        for (t, u, x) in [(&b"T\n"[..], &b"U\n"[..], &b"X\n"[..]), (&b"t "[..], &b"u "[..], &b"x "[..])] {
            for &n in &counts {
                for &m in &counts {
                    for &k in &counts {
                        let left = repeat(t, n);
                        let mut right = repeat(t, m);
                        right.extend_from_slice(x);
                        right.extend_from_slice(&repeat(t, k));
                        pairs.push((left.clone(), right.clone()));
                        pairs.push((right, left));
                        // two frequent tokens: T^n U^m against U^m T^k
                        let mut l2 = repeat(t, n);
                        l2.extend_from_slice(&repeat(u, m));
                        let mut r2 = repeat(u, m);
                        r2.extend_from_slice(&repeat(t, k));
                        pairs.push((l2, r2));
                    }
                }
                // no distinguishing token at all
                for &m in &counts {
                    pairs.push((repeat(t, n), repeat(t, m)));
                }
            }
        }
        pairs.sort();
        pairs.dedup();
        pairs.par_iter().for_each(|(a, b)| runner.run(&[&a[..], &b[..]]));
        // three inputs around the threshold
        let mut triples: Vec<[Vec<u8>; 3]> = vec![];
        for &n in &[99usize, 100, 101] {
            for &m in &[99usize, 100, 101] {
                for &k in &[1usize, 100, 101] {
                    let mut b = repeat(b"T\n", m);
                    b.extend_from_slice(b"X\n");
                    let mut c = b"X\n".to_vec();
                    c.extend_from_slice(&repeat(b"T\n", k));
                    triples.push([repeat(b"T\n", n), b, c]);
                }
            }
        }
        triples.par_iter().for_each(|t| runner.run(&[&t[0][..], &t[1][..], &t[2][..]]));
        extra.push((
            "family_threshold".into(),
            json!({"pairs": pairs.len(), "triples": triples.len(), "cases_incl_modes": stats.evals.get() - before,
                   "counts": counts, "elapsed_s": (ctx.elapsed_s() * 10.0).round() / 10.0}),
        ));
    }

    // vacuity: every clause must have been exercised
    if stats.nontrivial.get() == 0
        || stats.multi_matching.get() == 0
        || stats.loose_match.get() == 0
        || stats.nontrivial_3plus.get() == 0
    {
        vcommon::machinery_failure("vacuous run: some class of cases never occurred");
    }

    extra.push(("runs_per_case".into(), json!(runs)));
    extra.push(("seed_dimension".into(), json!(format!(
        "sampled: every case is diffed {runs} times, each ContentDiff (and each refinement of each changed \
         region) draws a fresh std RandomState; the 128-bit hasher key itself is not enumerable"
    ))));
    extra.push(("modes".into(), json!(all_modes().iter().map(|m| format!("{}/{}", m.tok.name(), m.cmp.name())).collect::<Vec<_>>())));
    extra.push(("cases_with_a_matching_hunk".into(), json!(stats.with_matching.get())));
    extra.push(("cases_with_two_or_more_matching_hunks".into(), json!(stats.multi_matching.get())));
    extra.push(("cases_with_matching_hunk_equal_only_modulo_whitespace".into(), json!(stats.loose_match.get())));
    extra.push(("cases_with_different_hunk_of_identical_sides".into(), json!(stats.equal_different.get())));
    extra.push(("nontrivial_cases_with_3_or_4_inputs".into(), json!(stats.nontrivial_3plus.get())));
    extra.push(("bounds".into(), json!({
        "byte_symbols": BYTE_SYMBOLS.iter().map(|s| show(s)).collect::<Vec<_>>(),
        "line_symbols": LINE_SYMBOLS.iter().map(|s| show(s)).collect::<Vec<_>>(),
        "byte_len_2_inputs": byte_len2, "byte_len_3_inputs": byte_len3,
        "line_len_2_inputs": line_len2, "line_len_2_inputs_abc": line_len2_abc,
        "line_len_3_inputs": line_len3, "line_len_3_inputs_abc": line_len3_abc,
        "line_len_4_inputs": line_len4, "line_len_4_inputs_abc": line_len4_abc,
    })));

    let cov = Coverage {
        evaluations: stats.evals.get(),
        distinct_nontrivial: stats.nontrivial.get(),
        rule: "one evaluation = one (input tuple, tokenizer stack, comparison), diffed runs_per_case times and \
               checked for reconstruction, contiguity, comparator-equality of matching hunks, no all-empty hunk, \
               alternation, hunks() = hunk_ranges(), identical hunks on every run. Input tuples: every ordered \
               tuple of strings of a family (see family_* and bounds); the families use disjoint letters, so no \
               non-empty tuple is generated twice. Non-trivial = the diff has at least one matching and at least \
               one different hunk (the partition is not the trivial one)"
            .into(),
        samples: stats.samples.take(),
        exhaustive: true,
        extra: extra.into_iter().collect(),
        assumptions: vec![
            "determinism clause: exhaustive in the inputs, sampled in the per-diff random hasher key".into(),
            "the reference comparison treats space, tab, LF, FF, CR as whitespace (ASCII whitespace)".into(),
            "inputs longer than the stated bounds (realistic files) are outside the bound".into(),
        ],
        ..Default::default()
    };
    ctx.finish(cov);
}

//! C44 — Text truncation and wrapping respect the width.
//!
//! Bounded-exhaustive: every string of <= L scalar values over an 11-symbol alphabet (narrow,
//! wide, precomposed, combining, zero-width, emoji, control, whitespace) x every width 0..=W
//! x every ellipsis / fill of a small set (x every single label range for the recorder based
//! functions) is run through the real `jj_cli::text_util` functions and judged by a
//! char-by-char reference (sum of per-scalar widths, prefix/suffix decomposition).
//!
//! Width of control characters: the statement does not define it (`char::width()` is `None`,
//! `str::width()` of unicode-width 0.2 says 1). A case with control characters is a violation
//! only if the clauses fail under *both* interpretations (0 and 1), i.e. if there is no
//! consistent reading under which the output is right; the signature then ends in
//! `/control-chars`.

use std::io::Write as _;

use jj_cli::formatter::FormatRecorder;
use jj_cli::formatter::Formatter;
use jj_cli::formatter::PlainTextFormatter;
use jj_cli::text_util;
use rayon::prelude::*;
use serde_json::Value;
use serde_json::json;
use unicode_width::UnicodeWidthChar as _;
use unicode_width::UnicodeWidthStr as _;
use vcommon::Counter;
use vcommon::Coverage;
use vcommon::Ctx;
use vcommon::Level;
use vcommon::Samples;
use vcommon::catch;

const ALPHA: [char; 11] = [
    'a', ' ', '\n', '\t', '一', 'é', '\u{301}', '\u{200B}', '😀', '\u{7}', '-',
];
/// Alphabet of the longer wrap-only enumeration.
const WRAP_ALPHA: [char; 6] = ['a', ' ', '\n', '一', '\u{301}', '\t'];
const ELLIPSES: [&str; 5] = ["", "…", "..", "一", "a\u{301}."];
const FILLS: [&str; 2] = [" ", "-"];
const COMBINING: char = '\u{301}';

#[derive(Clone, Copy, PartialEq, Eq, Debug)]
enum F {
    ElideStart,
    ElideEnd,
    TruncStart,
    TruncEnd,
    PadStart,
    PadEnd,
    PadCenter,
    WrapBytes,
    WriteWrapped,
}

const ALL_F: [F; 9] = [
    F::ElideStart,
    F::ElideEnd,
    F::TruncStart,
    F::TruncEnd,
    F::PadStart,
    F::PadEnd,
    F::PadCenter,
    F::WrapBytes,
    F::WriteWrapped,
];

impl F {
    fn name(self) -> &'static str {
        match self {
            F::ElideStart => "elide_start",
            F::ElideEnd => "elide_end",
            F::TruncStart => "write_truncated_start",
            F::TruncEnd => "write_truncated_end",
            F::PadStart => "write_padded_start",
            F::PadEnd => "write_padded_end",
            F::PadCenter => "write_padded_centered",
            F::WrapBytes => "wrap_bytes",
            F::WriteWrapped => "write_wrapped",
        }
    }
    fn from_name(s: &str) -> Option<F> {
        ALL_F.iter().copied().find(|f| f.name() == s)
    }
    fn idx(self) -> usize {
        ALL_F.iter().position(|f| *f == self).unwrap()
    }
}

#[derive(Clone, Debug)]
struct Case<'a> {
    f: F,
    text: &'a str,
    /// ellipsis or fill (unused for wrap)
    aux: &'a str,
    width: usize,
    /// label range over scalar indices of `text` (recorder based functions only)
    label: Option<(usize, usize)>,
    /// whether the ellipsis / fill recorder is labelled as a whole
    aux_label: bool,
}

impl Case<'_> {
    fn to_json(&self) -> Value {
        json!({
            "fn": self.f.name(),
            "text": self.text,
            "aux": self.aux,
            "width": self.width,
            "label": self.label.map(|(a, b)| vec![a, b]),
            "aux_label": self.aux_label,
        })
    }
}

// ---------------------------------------------------------------------------------------
// reference measure

fn is_ctl(c: char) -> bool {
    c.width().is_none()
}

fn cw(c: char, ctl: usize) -> usize {
    c.width().unwrap_or(ctl)
}

fn w(s: &str, ctl: usize) -> usize {
    s.chars().map(|c| cw(c, ctl)).sum()
}

fn wc(s: &[char], ctl: usize) -> usize {
    s.iter().map(|&c| cw(c, ctl)).sum()
}

// ---------------------------------------------------------------------------------------
// running the real code

struct Outcome {
    out: Vec<u8>,
    ret: Option<usize>,
    /// wrap_bytes: (start, end) offsets of the returned sub-slices, or an error text
    pieces: Result<Vec<(usize, usize)>, String>,
}

fn record(text: &str, label: Option<(usize, usize)>) -> FormatRecorder {
    let mut r = FormatRecorder::new(false);
    let chars: Vec<char> = text.chars().collect();
    let mut buf = [0u8; 4];
    for i in 0..=chars.len() {
        if let Some((a, b)) = label {
            if a == i {
                r.push_label("x");
            }
            if b == i {
                r.pop_label();
            }
        }
        if i < chars.len() {
            r.write_all(chars[i].encode_utf8(&mut buf).as_bytes()).unwrap();
        }
    }
    r
}

fn run(case: &Case) -> Result<Outcome, String> {
    catch(|| {
        let mut out: Vec<u8> = vec![];
        let mut ret = None;
        let mut pieces = Ok(vec![]);
        match case.f {
            F::ElideStart => {
                let (s, wd) = text_util::elide_start(case.text, case.aux, case.width);
                out = s.as_bytes().to_vec();
                ret = Some(wd);
            }
            F::ElideEnd => {
                let (s, wd) = text_util::elide_end(case.text, case.aux, case.width);
                out = s.as_bytes().to_vec();
                ret = Some(wd);
            }
            F::TruncStart | F::TruncEnd | F::PadStart | F::PadEnd | F::PadCenter => {
                let content = record(case.text, case.label);
                let n_aux = case.aux.chars().count();
                let aux = record(case.aux, case.aux_label.then_some((0, n_aux)));
                let mut fm = PlainTextFormatter::new(&mut out);
                let fm: &mut dyn Formatter = &mut fm;
                match case.f {
                    F::TruncStart => {
                        ret = Some(
                            text_util::write_truncated_start(fm, &content, &aux, case.width).unwrap(),
                        );
                    }
                    F::TruncEnd => {
                        ret = Some(
                            text_util::write_truncated_end(fm, &content, &aux, case.width).unwrap(),
                        );
                    }
                    F::PadStart => {
                        text_util::write_padded_start(fm, &content, &aux, case.width).unwrap();
                    }
                    F::PadEnd => {
                        text_util::write_padded_end(fm, &content, &aux, case.width).unwrap();
                    }
                    _ => {
                        text_util::write_padded_centered(fm, &content, &aux, case.width).unwrap();
                    }
                }
            }
            F::WrapBytes => {
                let data = case.text.as_bytes();
                let base = data.as_ptr() as usize;
                let mut v = vec![];
                let mut err = None;
                for p in text_util::wrap_bytes(data, case.width) {
                    let s = p.as_ptr() as usize;
                    if s < base || s + p.len() > base + data.len() {
                        err = Some(format!("piece {:?} is not a sub-slice of the text", p));
                        break;
                    }
                    v.push((s - base, s - base + p.len()));
                }
                pieces = match err {
                    Some(e) => Err(e),
                    None => Ok(v),
                };
            }
            F::WriteWrapped => {
                let content = record(case.text, case.label);
                let mut fm = PlainTextFormatter::new(&mut out);
                text_util::write_wrapped(&mut fm, &content, case.width).unwrap();
            }
        }
        Outcome { out, ret, pieces }
    })
}

// ---------------------------------------------------------------------------------------
// oracles

#[derive(Default, Clone, Copy)]
struct Flags {
    /// the function had to do something (truncate / pad / break a line)
    nontrivial: bool,
    /// truncation left a gap because a wide character did not fit
    wide_at_cut: bool,
    /// the first removed scalar is zero-width or the cut is next to a combining mark
    zero_width_at_cut: bool,
    /// the ellipsis itself was cut
    ellipsis_cut: bool,
    /// only the control-width-1 reading made the case pass
    needed_ctl1: bool,
    /// a line wider than the width consisting of one scalar (allowed by the statement)
    single_scalar_overflow: bool,
}

type Fail = (&'static str, String);

fn show(b: &[u8]) -> String {
    format!("{:?}", String::from_utf8_lossy(b))
}

/// Truncation/elision: `out` must be (suffix of ellipsis)+(suffix of text) [start] or
/// (prefix of text)+(prefix of ellipsis) [end], not wider than `max`, and equal to the text
/// if the text fits.
fn judge_trunc(
    at_start: bool,
    text: &str,
    ell: &str,
    max: usize,
    o: &Outcome,
    ctl: usize,
    fl: &mut Flags,
) -> Result<(), Fail> {
    let Ok(out) = std::str::from_utf8(&o.out) else {
        return Err(("split-char", format!("output {} is not UTF-8", show(&o.out))));
    };
    let ret = o.ret.unwrap();
    let tw = w(text, ctl);
    let ow = w(out, ctl);
    if tw <= max {
        if out != text {
            if at_start && out == text.trim_start_matches(|c: char| c.width().unwrap_or(0) == 0) {
                return Err((
                    "fits-but-leading-zero-width-dropped",
                    format!(
                        "text of width {tw} fits into {max} but its leading zero-width/control characters were dropped: output {out:?}"
                    ),
                ));
            }
            return Err((
                "fits-changed",
                format!("text of width {tw} fits into {max} but the output is {out:?}"),
            ));
        }
        if ret != ow {
            return Err(("returned-width", format!("returned width {ret}, output {out:?} has width {ow}")));
        }
        return Ok(());
    }
    fl.nontrivial = true;
    if ow > max {
        return Err(("too-wide", format!("output {out:?} has width {ow} > {max}")));
    }
    let t: Vec<char> = text.chars().collect();
    let e: Vec<char> = ell.chars().collect();
    let oc: Vec<char> = out.chars().collect();
    // find a decomposition into whole scalars of text and ellipsis
    let mut found = false;
    let mut comb_fail = false;
    for k in 0..=oc.len() {
        // k = number of output scalars that come from the first component
        let (first, second) = oc.split_at(k);
        let (tpart, epart) = if at_start { (second, first) } else { (first, second) };
        if tpart.len() > t.len() || epart.len() > e.len() {
            continue;
        }
        let ok = if at_start {
            t.ends_with(tpart) && e.ends_with(epart)
        } else {
            t.starts_with(tpart) && e.starts_with(epart)
        };
        if !ok {
            continue;
        }
        // combining mark separated from its base by the cut?
        let t_cut_bad;
        let e_cut_bad;
        if at_start {
            t_cut_bad = tpart.len() < t.len() && tpart.first() == Some(&COMBINING);
            e_cut_bad = epart.len() < e.len() && epart.first() == Some(&COMBINING);
        } else {
            t_cut_bad = tpart.len() < t.len() && tpart.len() > 0 && t[tpart.len()] == COMBINING;
            e_cut_bad = epart.len() < e.len() && epart.len() > 0 && e[epart.len()] == COMBINING;
        }
        if t_cut_bad || e_cut_bad {
            comb_fail = true;
            continue;
        }
        found = true;
        // vacuity flags (first valid decomposition)
        if epart.len() < e.len() {
            fl.ellipsis_cut = true;
        }
        if ow < max {
            fl.wide_at_cut = true;
        }
        if tpart.len() < t.len() {
            let removed = if at_start { t[t.len() - tpart.len() - 1] } else { t[tpart.len()] };
            if cw(removed, 0) == 0 && !is_ctl(removed) {
                fl.zero_width_at_cut = true;
            }
        }
        break;
    }
    if !found {
        if comb_fail {
            return Err((
                "combining-mark-separated",
                format!("output {out:?} cuts between a base character and its combining mark"),
            ));
        }
        return Err((
            "not-whole-chars",
            format!("output {out:?} is not (part of the ellipsis)+(part of the text) in whole characters"),
        ));
    }
    if ret != ow {
        return Err(("returned-width", format!("returned width {ret}, output {out:?} has width {ow}")));
    }
    Ok(())
}

fn judge_pad(
    f: F,
    text: &str,
    fill: &str,
    min: usize,
    o: &Outcome,
    ctl: usize,
    fl: &mut Flags,
) -> Result<(), Fail> {
    let Ok(out) = std::str::from_utf8(&o.out) else {
        return Err(("split-char", format!("output {} is not UTF-8", show(&o.out))));
    };
    let tw = w(text, ctl);
    let need = min.saturating_sub(tw);
    if need == 0 {
        if out != text {
            return Err((
                "fits-changed",
                format!("text of width {tw} >= {min} needs no padding but the output is {out:?}"),
            ));
        }
        return Ok(());
    }
    fl.nontrivial = true;
    let ow = w(out, ctl);
    // strip whole fill characters on both sides as far as the function may have added them
    let mut ok = false;
    for left in 0..=need {
        let right = need - left;
        match f {
            F::PadStart if right != 0 => continue,
            F::PadEnd if left != 0 => continue,
            _ => {}
        }
        let expect = format!("{}{}{}", fill.repeat(left), text, fill.repeat(right));
        if out == expect {
            ok = true;
            break;
        }
    }
    if !ok {
        if ow > min {
            return Err(("too-wide", format!("padded output {out:?} has width {ow} > {min}")));
        }
        return Err((
            "not-padded-to-width",
            format!("output {out:?} (width {ow}) is not the text plus {need} fill characters"),
        ));
    }
    Ok(())
}

/// One output line: not wider than `width` unless it is a single scalar (allowed) or an
/// unbreakable word (separate signature).
fn judge_line(line: &str, width: usize, ctl: usize, fl: &mut Flags) -> Result<(), Fail> {
    let lw = w(line, ctl);
    if lw <= width {
        return Ok(());
    }
    if line.chars().count() == 1 {
        fl.single_scalar_overflow = true;
        return Ok(());
    }
    if !line.contains(' ') {
        return Err((
            "unbreakable-word-wider-than-width",
            format!("line {line:?} has width {lw} > {width} (a word without spaces is never broken)"),
        ));
    }
    Err(("line-too-wide", format!("line {line:?} with several words has width {lw} > {width}")))
}

fn trim_sp(s: &str) -> &str {
    s.trim_end_matches(' ')
}

fn judge_wrap_bytes(text: &str, width: usize, o: &Outcome, ctl: usize, fl: &mut Flags) -> Result<(), Fail> {
    let data = text.as_bytes();
    let pieces = match &o.pieces {
        Ok(p) => p,
        Err(e) => return Err(("not-subslice", e.clone())),
    };
    if pieces.is_empty() {
        return Err(("no-output", "wrap_bytes returned no line at all".into()));
    }
    let nl_in = data.iter().filter(|&&b| b == b'\n').count();
    if pieces.len() > nl_in + 1 {
        fl.nontrivial = true;
    }
    // order, gaps, reconstruction
    let mut prev_end = 0usize;
    let mut nl_gaps = 0usize;
    for (i, &(s, e)) in pieces.iter().enumerate() {
        if s < prev_end || e < s {
            return Err(("overlap", format!("piece {i} {s}..{e} overlaps or precedes the previous one (end {prev_end})")));
        }
        let gap = &data[prev_end..s];
        if gap.iter().any(|&b| b != b' ' && b != b'\n') {
            return Err(("text-dropped", format!("bytes {} between lines are dropped", show(gap))));
        }
        let g_nl = gap.iter().filter(|&&b| b == b'\n').count();
        if (i == 0 && g_nl != 0) || g_nl > 1 {
            return Err(("newline-removed", format!("gap {} before line {i} swallows a newline", show(gap))));
        }
        nl_gaps += g_nl;
        let Ok(line) = std::str::from_utf8(&data[s..e]) else {
            return Err(("split-char", format!("line {} is not UTF-8", show(&data[s..e]))));
        };
        if line.contains('\n') {
            return Err(("newline-inside-line", format!("line {line:?} contains a newline")));
        }
        judge_line(line, width, ctl, fl)?;
        prev_end = e;
    }
    let tail = &data[prev_end..];
    if tail.iter().any(|&b| b != b' ') {
        return Err(("text-dropped", format!("trailing bytes {} are dropped", show(tail))));
    }
    if nl_gaps != nl_in {
        return Err(("newline-removed", format!("{nl_in} newlines in, {nl_gaps} line breaks kept")));
    }
    // lines that fit are unchanged (apart from trailing spaces)
    let mut ls = 0usize;
    for line in text.split('\n') {
        let le = ls + line.len();
        if w(line, ctl) <= width {
            let mine: Vec<&(usize, usize)> =
                pieces.iter().filter(|(s, e)| ls <= *s && *e <= le).collect();
            let ok = mine.len() == 1 && {
                let got = &text[mine[0].0..mine[0].1];
                got == line || got == trim_sp(line)
            };
            if !ok {
                return Err((
                    "fits-changed",
                    format!(
                        "input line {line:?} fits into {width} but comes out as {:?}",
                        mine.iter().map(|(s, e)| &text[*s..*e]).collect::<Vec<_>>()
                    ),
                ));
            }
        }
        ls = le + 1;
    }
    Ok(())
}

fn words(s: &str) -> Vec<&str> {
    s.split([' ', '\n']).filter(|x| !x.is_empty()).collect()
}

fn judge_write_wrapped(text: &str, width: usize, o: &Outcome, ctl: usize, fl: &mut Flags) -> Result<(), Fail> {
    let Ok(out) = std::str::from_utf8(&o.out) else {
        return Err(("split-char", format!("output {} is not UTF-8", show(&o.out))));
    };
    let nl_in = text.matches('\n').count();
    let nl_out = out.matches('\n').count();
    if nl_out > nl_in {
        fl.nontrivial = true;
    }
    if nl_out < nl_in {
        return Err(("newline-removed", format!("{nl_in} newlines in, {nl_out} out: {out:?}")));
    }
    if words(text) != words(out) {
        return Err(("text-dropped", format!("the words of the output {out:?} differ from the input's")));
    }
    for line in out.split('\n') {
        judge_line(line, width, ctl, fl)?;
    }
    if text.split('\n').all(|l| w(l, ctl) <= width) {
        let a: Vec<&str> = text.split('\n').map(trim_sp).collect();
        let b: Vec<&str> = out.split('\n').collect();
        let raw: Vec<&str> = text.split('\n').collect();
        let ok = b.len() == raw.len() && (0..b.len()).all(|i| b[i] == raw[i] || b[i] == a[i]);
        if !ok {
            return Err(("fits-changed", format!("every line fits into {width} but the output is {out:?}")));
        }
    }
    Ok(())
}

fn judge(case: &Case, o: &Outcome, ctl: usize, fl: &mut Flags) -> Result<(), Fail> {
    match case.f {
        F::ElideStart | F::TruncStart => judge_trunc(true, case.text, case.aux, case.width, o, ctl, fl),
        F::ElideEnd | F::TruncEnd => judge_trunc(false, case.text, case.aux, case.width, o, ctl, fl),
        F::PadStart | F::PadEnd | F::PadCenter => judge_pad(case.f, case.text, case.aux, case.width, o, ctl, fl),
        F::WrapBytes => judge_wrap_bytes(case.text, case.width, o, ctl, fl),
        F::WriteWrapped => judge_write_wrapped(case.text, case.width, o, ctl, fl),
    }
}

/// Runs one case. `Err((signature, message))` on a violation.
fn eval(case: &Case) -> Result<Flags, (String, String)> {
    let name = case.f.name();
    let o = match run(case) {
        Ok(o) => o,
        Err(p) => return Err((format!("C44/{name}/panic"), format!("{} panicked: {p}", describe(case)))),
    };
    // wrapping splits at newlines before anything is measured, so a newline is not a
    // control character whose width matters there
    let is_wrap = matches!(case.f, F::WrapBytes | F::WriteWrapped);
    let has_ctl = case.text.chars().chain(case.aux.chars()).any(|c| is_ctl(c) && !(is_wrap && c == '\n'));
    let mut fl = Flags::default();
    match judge(case, &o, 0, &mut fl) {
        Ok(()) => Ok(fl),
        Err((clause, msg)) => {
            if has_ctl {
                let mut fl1 = Flags::default();
                match judge(case, &o, 1, &mut fl1) {
                    Ok(()) => {
                        fl1.needed_ctl1 = true;
                        Ok(fl1)
                    }
                    // the same clause fails under both readings: the control characters are
                    // not what the failure is about
                    // (wrapping measures with textwrap's per-char sum, i.e. reading 0,
                    // throughout: its reading-0 failure is the finding)
                    Err((clause1, _)) if clause1 == clause || is_wrap => {
                        Err((format!("C44/{name}/{clause}"), format!("{}: {msg}", describe(case))))
                    }
                    Err((clause1, msg1)) => Err((
                        format!("C44/{name}/{clause}/control-chars"),
                        format!(
                            "{}: counting control characters as width 0: {msg}; as width 1 ({clause1}): {msg1}",
                            describe(case)
                        ),
                    )),
                }
            } else {
                Err((format!("C44/{name}/{clause}"), format!("{}: {msg}", describe(case))))
            }
        }
    }
}

fn describe(case: &Case) -> String {
    match case.f {
        F::WrapBytes | F::WriteWrapped => {
            format!("{}({:?}, width {}, label {:?})", case.f.name(), case.text, case.width, case.label)
        }
        _ => format!(
            "{}({:?}, {:?}, width {}, label {:?}/{})",
            case.f.name(),
            case.text,
            case.aux,
            case.width,
            case.label,
            case.aux_label
        ),
    }
}

// ---------------------------------------------------------------------------------------
// enumeration

fn all_strings(alpha: &[char], max_len: usize) -> Vec<String> {
    let mut v = vec![];
    vcommon::enumerate::sequences(alpha.len(), max_len, |idx| {
        v.push(idx.iter().map(|&i| alpha[i]).collect::<String>());
    });
    v
}

fn label_variants(n: usize, with_labels: bool) -> Vec<Option<(usize, usize)>> {
    let mut v = vec![None];
    if with_labels {
        for a in 0..=n {
            for b in a..=n {
                v.push(Some((a, b)));
            }
        }
    }
    v
}

const NFLAGS: usize = 6;

struct Tally {
    evals: [Counter; 9],
    nontrivial: [Counter; 9],
    flags: [Counter; NFLAGS],
    ctl_cases: Counter,
    labelled: Counter,
    strwidth_disagree: Counter,
    by_sig: std::sync::Mutex<std::collections::BTreeMap<String, u64>>,
}

fn main() {
    let ctx = Ctx::from_args("C44", Level::Exploration);
    vcommon::silence_panics();
    if let Some((_sig, case)) = ctx.replay_case() {
        let f = F::from_name(case["fn"].as_str().unwrap_or(""))
            .unwrap_or_else(|| vcommon::machinery_failure("replay: unknown fn"));
        let label = case["label"].as_array().map(|a| {
            (a[0].as_u64().unwrap() as usize, a[1].as_u64().unwrap() as usize)
        });
        let c = Case {
            f,
            text: case["text"].as_str().unwrap_or(""),
            aux: case["aux"].as_str().unwrap_or(""),
            width: case["width"].as_u64().unwrap_or(0) as usize,
            label,
            aux_label: case["aux_label"].as_bool().unwrap_or(false),
        };
        if let Err((sig, msg)) = eval(&c) {
            ctx.violation(&sig, msg, c.to_json());
        }
        ctx.finish(Coverage { evaluations: 1, ..Default::default() });
    }

    // bounds
    let max_len = ctx.pick(4usize, 5usize);
    let max_len_nolabel = ctx.pick(4usize, 6usize);
    let max_width = ctx.pick(6usize, 8usize);
    let wrap_len = ctx.pick(7usize, 8usize);
    let wrap_label_len = ctx.pick(5usize, 6usize);

    let tally = Tally {
        evals: Default::default(),
        nontrivial: Default::default(),
        flags: Default::default(),
        ctl_cases: Counter::new(),
        labelled: Counter::new(),
        strwidth_disagree: Counter::new(),
        by_sig: Default::default(),
    };
    let samples = Samples::new(8);
    let disagree_sample = Samples::new(2);

    let account = |case: &Case, local: &mut LocalTally| {
        local.evals[case.f.idx()] += 1;
        if case.label.is_some() || case.aux_label {
            local.labelled += 1;
        }
        match eval(case) {
            Ok(fl) => {
                if fl.nontrivial {
                    local.nontrivial[case.f.idx()] += 1;
                    if case.text.chars().count() >= 3 && samples.wants_more() {
                        samples.offer(|| case.to_json());
                    }
                }
                let bits = [
                    fl.nontrivial,
                    fl.wide_at_cut,
                    fl.zero_width_at_cut,
                    fl.ellipsis_cut,
                    fl.needed_ctl1,
                    fl.single_scalar_overflow,
                ];
                for (i, b) in bits.iter().enumerate() {
                    if *b {
                        local.flags[i] += 1;
                    }
                }
            }
            Err((sig, msg)) => {
                *local.by_sig.entry(sig.clone()).or_insert(0) += 1;
                ctx.violation(&sig, msg, case.to_json())
            }
        }
    };

    // Part 1: elide / truncate / pad over the alphabet without '\n' (inputs are documented
    // to be single-line), wrap over the full alphabet.
    let single_line_alpha: Vec<char> = ALPHA.iter().copied().filter(|&c| c != '\n').collect();
    let strings = all_strings(&single_line_alpha, max_len_nolabel);
    strings.par_iter().for_each(|text| {
        let mut local = LocalTally::default();
        let n = text.chars().count();
        let has_ctl = text.chars().any(is_ctl);
        if has_ctl {
            local.ctl_cases += 1;
        } else if text.width() != w(text, 0) {
            tally.strwidth_disagree.inc();
            disagree_sample.offer(|| json!({"text": text, "str_width": text.width(), "char_sum": w(text, 0)}));
        }
        let labels = label_variants(n, n <= max_len);
        for width in 0..=max_width {
            for ell in ELLIPSES {
                for f in [F::ElideStart, F::ElideEnd] {
                    account(&Case { f, text, aux: ell, width, label: None, aux_label: false }, &mut local);
                }
                for f in [F::TruncStart, F::TruncEnd] {
                    for &label in &labels {
                        for aux_label in [false, true] {
                            if aux_label && (ell.is_empty() || n > max_len) {
                                // an empty ellipsis has no label; beyond the label bound
                                // everything is unlabelled
                                continue;
                            }
                            account(&Case { f, text, aux: ell, width, label, aux_label }, &mut local);
                        }
                    }
                }
            }
            for fill in FILLS {
                for f in [F::PadStart, F::PadEnd, F::PadCenter] {
                    for &label in &labels {
                        for aux_label in [false, true] {
                            if aux_label && n > max_len {
                                continue;
                            }
                            account(&Case { f, text, aux: fill, width, label, aux_label }, &mut local);
                        }
                    }
                }
            }
        }
        local.flush(&tally);
    });

    // Part 2: wrapping. Full alphabet up to max_len (with labels), wrap alphabet up to
    // wrap_len (labels up to wrap_label_len).
    let mut wrap_inputs: Vec<(String, bool)> =
        all_strings(&ALPHA, max_len).into_iter().map(|s| (s, true)).collect();
    for s in all_strings(&WRAP_ALPHA, wrap_len) {
        let n = s.chars().count();
        if n > max_len || s.chars().any(|c| !ALPHA.contains(&c)) {
            wrap_inputs.push((s, n <= wrap_label_len));
        }
    }
    wrap_inputs.par_iter().for_each(|(text, with_labels)| {
        let mut local = LocalTally::default();
        let n = text.chars().count();
        if text.chars().any(is_ctl) {
            local.ctl_cases += 1;
        }
        let labels = label_variants(n, *with_labels);
        for width in 0..=max_width {
            account(&Case { f: F::WrapBytes, text, aux: "", width, label: None, aux_label: false }, &mut local);
            for &label in &labels {
                account(&Case { f: F::WriteWrapped, text, aux: "", width, label, aux_label: false }, &mut local);
            }
        }
        local.flush(&tally);
    });

    let evaluations: u64 = tally.evals.iter().map(|c| c.get()).sum();
    let nontrivial: u64 = tally.nontrivial.iter().map(|c| c.get()).sum();
    let per_fn: serde_json::Map<String, Value> = ALL_F
        .iter()
        .map(|f| {
            (
                f.name().to_string(),
                json!({"evaluations": tally.evals[f.idx()].get(), "nontrivial": tally.nontrivial[f.idx()].get()}),
            )
        })
        .collect();
    // vacuity: every function must have been made to act, and the interesting cut shapes
    // must have occurred
    for f in ALL_F {
        if tally.nontrivial[f.idx()].get() == 0 {
            vcommon::machinery_failure(&format!("vacuous: {} never had to truncate/pad/wrap", f.name()));
        }
    }
    for (i, name) in ["nontrivial", "wide_at_cut", "zero_width_at_cut", "ellipsis_cut"].iter().enumerate() {
        if tally.flags[i].get() == 0 {
            vcommon::machinery_failure(&format!("vacuous: no case with {name}"));
        }
    }
    let cov = Coverage {
        evaluations,
        distinct_nontrivial: nontrivial,
        rule: format!(
            "every string of <= {max_len_nolabel} scalars over {:?} (no newline: inputs are documented single-line) \
             x width 0..={max_width} x ellipsis {:?} for elide_start/elide_end; the same x every single label range \
             [a,b) of the text (strings of <= {max_len} scalars) x labelled/unlabelled ellipsis for \
             write_truncated_start/end; x fill {:?} for write_padded_start/end/centered; wrap_bytes and write_wrapped \
             (x every label range) over every string of <= {max_len} scalars of the full alphabet {:?} and every string \
             of <= {wrap_len} scalars over {:?} (labels up to length {wrap_label_len}); each (function, input) tuple is \
             generated once; non-trivial = the text is wider than the width (truncation happened), padding was \
             needed, or wrapping inserted a line break",
            single_line_alpha, ELLIPSES, FILLS, ALPHA, WRAP_ALPHA
        ),
        samples: samples.take(),
        exhaustive: true,
        extra: [
            ("per_function".to_string(), Value::Object(per_fn)),
            ("cases_with_control_chars_strings".to_string(), json!(tally.ctl_cases.get())),
            ("cases_with_labels".to_string(), json!(tally.labelled.get())),
            ("truncations_where_wide_char_left_gap".to_string(), json!(tally.flags[1].get())),
            ("truncations_cut_next_to_zero_width_char".to_string(), json!(tally.flags[2].get())),
            ("truncations_with_cut_ellipsis".to_string(), json!(tally.flags[3].get())),
            ("passed_only_with_control_width_1".to_string(), json!(tally.flags[4].get())),
            ("wrap_lines_single_scalar_overflow".to_string(), json!(tally.flags[5].get())),
            (
                "control_free_strings_where_str_width_differs_from_char_sum".to_string(),
                json!({"count": tally.strwidth_disagree.get(), "samples": disagree_sample.take()}),
            ),
            ("violation_occurrences_by_signature".to_string(), json!(*tally.by_sig.lock().unwrap())),
            ("max_len".to_string(), json!(max_len_nolabel)),
            ("max_len_with_labels".to_string(), json!(max_len)),
            ("max_width".to_string(), json!(max_width)),
            ("wrap_len".to_string(), json!(wrap_len)),
        ]
        .into_iter()
        .collect(),
        assumptions: vec![
            "display width of a scalar = unicode-width's char width (trusted lower layer); strings are measured as the sum over scalars".into(),
            "width of control characters (tab, bell, newline in elide/wrap inputs) is undefined by the statement: a case fails only if it fails under both readings 0 and 1".into(),
            "truncate/pad inputs are single-line (documented precondition); fill characters have width 1 (documented precondition)".into(),
            "label boundaries are at scalar boundaries; at most one label range per recorder".into(),
            format!("strings longer than the bounds, widths > {max_width}, other scripts (Hangul jamo, emoji ZWJ sequences, variation selectors) are not explored"),
        ],
        ..Default::default()
    };
    ctx.finish(cov);
}

#[derive(Default)]
struct LocalTally {
    evals: [u64; 9],
    nontrivial: [u64; 9],
    flags: [u64; NFLAGS],
    ctl_cases: u64,
    labelled: u64,
    by_sig: std::collections::BTreeMap<String, u64>,
}

impl LocalTally {
    fn flush(&self, t: &Tally) {
        for i in 0..9 {
            t.evals[i].add(self.evals[i]);
            t.nontrivial[i].add(self.nontrivial[i]);
        }
        for i in 0..NFLAGS {
            t.flags[i].add(self.flags[i]);
        }
        t.ctl_cases.add(self.ctl_cases);
        t.labelled.add(self.labelled);
        if !self.by_sig.is_empty() {
            let mut m = t.by_sig.lock().unwrap();
            for (k, v) in &self.by_sig {
                *m.entry(k.clone()).or_insert(0) += v;
            }
        }
    }
}

//! C42 — Immutable commits are never rewritten.
//!
//! Explicit-state search with the real `jj` binary (built from /repo, `$JJV_BIN`) over
//! prepared repositories: a plain-git remote `origin` (a <- b = main, a <- e = feat) fetched
//! into a jj repository with local commits b <- c (bookmark lb) <- w (@) and b <- d2 (tag v1).
//! Under each configuration of `revset-aliases."immutable_heads()"` in {default
//! (`trunk() | tags() | untracked_remote_bookmarks()`), `none()`, `bookmarks(exact:"lb")`,
//! `tags()`} a different subset of the commits is immutable. A transition copies the parent's
//! directory tree (tmpfs) and runs one command; the alphabet is every rewriting command
//! (describe, edit, abandon, squash -r/--from/--into, split, rebase -r/-s/-b/-A/-B, restore
//! --into, metaedit, absorb --into, new -A/-B, file chmod, parallelize, simplify-parents,
//! multi-commit describe/abandon) x every target commit, controls that rewrite nothing
//! (duplicate, new, bookmark/tag commands), and - thorough, depth 2 - every such command after
//! every action that moves the immutable set (bookmark move, tag set/delete, bookmark track,
//! `--ignore-immutable edit/describe`).
//!
//! Oracle on every transition without `--ignore-immutable`, through jj-lib (read-only):
//!  1. I = the immutable set of the view *before* the command, computed from its definition
//!     by plain set operations (ancestors of the configured heads and the root commit); every
//!     member of I must still be an ancestor of the visible heads afterwards, under the same
//!     commit id (a rewritten, abandoned or hidden commit is not);
//!  2. when the working-copy commit is in I and a file was edited, a successful command must
//!     leave the edit in a commit whose parent is that working-copy commit.
//! The definition used by (1) is cross-checked against jj's own `immutable()` revset at every
//! state that is expanded; a disagreement is reported under its own signature.

#![allow(dead_code)]

use std::collections::BTreeMap;
use std::collections::BTreeSet;
use std::collections::HashMap;
use std::path::Path;
use std::path::PathBuf;
use std::process::Command;
use std::process::Stdio;
use std::sync::Arc;
use std::sync::Mutex;
use std::sync::atomic::AtomicBool;
use std::sync::atomic::AtomicU64;
use std::sync::atomic::Ordering;
use std::time::Duration;
use std::time::Instant;

use jj_lib::backend::CommitId;
use jj_lib::backend::TreeId;
use jj_lib::backend::TreeValue;
use jj_lib::config::ConfigLayer;
use jj_lib::config::ConfigSource;
use jj_lib::config::StackedConfig;
use jj_lib::merge::Merge;
use jj_lib::object_id::ObjectId as _;
use jj_lib::op_store::OperationId;
use jj_lib::op_store::RefTarget;
use jj_lib::op_store::View;
use jj_lib::repo::RepoLoader;
use jj_lib::settings::UserSettings;
use jj_lib::workspace::Workspace;
use pollster::FutureExt as _;
use serde::Deserialize;
use serde::Serialize;
use serde_json::Value;
use serde_json::json;
use vcommon::Coverage;
use vcommon::Ctx;
use vcommon::Level;
use vcommon::bfs;

// ---------------------------------------------------------------------------------------------
// hermetic environment for child `jj` processes
// ---------------------------------------------------------------------------------------------

struct Env {
    root: PathBuf,
    jjv: PathBuf,
}

fn ts(step: u32) -> String {
    format!("2001-02-03T04:{:02}:{:02}+07:00", step / 60, step % 60)
}

const CONFIGS: [&str; 4] = [
    "[ui]\ncolor = \"never\"\npaginate = \"never\"\neditor = \"true\"\n",
    "[ui]\ncolor = \"never\"\npaginate = \"never\"\neditor = \"true\"\n[revset-aliases]\n\"immutable_heads()\" = \"none()\"\n",
    "[ui]\ncolor = \"never\"\npaginate = \"never\"\neditor = \"true\"\n[revset-aliases]\n\"immutable_heads()\" = 'bookmarks(exact:\"lb\")'\n",
    "[ui]\ncolor = \"never\"\npaginate = \"never\"\neditor = \"true\"\n[revset-aliases]\n\"immutable_heads()\" = \"tags()\"\n",
];

static OUT_COUNTER: AtomicU64 = AtomicU64::new(0);

struct RunOut {
    code: Option<i32>,
    stderr: String,
}

impl Env {
    fn new(root: &Path, jjv: PathBuf) -> Env {
        std::fs::create_dir_all(root.join("home")).unwrap();
        std::fs::create_dir_all(root.join("tmp")).unwrap();
        std::fs::create_dir_all(root.join("out")).unwrap();
        std::fs::create_dir_all(root.join("st")).unwrap();
        for (i, c) in CONFIGS.iter().enumerate() {
            std::fs::write(root.join(format!("config{i}.toml")), c).unwrap();
        }
        Env { root: root.to_path_buf(), jjv }
    }

    /// Runs one `jj` command to completion (stdout/stderr to files, 300 s watchdog).
    fn run(&self, cwd: &Path, step: u32, config: usize, args: &[String]) -> RunOut {
        let n = OUT_COUNTER.fetch_add(1, Ordering::Relaxed);
        let out_path = self.root.join(format!("out/o{n}"));
        let err_path = self.root.join(format!("out/e{n}"));
        let mut c = Command::new(&self.jjv);
        c.current_dir(cwd);
        c.env_clear();
        c.env("PATH", "/usr/bin:/bin");
        c.env("HOME", self.root.join("home"));
        c.env("JJ_CONFIG", self.root.join(format!("config{config}.toml")));
        c.env("JJ_USER", "Test User");
        c.env("JJ_EMAIL", "test.user@example.com");
        c.env("JJ_OP_HOSTNAME", "host.example.com");
        c.env("JJ_OP_USERNAME", "test-username");
        c.env("JJ_TZ_OFFSET_MINS", "420");
        c.env("JJ_TIMESTAMP", ts(step));
        c.env("JJ_OP_TIMESTAMP", ts(step));
        c.env("JJ_RANDOMNESS_SEED", step.to_string());
        c.env("RAYON_NUM_THREADS", "1");
        c.env("GIT_CONFIG_GLOBAL", "/dev/null");
        c.env("GIT_CONFIG_SYSTEM", "/dev/null");
        c.env("TMPDIR", self.root.join("tmp"));
        c.env("TZ", "UTC");
        c.args(args);
        c.stdin(Stdio::null());
        c.stdout(std::fs::File::create(&out_path).unwrap());
        c.stderr(std::fs::File::create(&err_path).unwrap());
        let mut child = c
            .spawn()
            .unwrap_or_else(|e| vcommon::machinery_failure(&format!("cannot run jj: {e}")));
        let start = Instant::now();
        let status = loop {
            match child.try_wait() {
                Ok(Some(s)) => break s,
                Ok(None) => {
                    if start.elapsed() > Duration::from_secs(300) {
                        let _ = child.kill();
                        vcommon::machinery_failure(&format!("jj {args:?} did not finish within 300 s"));
                    }
                    std::thread::sleep(Duration::from_millis(4));
                }
                Err(e) => vcommon::machinery_failure(&format!("wait for jj failed: {e}")),
            }
        };
        let stderr = String::from_utf8_lossy(&std::fs::read(&err_path).unwrap_or_default()).to_string();
        let _ = std::fs::remove_file(&out_path);
        let _ = std::fs::remove_file(&err_path);
        RunOut { code: status.code(), stderr }
    }
}

fn copy_tree(src: &Path, dst: &Path) {
    std::fs::create_dir_all(dst).unwrap();
    for e in std::fs::read_dir(src).unwrap() {
        let e = e.unwrap();
        let ft = e.file_type().unwrap();
        let d = dst.join(e.file_name());
        if ft.is_dir() {
            copy_tree(&e.path(), &d);
        } else if ft.is_symlink() {
            let t = std::fs::read_link(e.path()).unwrap();
            std::os::unix::fs::symlink(t, &d).unwrap();
        } else {
            std::fs::copy(e.path(), &d).unwrap();
            // keep the mtime: the working copy compares it with its recorded state
            let m = e.metadata().unwrap().modified().unwrap();
            if let Ok(f) = std::fs::File::options().write(true).open(&d) {
                let _ = f.set_modified(m);
            }
        }
    }
}

/// (relative path, content) of every regular file of a working copy, `.jj` excluded.
fn disk_files(ws: &Path) -> BTreeMap<String, Vec<u8>> {
    fn rec(base: &Path, dir: &Path, out: &mut BTreeMap<String, Vec<u8>>) {
        let Ok(rd) = std::fs::read_dir(dir) else { return };
        for e in rd.flatten() {
            let p = e.path();
            let name = e.file_name().to_string_lossy().to_string();
            if dir == base && name == ".jj" {
                continue;
            }
            let ft = e.file_type().unwrap();
            if ft.is_dir() {
                rec(base, &p, out);
            } else if ft.is_file()
                && let Ok(bytes) = std::fs::read(&p)
            {
                out.insert(p.strip_prefix(base).unwrap().to_string_lossy().to_string(), bytes);
            }
        }
    }
    let mut out = BTreeMap::new();
    rec(ws, ws, &mut out);
    out
}

fn lib_settings() -> UserSettings {
    static CACHE: Mutex<Option<StackedConfig>> = Mutex::new(None);
    let config = CACHE
        .lock()
        .unwrap()
        .get_or_insert_with(|| {
            let mut config = StackedConfig::with_defaults();
            let text = "user.name = \"Inspector\"\nuser.email = \"inspector@example.com\"\n\
                        operation.username = \"inspector\"\noperation.hostname = \"inspector\"\n";
            config.add_layer(ConfigLayer::parse(ConfigSource::User, text).unwrap());
            config
        })
        .clone();
    UserSettings::from_config(config).unwrap()
}

fn err_chain(e: &dyn std::error::Error) -> String {
    let mut s = e.to_string();
    let mut cur = e.source();
    while let Some(c) = cur {
        s.push_str(": ");
        s.push_str(&c.to_string());
        cur = c.source();
    }
    s
}

// ---------------------------------------------------------------------------------------------
// read-only inspection through jj-lib
// ---------------------------------------------------------------------------------------------

struct CommitData {
    parents: Vec<CommitId>,
    change: String,
    desc: String,
    tree_ids: Merge<TreeId>,
    /// path -> contents of every term of the (possibly conflicted) value
    files: BTreeMap<String, Vec<Vec<u8>>>,
}

struct OpData {
    parents: Vec<OperationId>,
    desc: String,
    view: View,
}

#[derive(Default)]
struct Inspect {
    heads: Vec<OperationId>,
    ops: BTreeMap<OperationId, OpData>,
    commits: BTreeMap<CommitId, CommitData>,
    problems: Vec<String>,
}

fn inspect(repo_dir: &Path) -> Inspect {
    let mut ins = Inspect::default();
    let settings = lib_settings();
    let factories = jj_lib::default_backend_factories::default_backend_factories();
    let loader = match vcommon::catch(|| RepoLoader::init_from_file_system(&settings, repo_dir, &factories)) {
        Ok(Ok(l)) => l,
        Ok(Err(e)) => {
            ins.problems.push(format!("repo does not open: {}", err_chain(&e)));
            return ins;
        }
        Err(p) => {
            ins.problems.push(format!("repo open panicked: {p}"));
            return ins;
        }
    };
    match loader.op_heads_store().get_op_heads().block_on() {
        Ok(mut h) => {
            h.sort();
            ins.heads = h;
        }
        Err(e) => {
            ins.problems.push(format!("op heads unreadable: {}", err_chain(&e)));
            return ins;
        }
    }
    let mut stack: Vec<OperationId> = ins.heads.clone();
    let mut to_visit: Vec<CommitId> = vec![];
    while let Some(id) = stack.pop() {
        if ins.ops.contains_key(&id) {
            continue;
        }
        let op = match loader.op_store().read_operation(&id).block_on() {
            Ok(op) => op,
            Err(e) => {
                ins.problems.push(format!("operation {} unreadable: {}", &id.hex()[..12], err_chain(&e)));
                continue;
            }
        };
        let view = match loader.op_store().read_view(&op.view_id).block_on() {
            Ok(v) => v,
            Err(e) => {
                ins.problems.push(format!("view of operation {} unreadable: {}", &id.hex()[..12], err_chain(&e)));
                continue;
            }
        };
        stack.extend(op.parents.iter().cloned());
        to_visit.extend(view.head_ids.iter().cloned());
        to_visit.extend(view.wc_commit_ids.values().cloned());
        ins.ops.insert(
            id,
            OpData { parents: op.parents.clone(), desc: op.metadata.description.clone(), view },
        );
    }
    let store = loader.store().clone();
    while let Some(cid) = to_visit.pop() {
        if ins.commits.contains_key(&cid) {
            continue;
        }
        let commit = match vcommon::catch(|| store.get_commit(&cid)) {
            Ok(Ok(c)) => c,
            Ok(Err(e)) => {
                ins.problems.push(format!("commit {} unreadable: {}", &cid.hex()[..12], err_chain(&e)));
                continue;
            }
            Err(p) => {
                ins.problems.push(format!("commit read panicked: {p}"));
                continue;
            }
        };
        to_visit.extend(commit.parent_ids().iter().cloned());
        let mut files: BTreeMap<String, Vec<Vec<u8>>> = BTreeMap::new();
        let tree = commit.tree();
        for (path, value) in tree.entries() {
            let value = match value {
                Ok(v) => v,
                Err(e) => {
                    ins.problems.push(format!("tree of {} unreadable at {path:?}: {}", &cid.hex()[..12], err_chain(&e)));
                    continue;
                }
            };
            let mut terms = vec![];
            for term in value.iter().flatten() {
                if let TreeValue::File { id, .. } = term {
                    let r = vcommon::catch(|| {
                        let mut reader = store.read_file(&path, id).block_on()?;
                        let mut buf = vec![];
                        futures::AsyncReadExt::read_to_end(&mut reader, &mut buf)
                            .block_on()
                            .map_err(|e| jj_lib::backend::BackendError::Other(e.into()))?;
                        Ok::<_, jj_lib::backend::BackendError>(buf)
                    });
                    match r {
                        Ok(Ok(buf)) => terms.push(buf),
                        Ok(Err(e)) => ins.problems.push(format!("file {path:?} unreadable: {}", err_chain(&e))),
                        Err(p) => ins.problems.push(format!("file read panicked: {p}")),
                    }
                }
            }
            terms.sort();
            files.insert(path.as_internal_file_string().to_string(), terms);
        }
        ins.commits.insert(
            cid,
            CommitData {
                parents: commit.parent_ids().to_vec(),
                change: commit.change_id().hex(),
                desc: commit.description().to_string(),
                tree_ids: commit.tree_ids().clone(),
                files,
            },
        );
    }
    ins
}

impl Inspect {
    /// (path, content) of every file term in the working-copy commit of any workspace of any
    /// operation reachable from the heads.
    fn recorded(&self) -> BTreeSet<(String, Vec<u8>)> {
        let mut out = BTreeSet::new();
        let mut done: BTreeSet<&CommitId> = BTreeSet::new();
        for op in self.ops.values() {
            for cid in op.view.wc_commit_ids.values() {
                if !done.insert(cid) {
                    continue;
                }
                if let Some(c) = self.commits.get(cid) {
                    for (p, terms) in &c.files {
                        for t in terms {
                            out.insert((p.clone(), t.clone()));
                        }
                    }
                }
            }
        }
        out
    }

    fn commit_hash(&self, id: &CommitId, memo: &mut HashMap<CommitId, u64>) -> u64 {
        if let Some(h) = memo.get(id) {
            return *h;
        }
        let h = match self.commits.get(id) {
            None => vcommon::fnv(b"missing"),
            Some(c) => {
                let mut buf: Vec<u8> = vec![];
                buf.extend(c.desc.as_bytes());
                buf.push(0);
                for (p, terms) in &c.files {
                    buf.extend(p.as_bytes());
                    buf.push(1);
                    for t in terms {
                        buf.extend(t);
                        buf.push(2);
                    }
                }
                for p in &c.parents {
                    buf.extend(self.commit_hash(p, memo).to_le_bytes());
                }
                vcommon::fnv(&buf)
            }
        };
        memo.insert(id.clone(), h);
        h
    }

    fn target_hash(&self, t: &RefTarget, memo: &mut HashMap<CommitId, u64>) -> String {
        let adds: Vec<String> = t.added_ids().map(|id| format!("{:x}", self.commit_hash(id, memo))).collect();
        let rems: Vec<String> = t.removed_ids().map(|id| format!("{:x}", self.commit_hash(id, memo))).collect();
        format!("+{}-{}", adds.join(","), rems.join(","))
    }

    fn view_hash(&self, v: &View, memo: &mut HashMap<CommitId, u64>) -> u64 {
        let mut heads: Vec<u64> = v.head_ids.iter().map(|h| self.commit_hash(h, memo)).collect();
        heads.sort();
        let mut s = format!("H{heads:x?}");
        for (n, t) in &v.local_bookmarks {
            s.push_str(&format!("|b:{}={}", n.as_str(), self.target_hash(t, memo)));
        }
        for (n, t) in &v.local_tags {
            s.push_str(&format!("|t:{}={}", n.as_str(), self.target_hash(t, memo)));
        }
        for (w, c) in &v.wc_commit_ids {
            s.push_str(&format!("|w:{}={:x}", w.as_str(), self.commit_hash(c, memo)));
        }
        vcommon::fnv(s.as_bytes())
    }

    fn op_hash(&self, id: &OperationId, cmemo: &mut HashMap<CommitId, u64>, omemo: &mut HashMap<OperationId, u64>) -> u64 {
        if let Some(h) = omemo.get(id) {
            return *h;
        }
        let h = match self.ops.get(id) {
            None => vcommon::fnv(b"missing-op"),
            Some(op) => {
                let mut ps: Vec<u64> = op.parents.iter().map(|p| self.op_hash(p, cmemo, omemo)).collect();
                ps.sort();
                let s = format!("{}|{:x}|{ps:x?}", mask_ids(&op.desc), self.view_hash(&op.view, cmemo));
                vcommon::fnv(s.as_bytes())
            }
        };
        omemo.insert(id.clone(), h);
        h
    }
}

/// Replaces runs of >= 12 hex digits (commit / operation ids in operation descriptions) by `#`.
fn mask_ids(s: &str) -> String {
    let mut out = String::new();
    let mut run = String::new();
    for ch in s.chars() {
        if ch.is_ascii_hexdigit() {
            run.push(ch);
        } else {
            if run.len() >= 12 {
                out.push('#');
            } else {
                out.push_str(&run);
            }
            run.clear();
            out.push(ch);
        }
    }
    if run.len() >= 12 {
        out.push('#');
    } else {
        out.push_str(&run);
    }
    out
}

/// State of one workspace relative to the repo: "fresh" (working copy is at the head
/// operation or its recorded tree equals the tree of the commit the view wants), "stale",
/// "forgotten" (no working-copy commit in the head view), "divergent-heads", "unknown".
fn workspace_state(ws_dir: &Path, ins: &Inspect) -> (String, Option<OperationId>) {
    let settings = lib_settings();
    let ws = match vcommon::catch(|| {
        Workspace::load(
            &settings,
            ws_dir,
            &jj_lib::default_backend_factories::default_backend_factories(),
            &jj_lib::default_backend_factories::default_working_copy_factories(),
        )
    }) {
        Ok(Ok(ws)) => ws,
        _ => return ("unknown".into(), None),
    };
    let wc_op = ws.working_copy().operation_id().clone();
    if ins.heads.len() != 1 {
        return ("divergent-heads".into(), Some(wc_op));
    }
    let head = &ins.heads[0];
    let Some(op) = ins.ops.get(head) else { return ("unknown".into(), Some(wc_op)) };
    let Some(want) = op.view.wc_commit_ids.get(ws.workspace_name()) else {
        return ("forgotten".into(), Some(wc_op));
    };
    let tree_same = match (ws.working_copy().tree(), ins.commits.get(want)) {
        (Ok(t), Some(c)) => *t.tree_ids() == c.tree_ids,
        _ => false,
    };
    let st = if tree_same {
        "fresh"
    } else if wc_op == *head {
        "fresh-op-tree-differs"
    } else {
        "stale"
    };
    (st.into(), Some(wc_op))
}


// ---------------------------------------------------------------------------------------------
// configurations and the reference definition of the immutable set
// ---------------------------------------------------------------------------------------------

const CFG_NAMES: [&str; 4] = ["default", "none()", "bookmarks(exact:\"lb\")", "tags()"];

impl Inspect {
    fn root_commit(&self) -> Option<CommitId> {
        self.commits.iter().find(|(_, c)| c.parents.is_empty()).map(|(id, _)| id.clone())
    }

    fn ancestors(&self, from: impl IntoIterator<Item = CommitId>) -> BTreeSet<CommitId> {
        let mut seen = BTreeSet::new();
        let mut stack: Vec<CommitId> = from.into_iter().collect();
        while let Some(c) = stack.pop() {
            if !seen.insert(c.clone()) {
                continue;
            }
            if let Some(d) = self.commits.get(&c) {
                stack.extend(d.parents.iter().cloned());
            }
        }
        seen
    }

    /// The immutable set by its definition (reference; plain set operations on the view):
    /// ancestors of the configured heads and the root commit. Default heads =
    /// trunk() | tags() | untracked_remote_bookmarks(), trunk() = main@origin if present.
    fn immutable_by_definition(&self, v: &View, cfg: usize) -> BTreeSet<CommitId> {
        let mut heads: Vec<CommitId> = vec![];
        let tags = |heads: &mut Vec<CommitId>| {
            for t in v.local_tags.values() {
                heads.extend(t.added_ids().cloned());
            }
        };
        match cfg {
            0 => {
                for (remote, rv) in &v.remote_views {
                    if remote.as_str() == "git" {
                        continue;
                    }
                    for (name, r) in &rv.bookmarks {
                        let untracked = !r.is_tracked();
                        let is_trunk = remote.as_str() == "origin" && name.as_str() == "main";
                        if untracked || is_trunk {
                            heads.extend(r.target.added_ids().cloned());
                        }
                    }
                }
                tags(&mut heads);
            }
            1 => {}
            2 => {
                if let Some(t) = v.local_bookmarks.iter().find(|(n, _)| n.as_str() == "lb").map(|(_, t)| t) {
                    heads.extend(t.added_ids().cloned());
                }
            }
            _ => tags(&mut heads),
        }
        heads.extend(self.root_commit());
        self.ancestors(heads)
    }
}

// ---------------------------------------------------------------------------------------------
// actions
// ---------------------------------------------------------------------------------------------

#[derive(Clone, Copy, Debug, PartialEq, Eq, Hash, Serialize, Deserialize)]
enum Cmd {
    // rewriting commands aimed at a target commit X
    Describe,
    Edit,
    Abandon,
    SquashR,
    Split,
    RebaseR,
    RebaseS,
    RebaseB,
    RestoreInto,
    Metaedit,
    Chmod,
    Parallelize,
    SimplifyParents,
    AbsorbInto,
    RebaseBefore,
    RebaseAfter,
    NewBefore,
    NewAfter,
    SquashInto,
    SquashFrom,
    /// describe X and the working-copy commit in one command (two-commit argument)
    Describe2,
    Abandon2,
    // controls (do not rewrite X)
    Duplicate,
    New,
    // working-copy commands (no target)
    St,
    Commit,
    SquashWc,
    DescribeWc,
    // commands that move the immutable set (bookmark / tag / tracking) — never rewrite anything
    BookmarkCreate,
    BookmarkMoveLb,
    TagSet,
    TagDeleteV1,
    BookmarkDeleteLb,
    TrackFeat,
    // explicit override (allowed to rewrite immutable commits; not judged, used to reach states)
    OverrideEdit,
    OverrideDescribe,
}

const TARGETS: [&str; 7] = ["a", "b", "c", "d2", "e", "w", "root"];
const NO_TARGET: u8 = 255;

#[derive(Clone, Debug, PartialEq, Eq, Hash)]
enum Act {
    Init(usize),
    Step { dirty: u8, cmd: Cmd, target: u8 },
}

#[derive(Clone, Debug, Serialize, Deserialize)]
struct LitEdit {
    ws: String,
    path: String,
    content: Option<String>,
}

/// A literal, self-contained step: edits, then one command (`jj` under configuration `config`, or `git`).
#[derive(Clone, Debug, Serialize, Deserialize)]
struct LitStep {
    n: u32,
    program: String,
    cwd: String,
    edits: Vec<LitEdit>,
    args: Vec<String>,
    class: String,
    config: usize,
    /// run with --ignore-immutable: the clause "immutable commits stay" is not applied
    overrides: bool,
    /// witness written into the working copy before the command (path, content), if any
    witness: Option<(String, String)>,
}

fn s(v: &[&str]) -> Vec<String> {
    v.iter().map(|x| x.to_string()).collect()
}

/// Preparation: a plain-git "remote" `o` (a <- b = main <- c = lb, b <- d2 = tag v1, a <- e =
/// feat), then the jj repo `d` that imported it (main@origin = trunk, feat@origin untracked,
/// local bookmark lb, tag v1) with the working-copy commit w on top of c (root 0). Root 1: @ moved onto the
/// tagged commit d2 with the explicit override, so the working-copy commit is immutable under
/// the default and the tags() configurations.
fn prep_steps(root: usize) -> Vec<LitStep> {
    let mut n = 0u32;
    let mut v: Vec<LitStep> = vec![];
    let mut push = |program: &str, cwd: &str, edits: Vec<LitEdit>, args: &[&str], overrides: bool| {
        n += 1;
        v.push(LitStep {
            n,
            program: program.into(),
            cwd: cwd.into(),
            edits,
            args: s(args),
            class: "prep".into(),
            config: 0,
            overrides,
            witness: None,
        });
    };
    let w = |ws: &str, path: &str, c: &str| LitEdit { ws: ws.into(), path: path.into(), content: Some(c.into()) };
    // the remote, built with plain git (cheap): a <- b (main) <- c (lb), b <- d2 (tag v1), a <- e (feat)
    push("git", ".", vec![], &["init", "-q", "-b", "main", "o"], false);
    push("git", "o", vec![w("o", "f", "a0\n")], &["add", "-A"], false);
    push("git", "o", vec![], &["commit", "-q", "-m", "a"], false);
    push("git", "o", vec![w("o", "f", "b0\n")], &["commit", "-q", "-a", "-m", "b"], false);
    push("git", "o", vec![], &["checkout", "-q", "-b", "lb"], false);
    push("git", "o", vec![w("o", "f", "c0\n")], &["commit", "-q", "-a", "-m", "c"], false);
    push("git", "o", vec![], &["checkout", "-q", "-b", "tagged", "main"], false);
    push("git", "o", vec![w("o", "g", "d0\n")], &["add", "-A"], false);
    push("git", "o", vec![], &["commit", "-q", "-m", "d2"], false);
    push("git", "o", vec![], &["tag", "v1"], false);
    push("git", "o", vec![], &["checkout", "-q", "-b", "feat", "main~1"], false);
    push("git", "o", vec![w("o", "e", "e0\n")], &["add", "-A"], false);
    push("git", "o", vec![], &["commit", "-q", "-m", "e"], false);
    push("git", "o", vec![], &["checkout", "-q", "main"], false);
    push("jj", ".", vec![], &["git", "init", "--no-colocate", "d"], false);
    // `jj git fetch` needs git >= 2.41 (the sandbox has 2.39): fetch with plain git into the
    // backing repository (main and feat as remote-tracking refs of `origin`, lb as a local
    // branch, the tag), then let jj import the refs
    push("git", "d", vec![], &["--git-dir", ".jj/repo/store/git", "remote", "add", "origin", "../o"], false);
    push(
        "git",
        "d",
        vec![],
        &[
            "--git-dir",
            ".jj/repo/store/git",
            "fetch",
            "-q",
            "--no-tags",
            "../o",
            "refs/heads/main:refs/remotes/origin/main",
            "refs/heads/feat:refs/remotes/origin/feat",
            "refs/heads/lb:refs/heads/lb",
            "refs/tags/v1:refs/tags/v1",
        ],
        false,
    );
    push("jj", "d", vec![], &["git", "import"], false);
    push("jj", "d", vec![], &["new", "lb", "-m", "w"], false);
    if root == 1 {
        push("jj", "d", vec![w("d", "f", "w0\n")], &["--ignore-immutable", "edit", "v1"], true);
    }
    v
}

fn root_name(root: usize) -> &'static str {
    ["A: @ = w (mutable leaf on c)", "B: @ = d2 (tagged; reached with --ignore-immutable edit)"][root]
}

struct Names {
    /// target name -> commit id (only targets that resolve to exactly one visible commit)
    ids: BTreeMap<String, CommitId>,
}

fn expand(dirty: u8, cmd: Cmd, target: u8, n: u32, config: usize, names: &Names) -> Option<LitStep> {
    let mut edits = vec![];
    let mut witness = None;
    if dirty == 1 {
        let c = format!("W:f@d#{n}:{}\n", "x".repeat(n as usize));
        edits.push(LitEdit { ws: "d".into(), path: "f".into(), content: Some(c.clone()) });
        witness = Some(("f".to_string(), c));
    }
    let x: String = if target == NO_TARGET {
        String::new()
    } else if TARGETS[target as usize] == "root" {
        "root()".to_string()
    } else {
        names.ids.get(TARGETS[target as usize])?.hex()
    };
    let x = x.as_str();
    let m = format!("m{n}");
    let mut overrides = false;
    let args: Vec<String> = match cmd {
        Cmd::Describe => s(&["describe", "-m", &m, x]),
        Cmd::Edit => s(&["edit", x]),
        Cmd::Abandon => s(&["abandon", x]),
        Cmd::SquashR => s(&["squash", "-u", "-r", x]),
        Cmd::Split => s(&["split", "-r", x, "-m", &m, "f", "g", "e"]),
        Cmd::RebaseR => s(&["rebase", "-r", x, "-d", "root()"]),
        Cmd::RebaseS => s(&["rebase", "-s", x, "-d", "root()"]),
        Cmd::RebaseB => s(&["rebase", "-b", x, "-d", "root()"]),
        Cmd::RestoreInto => s(&["restore", "--from", "root()", "--into", x]),
        Cmd::Metaedit => s(&["metaedit", "--update-author-timestamp", x]),
        Cmd::Chmod => s(&["file", "chmod", "x", "f", "-r", x]),
        Cmd::Parallelize => s(&["parallelize", &format!("{x}-::{x}")]),
        Cmd::SimplifyParents => s(&["simplify-parents", "-r", x]),
        Cmd::AbsorbInto => s(&["absorb", "--from", "@", "--into", x]),
        Cmd::RebaseBefore => s(&["rebase", "-r", "@", "-B", x]),
        Cmd::RebaseAfter => s(&["rebase", "-r", "@", "-A", x]),
        Cmd::NewBefore => s(&["new", "-B", x]),
        Cmd::NewAfter => s(&["new", "-A", x]),
        Cmd::SquashInto => s(&["squash", "-u", "--from", "@", "--into", x]),
        Cmd::SquashFrom => s(&["squash", "-u", "--from", x, "--into", "@"]),
        Cmd::Describe2 => s(&["describe", "-m", &m, "@", x]),
        Cmd::Abandon2 => s(&["abandon", "@", x]),
        Cmd::Duplicate => s(&["duplicate", x]),
        Cmd::New => s(&["new", x]),
        Cmd::St => s(&["st"]),
        Cmd::Commit => s(&["commit", "-m", &m]),
        Cmd::SquashWc => s(&["squash", "-u"]),
        Cmd::DescribeWc => s(&["describe", "-m", &m]),
        Cmd::BookmarkCreate => s(&["bookmark", "create", &format!("nb{n}"), "-r", x]),
        Cmd::BookmarkMoveLb => s(&["bookmark", "move", "lb", "--to", x, "-B"]),
        Cmd::TagSet => s(&["tag", "set", &format!("v{n}"), "-r", x]),
        Cmd::TagDeleteV1 => s(&["tag", "delete", "v1"]),
        Cmd::BookmarkDeleteLb => s(&["bookmark", "delete", "lb"]),
        Cmd::TrackFeat => s(&["bookmark", "track", "feat@origin"]),
        Cmd::OverrideEdit => {
            overrides = true;
            s(&["--ignore-immutable", "edit", x])
        }
        Cmd::OverrideDescribe => {
            overrides = true;
            s(&["--ignore-immutable", "describe", "-m", &m, x])
        }
    };
    Some(LitStep {
        n,
        program: "jj".into(),
        cwd: "d".into(),
        edits,
        args,
        class: format!("{cmd:?}"),
        config,
        overrides,
        witness,
    })
}

// ---------------------------------------------------------------------------------------------
// states and the transition function
// ---------------------------------------------------------------------------------------------

struct StateData {
    dir: PathBuf,
    n: u32,
    head: Option<OperationId>,
    /// root names: target name -> change id (hex), fixed when the root is prepared
    changes: BTreeMap<String, String>,
    key: String,
}

#[derive(Default)]
struct Stats {
    commands: AtomicU64,
    exit_ok: AtomicU64,
    exit_err: AtomicU64,
    refused_immutable: AtomicU64,
    target_immutable: AtomicU64,
    target_mutable: AtomicU64,
    mutable_commits_rewritten_or_hidden: AtomicU64,
    immutable_commits_checked: AtomicU64,
    snapshot_on_immutable_judged: AtomicU64,
    snapshot_on_mutable_wc: AtomicU64,
    immutable_set_changed_by_command: AtomicU64,
    immutable_revset_cross_checks: AtomicU64,
    per_class: Mutex<BTreeMap<String, [u64; 5]>>, // runs, exit 0, refused, target immutable, rewrote mutable
}

struct StepOutcome {
    ok: bool,
    stderr: String,
    state: StateData,
    violations: Vec<(String, String)>,
}

fn run_git(env: &Env, cwd: &Path, step: u32, args: &[String]) -> RunOut {
    let mut c = Command::new("git");
    c.current_dir(cwd);
    c.env_clear();
    c.env("PATH", "/usr/bin:/bin");
    c.env("HOME", env.root.join("home"));
    c.env("GIT_CONFIG_GLOBAL", "/dev/null");
    c.env("GIT_CONFIG_SYSTEM", "/dev/null");
    c.env("GIT_AUTHOR_NAME", "Remote Author");
    c.env("GIT_AUTHOR_EMAIL", "remote@example.com");
    c.env("GIT_COMMITTER_NAME", "Remote Author");
    c.env("GIT_COMMITTER_EMAIL", "remote@example.com");
    let date = format!("2001-02-03T03:00:{:02}+00:00", step % 60);
    c.env("GIT_AUTHOR_DATE", &date);
    c.env("GIT_COMMITTER_DATE", &date);
    c.env("TZ", "UTC");
    c.args(args);
    c.stdin(Stdio::null());
    let out = c.output().unwrap_or_else(|e| vcommon::machinery_failure(&format!("cannot run git: {e}")));
    RunOut { code: out.status.code(), stderr: String::from_utf8_lossy(&out.stderr).to_string() }
}

fn names_of(ins: &Inspect, view: &View, changes: &BTreeMap<String, String>) -> Names {
    let visible = ins.ancestors(view.head_ids.iter().cloned());
    let mut ids = BTreeMap::new();
    for (name, change) in changes {
        let m: Vec<&CommitId> = visible.iter().filter(|c| ins.commits.get(*c).is_some_and(|d| d.change == *change)).collect();
        if m.len() == 1 {
            ids.insert(name.clone(), m[0].clone());
        }
    }
    Names { ids }
}

/// Executes one literal step in `dir` (in place).
fn exec_step(env: &Env, dir: &Path, parent: Option<&StateData>, lit: &LitStep, stats: &Stats) -> StepOutcome {
    for e in &lit.edits {
        let p = dir.join(&e.ws).join(&e.path);
        match &e.content {
            Some(c) => std::fs::write(&p, c).unwrap_or_else(|err| vcommon::machinery_failure(&format!("cannot write {p:?}: {err}"))),
            None => {
                let _ = std::fs::remove_file(&p);
            }
        }
    }
    let repo_dir = dir.join("d/.jj/repo");
    // before
    let before = if repo_dir.exists() && lit.program == "jj" && lit.class != "prep" { Some(inspect(&repo_dir)) } else { None };
    let out = if lit.program == "git" {
        run_git(env, &dir.join(&lit.cwd), lit.n, &lit.args)
    } else {
        env.run(&dir.join(&lit.cwd), lit.n, lit.config, &lit.args)
    };
    let ok = out.code == Some(0);
    let mut violations = vec![];
    let mut changes = parent.map(|p| p.changes.clone()).unwrap_or_default();
    if lit.program == "git" || !repo_dir.exists() {
        return StepOutcome {
            ok,
            stderr: out.stderr,
            state: StateData { dir: dir.to_path_buf(), n: lit.n, head: None, changes, key: format!("git{}", lit.n) },
            violations,
        };
    }
    stats.commands.fetch_add(1, Ordering::Relaxed);
    if ok {
        stats.exit_ok.fetch_add(1, Ordering::Relaxed);
    } else {
        stats.exit_err.fetch_add(1, Ordering::Relaxed);
    }
    let refused = !ok && out.stderr.lines().any(|l| l.starts_with("Error: ") && l.contains("is immutable"));
    if refused {
        stats.refused_immutable.fetch_add(1, Ordering::Relaxed);
    }
    let ins = inspect(&repo_dir);
    if !ins.problems.is_empty() {
        vcommon::machinery_failure(&format!("repository unreadable after jj {:?}: {:?}", lit.args, ins.problems));
    }
    if ins.heads.len() != 1 {
        vcommon::machinery_failure("more than one operation head in a sequential history");
    }
    let head = ins.heads[0].clone();
    let v1 = &ins.ops[&head].view;
    let visible1 = ins.ancestors(v1.head_ids.iter().cloned());
    let mut target_immutable = false;
    let mut rewrote_mutable = false;
    if let (Some(b), Some(old_head)) = (&before, parent.and_then(|p| p.head.clone())) {
        let v0 = &b.ops[&old_head].view;
        let visible0 = b.ancestors(v0.head_ids.iter().cloned());
        // only commits that are visible before the command can be rewritten / hidden by it (after an
        // explicit --ignore-immutable rewrite, remote bookmarks keep pointing at hidden commits)
        let imm0: BTreeSet<CommitId> =
            b.immutable_by_definition(v0, lit.config).into_iter().filter(|c| visible0.contains(c)).collect();
        // was the command aimed at an immutable commit?
        for a in &lit.args {
            if let Some(id) = CommitId::try_from_hex(a)
                && imm0.contains(&id)
            {
                target_immutable = true;
            }
            if a == "root()" && lit.args[0] != "rebase" && lit.args[0] != "restore" {
                target_immutable = true;
            }
        }
        if target_immutable {
            stats.target_immutable.fetch_add(1, Ordering::Relaxed);
        } else {
            stats.target_mutable.fetch_add(1, Ordering::Relaxed);
        }
        if visible0.iter().any(|c| !imm0.contains(c) && !visible1.contains(c)) {
            rewrote_mutable = true;
            stats.mutable_commits_rewritten_or_hidden.fetch_add(1, Ordering::Relaxed);
        }
        let imm1 = ins.immutable_by_definition(v1, lit.config);
        if imm1 != imm0 {
            stats.immutable_set_changed_by_command.fetch_add(1, Ordering::Relaxed);
        }
        // clause 1: immutable commits are still visible under the same id
        if !lit.overrides {
            for i in &imm0 {
                stats.immutable_commits_checked.fetch_add(1, Ordering::Relaxed);
                if !visible1.contains(i) {
                    let cd = &b.commits[i];
                    let successor = visible1.iter().find(|c| ins.commits.get(*c).is_some_and(|d| d.change == cd.change));
                    let what = if successor.is_some() { "rewritten" } else { "hidden" };
                    violations.push((
                        format!("C42/{}/immutable-commit-{what}", lit.class),
                        format!(
                            "configuration immutable_heads() = {}: commit {} ({:?}) is immutable before `jj {}` (exit {:?}); afterwards it is no \
                             longer visible{}. stderr: {}",
                            CFG_NAMES[lit.config],
                            &i.hex()[..12],
                            cd.desc.trim_end(),
                            lit.args.join(" "),
                            out.code,
                            successor.map(|s| format!(" (its change is now commit {})", &s.hex()[..12])).unwrap_or_default(),
                            out.stderr.chars().take(300).collect::<String>()
                        ),
                    ));
                }
            }
        }
        // clause 2: a snapshot on an immutable working-copy commit goes into a new commit on top
        if let (Some((path, content)), Some(wc0)) = (&lit.witness, v0.wc_commit_ids.values().next())
            && ok
            && !lit.overrides
        {
            if imm0.contains(wc0) {
                stats.snapshot_on_immutable_judged.fetch_add(1, Ordering::Relaxed);
                let on_top = ins.commits.iter().any(|(_, c)| {
                    c.parents.contains(wc0) && c.files.get(path).is_some_and(|terms| terms.iter().any(|t| t == content.as_bytes()))
                });
                if !on_top {
                    violations.push((
                        format!("C42/{}/snapshot-on-immutable-not-in-child", lit.class),
                        format!(
                            "configuration immutable_heads() = {}: the working-copy commit {} is immutable and {path} was edited; after `jj {}` \
                             no commit whose parent is {} contains the edit",
                            CFG_NAMES[lit.config],
                            &wc0.hex()[..12],
                            lit.args.join(" "),
                            &wc0.hex()[..12]
                        ),
                    ));
                }
            } else {
                stats.snapshot_on_mutable_wc.fetch_add(1, Ordering::Relaxed);
            }
        }
    }
    // names of the root
    if lit.class == "prep" && lit.args.first().map(|a| a.as_str()) == Some("new") && lit.args.last().map(|a| a.as_str()) == Some("w") {
        for (id, c) in &ins.commits {
            let d = c.desc.trim_end();
            if visible1.contains(id) && ["a", "b", "c", "d2", "e", "w"].contains(&d) {
                changes.insert(d.to_string(), c.change.clone());
            }
        }
        if changes.len() != 6 {
            vcommon::machinery_failure(&format!("preparation: expected commits a b c d2 e w, found {:?}", changes.keys().collect::<Vec<_>>()));
        }
    }
    // canonical key
    let mut cmemo = HashMap::new();
    let mut omemo = HashMap::new();
    let mut key = format!("cfg{}|ops{:x}", lit.config, ins.op_hash(&head, &mut cmemo, &mut omemo));
    let (st, wc_op) = workspace_state(&dir.join("d"), &ins);
    let oh = wc_op.map(|o| ins.op_hash(&o, &mut cmemo, &mut omemo)).unwrap_or(0);
    key.push_str(&format!("|d:{st}:{oh:x}:"));
    let mut buf = vec![];
    for (p, c) in disk_files(&dir.join("d")) {
        buf.extend(p.as_bytes());
        buf.push(0);
        buf.extend(c);
        buf.push(1);
    }
    key.push_str(&format!("{:x}", vcommon::fnv(&buf)));
    {
        let mut pc = stats.per_class.lock().unwrap();
        let e = pc.entry(lit.class.clone()).or_insert([0; 5]);
        e[0] += 1;
        e[1] += ok as u64;
        e[2] += refused as u64;
        e[3] += target_immutable as u64;
        e[4] += rewrote_mutable as u64;
    }
    StepOutcome {
        ok,
        stderr: out.stderr.clone(),
        state: StateData { dir: dir.to_path_buf(), n: lit.n, head: Some(head), changes, key },
        violations,
    }
}

/// Cross-check of the reference definition against jj's own `immutable()` at a state that is
/// going to be expanded (one extra read-only jj command). A disagreement is reported as a
/// violation of the definition given in the statement.
fn cross_check_immutable(env: &Env, st: &StateData, config: usize, stats: &Stats) -> Option<(String, String)> {
    let out_path = env.root.join(format!("out/x{}", OUT_COUNTER.fetch_add(1, Ordering::Relaxed)));
    let args = s(&[
        "log",
        "--ignore-working-copy",
        "--no-graph",
        "-r",
        "immutable()",
        "-T",
        "commit_id ++ \"\\n\"",
    ]);
    let mut c = Command::new(&env.jjv);
    c.current_dir(st.dir.join("d"));
    c.env_clear();
    c.env("PATH", "/usr/bin:/bin");
    c.env("HOME", env.root.join("home"));
    c.env("JJ_CONFIG", env.root.join(format!("config{config}.toml")));
    c.env("RAYON_NUM_THREADS", "1");
    c.env("TZ", "UTC");
    c.args(&args);
    c.stdin(Stdio::null());
    c.stdout(std::fs::File::create(&out_path).unwrap());
    c.stderr(Stdio::null());
    let status = c.status().unwrap_or_else(|e| vcommon::machinery_failure(&format!("cannot run jj: {e}")));
    let text = std::fs::read_to_string(&out_path).unwrap_or_default();
    let _ = std::fs::remove_file(&out_path);
    if !status.success() {
        vcommon::machinery_failure("jj log -r 'immutable()' failed");
    }
    stats.immutable_revset_cross_checks.fetch_add(1, Ordering::Relaxed);
    let ins = inspect(&st.dir.join("d/.jj/repo"));
    let head = st.head.clone()?;
    let view = &ins.ops.get(&head)?.view;
    let visible = ins.ancestors(view.head_ids.iter().cloned());
    // both sides restricted to visible commits (a remote bookmark may point at a hidden commit)
    let jj_set: BTreeSet<String> = text
        .lines()
        .map(|l| l.trim().to_string())
        .filter(|l| !l.is_empty() && CommitId::try_from_hex(l).is_some_and(|c| visible.contains(&c)))
        .collect();
    let ref_set: BTreeSet<String> =
        ins.immutable_by_definition(view, config).into_iter().filter(|c| visible.contains(c)).map(|c| c.hex()).collect();
    if jj_set != ref_set {
        let only_jj: Vec<String> = jj_set.difference(&ref_set).map(|x| x[..12].to_string()).collect();
        let only_ref: Vec<String> = ref_set.difference(&jj_set).map(|x| x[..12].to_string()).collect();
        return Some((
            format!("C42/immutable-revset/{}/differs-from-definition", ["default", "none", "local-bookmark", "tags"][config]),
            format!(
                "immutable_heads() = {}: jj evaluates immutable() to a different set than the definition: only jj {only_jj:?}, only definition {only_ref:?}",
                CFG_NAMES[config]
            ),
        ));
    }
    None
}

struct Phase {
    name: String,
    root: usize,
    config: usize,
    /// actions of the first level
    level1: Vec<(Cmd, Vec<u8>, u8)>,
    /// actions of the second level (depth 2 phases)
    level2: Vec<(Cmd, Vec<u8>, u8)>,
    depth: usize,
}

fn enabled(phase: &Phase, depth_done: usize) -> Vec<Act> {
    if depth_done >= phase.depth {
        return vec![];
    }
    let src = if depth_done == 0 { &phase.level1 } else { &phase.level2 };
    let mut out = vec![];
    for (cmd, targets, dirty) in src {
        for &t in targets {
            out.push(Act::Step { dirty: *dirty, cmd: *cmd, target: t });
        }
    }
    // a fixed pseudo-random order, so that a wall-clock cap cuts a level across all command kinds
    out.sort_by_key(|a| vcommon::fnv(format!("{a:?}").as_bytes()));
    out
}

fn phases(thorough: bool) -> Vec<Phase> {
    let commits: Vec<u8> = vec![0, 1, 2, 3, 4, 5]; // a b c d2 e w
    let all: Vec<u8> = vec![0, 1, 2, 3, 4, 5, 6]; // + root
    let not_wc: Vec<u8> = vec![0, 1, 2, 3, 4];
    let nt = vec![NO_TARGET];
    let quick_rewriters: Vec<(Cmd, Vec<u8>, u8)> = vec![
        (Cmd::Describe, all.clone(), 1),
        (Cmd::Edit, commits.clone(), 1),
        (Cmd::Abandon, all.clone(), 0),
        (Cmd::SquashR, commits.clone(), 0),
        (Cmd::Split, commits.clone(), 0),
        (Cmd::RebaseR, commits.clone(), 0),
        (Cmd::RebaseS, commits.clone(), 0),
        (Cmd::RebaseB, commits.clone(), 0),
        (Cmd::RestoreInto, commits.clone(), 0),
        (Cmd::Metaedit, commits.clone(), 0),
        (Cmd::AbsorbInto, not_wc.clone(), 1),
        (Cmd::RebaseBefore, not_wc.clone(), 0),
        (Cmd::NewBefore, commits.clone(), 0),
        (Cmd::SquashInto, not_wc.clone(), 1),
        (Cmd::SquashFrom, not_wc.clone(), 0),
        (Cmd::Describe2, not_wc.clone(), 0),
        (Cmd::Abandon2, not_wc.clone(), 0),
        (Cmd::Duplicate, commits.clone(), 0),
        (Cmd::New, commits.clone(), 1),
    ];
    let mut full_rewriters = quick_rewriters.clone();
    full_rewriters.extend(vec![
        (Cmd::Chmod, commits.clone(), 0),
        (Cmd::Parallelize, commits.clone(), 0),
        (Cmd::SimplifyParents, commits.clone(), 0),
        (Cmd::RebaseAfter, not_wc.clone(), 0),
        (Cmd::NewAfter, commits.clone(), 0),
        (Cmd::BookmarkCreate, commits.clone(), 0),
        (Cmd::BookmarkMoveLb, commits.clone(), 0),
        (Cmd::TagSet, commits.clone(), 0),
        (Cmd::TagDeleteV1, nt.clone(), 0),
        (Cmd::BookmarkDeleteLb, nt.clone(), 0),
        (Cmd::TrackFeat, nt.clone(), 0),
    ]);
    // working copy on an immutable commit (root B): every snapshotting command, dirty
    let wc_cmds: Vec<(Cmd, Vec<u8>, u8)> = vec![
        (Cmd::St, nt.clone(), 1),
        (Cmd::Commit, nt.clone(), 1),
        (Cmd::SquashWc, nt.clone(), 1),
        (Cmd::DescribeWc, nt.clone(), 1),
        (Cmd::New, vec![0, 2], 1),
        (Cmd::Edit, vec![2, 4], 1),
        (Cmd::Abandon, vec![3], 1),
        (Cmd::Describe, vec![3], 1),
        (Cmd::SquashInto, vec![2], 1),
        (Cmd::RestoreInto, vec![3], 1),
        (Cmd::Split, vec![3], 1),
        (Cmd::Duplicate, vec![3], 1),
    ];
    let changers: Vec<(Cmd, Vec<u8>, u8)> = vec![
        (Cmd::BookmarkMoveLb, commits.clone(), 0),
        (Cmd::TagSet, commits.clone(), 0),
        (Cmd::TagDeleteV1, nt.clone(), 0),
        (Cmd::BookmarkDeleteLb, nt.clone(), 0),
        (Cmd::TrackFeat, nt.clone(), 0),
        (Cmd::OverrideEdit, not_wc.clone(), 1),
        (Cmd::OverrideDescribe, vec![0, 3], 0),
        (Cmd::New, not_wc.clone(), 1),
    ];
    let core2: Vec<(Cmd, Vec<u8>, u8)> = vec![
        (Cmd::Describe, commits.clone(), 1),
        (Cmd::Abandon, commits.clone(), 0),
        (Cmd::SquashInto, not_wc.clone(), 1),
        (Cmd::SquashR, commits.clone(), 0),
        (Cmd::RebaseS, commits.clone(), 0),
        (Cmd::Edit, commits.clone(), 1),
        (Cmd::RestoreInto, commits.clone(), 0),
        (Cmd::St, nt.clone(), 1),
        (Cmd::Commit, nt.clone(), 1),
    ];
    let mut v = vec![];
    for cfg in 0..4 {
        v.push(Phase { name: format!("B:wc-on-tagged-commit/{}/wc-commands/d1", CFG_NAMES[cfg]), root: 1, config: cfg, level1: wc_cmds.clone(), level2: vec![], depth: 1 });
    }
    for cfg in 0..4 {
        v.push(Phase { name: format!("A/{}/rewriters/d1", CFG_NAMES[cfg]), root: 0, config: cfg, level1: quick_rewriters.clone(), level2: vec![], depth: 1 });
    }
    if thorough {
        for cfg in 0..4 {
            v.push(Phase { name: format!("A/{}/all-commands/d1", CFG_NAMES[cfg]), root: 0, config: cfg, level1: full_rewriters.clone(), level2: vec![], depth: 1 });
        }
        for cfg in 0..4 {
            v.push(Phase { name: format!("A/{}/set-movers-then-rewriters/d2", CFG_NAMES[cfg]), root: 0, config: cfg, level1: changers.clone(), level2: core2.clone(), depth: 2 });
        }
    }
    v
}

fn fresh_dir(env: &Env) -> PathBuf {
    static N: AtomicU64 = AtomicU64::new(0);
    env.root.join(format!("st/{}", N.fetch_add(1, Ordering::Relaxed)))
}

fn run_from_scratch(env: &Env, prep: &[LitStep], steps: &[LitStep], stats: &Stats) -> (StateData, Vec<(String, String)>) {
    let dir = fresh_dir(env);
    std::fs::create_dir_all(&dir).unwrap();
    let mut violations = vec![];
    let mut last: Option<StateData> = None;
    for (i, lit) in prep.iter().chain(steps.iter()).enumerate() {
        let o = exec_step(env, &dir, last.as_ref(), lit, stats);
        if i < prep.len() && !o.ok {
            vcommon::machinery_failure(&format!("preparation command {} {:?} failed: {}", lit.program, lit.args, o.stderr));
        }
        violations.extend(o.violations);
        last = Some(o.state);
    }
    (last.unwrap(), violations)
}

fn case_json(phase: &str, prep: &[LitStep], steps: &[LitStep]) -> Value {
    json!({ "phase": phase, "prep": prep, "steps": steps })
}

fn main() {
    let ctx = Ctx::from_args("C42", Level::ModelChecking);
    vcommon::silence_panics();
    let jjv = std::env::var("JJV_BIN")
        .map(PathBuf::from)
        .unwrap_or_else(|_| std::env::current_exe().unwrap().parent().unwrap().join("jjv"));
    if !jjv.exists() {
        vcommon::machinery_failure("the jj binary (jjv) has not been built");
    }
    let env = Env::new(ctx.scratch(), jjv);
    let stats = Stats::default();

    if let Some((_sig, case)) = ctx.replay_case() {
        let prep: Vec<LitStep> = serde_json::from_value(case["prep"].clone())
            .unwrap_or_else(|e| vcommon::machinery_failure(&format!("bad replay file: {e}")));
        let steps: Vec<LitStep> = serde_json::from_value(case["steps"].clone())
            .unwrap_or_else(|e| vcommon::machinery_failure(&format!("bad replay file: {e}")));
        let (st, mut violations) = run_from_scratch(&env, &prep, &steps, &stats);
        if let Some(c) = case.get("cross_check_config").and_then(|v| v.as_u64())
            && let Some(v) = cross_check_immutable(&env, &st, c as usize, &stats)
        {
            violations.push(v);
        }
        for (sig, msg) in violations {
            println!("replay: {sig}: {msg}");
            ctx.violation(&sig, msg, case.clone());
        }
        ctx.finish(Coverage { evaluations: 1, ..Default::default() });
    }

    let phases = phases(ctx.thorough());
    // wall-clock cap (the machine is shared: one jj command costs 0.2 s when idle and several
    // seconds under load); VERIF_WALL_CAP_S overrides it, e.g. to complete the bound on a loaded machine
    let wall_cap = std::env::var("VERIF_WALL_CAP_S")
        .ok()
        .and_then(|v| v.parse::<f64>().ok())
        .unwrap_or(ctx.pick(25.0, 1200.0));
    let capped = AtomicBool::new(false);
    let skipped = AtomicU64::new(0);
    let start = Instant::now();
    let states: Mutex<HashMap<Vec<Act>, Arc<StateData>>> = Mutex::new(HashMap::new());
    let lits: Mutex<HashMap<Vec<Act>, Vec<LitStep>>> = Mutex::new(HashMap::new());
    let samples = vcommon::Samples::new(8);
    let max_depth = phases.iter().map(|p| p.depth).max().unwrap() + 1;
    let changed: Mutex<BTreeMap<String, (u64, u64)>> = Mutex::new(BTreeMap::new());
    let unresolved_targets = AtomicU64::new(0);
    let nontrivial = AtomicU64::new(0);

    // roots, each prepared twice in parallel: the second run is the determinism gate (same keys,
    // same operation ids)
    let prepared: Vec<(usize, usize, StateData)> = {
        use rayon::prelude::*;
        [(0usize, 0usize), (1, 0), (0, 1), (1, 1)]
            .par_iter()
            .map(|&(root, run)| {
                let scratch = Stats::default();
                let (st, _) = run_from_scratch(&env, &prep_steps(root), &[], if run == 0 { &stats } else { &scratch });
                (root, run, st)
            })
            .collect()
    };
    let mut roots: HashMap<usize, Arc<StateData>> = HashMap::new();
    let mut seconds: HashMap<usize, StateData> = HashMap::new();
    for (root, run, st) in prepared {
        if run == 0 {
            roots.insert(root, Arc::new(st));
        } else {
            seconds.insert(root, st);
        }
    }
    let mut gate_ok = 0u64;
    for root in [0usize, 1] {
        if seconds[&root].key != roots[&root].key || seconds[&root].head != roots[&root].head {
            vcommon::machinery_failure("nondeterministic preparation: two runs of the preparation script differ");
        }
        gate_ok += 1;
    }
    let prep_commands = stats.commands.load(Ordering::Relaxed);
    // the reference definition agrees with jj's immutable() on every (root, configuration)
    {
        use rayon::prelude::*;
        let combos: Vec<(usize, usize)> = [0usize, 1].iter().flat_map(|r| (0..4).map(move |c| (*r, c))).collect();
        let found: Vec<(usize, usize, (String, String))> = combos
            .par_iter()
            .filter_map(|&(root, cfg)| cross_check_immutable(&env, &roots[&root], cfg, &stats).map(|v| (root, cfg, v)))
            .collect();
        for (root, cfg, (sig, msg)) in found {
            let mut case = case_json("cross-check", &prep_steps(root), &[]);
            case["cross_check_config"] = json!(cfg);
            ctx.violation(&sig, msg, case);
        }
    }

    // the wall-clock budget of the search starts when the roots are prepared
    let start = Instant::now();
    let step = |h: &[Act]| -> Option<bfs::StepResult<Act>> {
        if h.is_empty() {
            return Some(bfs::StepResult { key: "root".into(), actions: (0..phases.len()).map(Act::Init).collect() });
        }
        let Act::Init(pi) = h[0] else { unreachable!() };
        let phase = &phases[pi];
        if h.len() == 1 {
            let st = roots[&phase.root].clone();
            let acts = enabled(phase, 0);
            let key = format!("{}|{}", phase.name, st.key);
            states.lock().unwrap().insert(h.to_vec(), st);
            lits.lock().unwrap().insert(h.to_vec(), vec![]);
            return Some(bfs::StepResult { key, actions: acts });
        }
        if start.elapsed().as_secs_f64() > wall_cap {
            capped.store(true, Ordering::Relaxed);
            skipped.fetch_add(1, Ordering::Relaxed);
            return None;
        }
        let parent_h = &h[..h.len() - 1];
        let parent = states.lock().unwrap().get(parent_h).cloned();
        let parent = parent.unwrap_or_else(|| vcommon::machinery_failure("parent state of a BFS history is missing"));
        let mut steps = lits.lock().unwrap().get(parent_h).cloned().unwrap();
        let Act::Step { dirty, cmd, target } = h[h.len() - 1].clone() else { unreachable!() };
        // resolve target names in the parent state
        let pins = inspect(&parent.dir.join("d/.jj/repo"));
        let pview = &pins.ops[parent.head.as_ref().unwrap()].view;
        let names = names_of(&pins, pview, &parent.changes);
        let Some(lit) = expand(dirty, cmd, target, parent.n + 1, phase.config, &names) else {
            unresolved_targets.fetch_add(1, Ordering::Relaxed);
            return None;
        };
        let dir = fresh_dir(&env);
        copy_tree(&parent.dir, &dir);
        let o = exec_step(&env, &dir, Some(&parent), &lit, &stats);
        steps.push(lit.clone());
        let prep = prep_steps(phase.root);
        for (sig, msg) in &o.violations {
            ctx.violation(sig, msg.clone(), case_json(&phase.name, &prep, &steps));
        }
        let acts = enabled(phase, h.len() - 1);
        if !acts.is_empty()
            && let Some((sig, msg)) = cross_check_immutable(&env, &o.state, phase.config, &stats)
        {
            let mut case = case_json(&phase.name, &prep, &steps);
            case["cross_check_config"] = json!(phase.config);
            ctx.violation(&sig, msg, case);
        }
        if h.len() == phase.depth + 1 {
            samples.offer(|| json!({"phase": phase.name, "steps": steps.iter().map(|l| json!({"edits": l.edits, "jj": l.args})).collect::<Vec<_>>()}));
        }
        let key = format!("{}|{}", phase.name, o.state.key);
        {
            let mut ch = changed.lock().unwrap();
            let e = ch.entry(format!("{cmd:?}/cfg{}", phase.config)).or_insert((0, 0));
            e.0 += 1;
            e.1 += (o.state.key != parent.key) as u64;
        }
        if !o.ok && o.stderr.lines().any(|l| l.starts_with("Error: ") && l.contains("is immutable")) {
            nontrivial.fetch_add(1, Ordering::Relaxed);
        }
        if acts.is_empty() {
            let _ = std::fs::remove_dir_all(&o.state.dir);
        } else {
            states.lock().unwrap().insert(h.to_vec(), Arc::new(o.state));
            lits.lock().unwrap().insert(h.to_vec(), steps);
        }
        Some(bfs::StepResult { key, actions: acts })
    };
    let label = |a: &Act| match a {
        Act::Init(i) => format!("init:{}", phases[*i].name),
        Act::Step { cmd, .. } => format!("{cmd:?}"),
    };
    let cfg = bfs::BfsConfig { max_depth, max_states: u64::MAX, max_wall_s: f64::MAX };
    let st = bfs::search(&cfg, step, label);

    // vacuity
    let ld = |c: &AtomicU64| c.load(Ordering::Relaxed);
    let never_changed: Vec<String> = {
        // per command kind over all configurations
        let ch = changed.lock().unwrap();
        let mut per_cmd: BTreeMap<String, (u64, u64)> = BTreeMap::new();
        for (k, v) in ch.iter() {
            let e = per_cmd.entry(k.split('/').next().unwrap().to_string()).or_insert((0, 0));
            e.0 += v.0;
            e.1 += v.1;
        }
        per_cmd.iter().filter(|(_, (n, c))| *n > 0 && *c == 0).map(|(l, _)| l.clone()).collect()
    };
    if !capped.load(Ordering::Relaxed) {
        if !never_changed.is_empty() {
            vcommon::machinery_failure(&format!("vacuous: commands that never changed the state: {never_changed:?}"));
        }
        if ld(&stats.refused_immutable) == 0
            || ld(&stats.mutable_commits_rewritten_or_hidden) == 0
            || ld(&stats.snapshot_on_immutable_judged) == 0
            || ld(&stats.snapshot_on_mutable_wc) == 0
            || ld(&stats.target_immutable) == 0
            || ld(&stats.target_mutable) == 0
        {
            vcommon::machinery_failure("vacuous: a clause was never exercised (refusal / rewrite of a mutable commit / snapshot on an immutable working copy)");
        }
    }
    let per_class = stats.per_class.lock().unwrap().clone();
    let mut extra: BTreeMap<String, Value> = BTreeMap::new();
    extra.insert(
        "phases".into(),
        json!(phases
            .iter()
            .map(|p| json!({"name": p.name, "root": root_name(p.root), "immutable_heads": CFG_NAMES[p.config], "depth_in_commands": p.depth,
                "level1": p.level1.iter().map(|(c, t, d)| format!("{c:?} x targets {:?} dirty {d}", t.iter().map(|i| if *i == NO_TARGET { "-" } else { TARGETS[*i as usize] }).collect::<Vec<_>>())).collect::<Vec<_>>(),
                "level2": p.level2.iter().map(|(c, t, d)| format!("{c:?} x targets {:?} dirty {d}", t.iter().map(|i| if *i == NO_TARGET { "-" } else { TARGETS[*i as usize] }).collect::<Vec<_>>())).collect::<Vec<_>>()}))
            .collect::<Vec<_>>()),
    );
    extra.insert("jj_commands_executed".into(), json!(ld(&stats.commands)));
    extra.insert("jj_commands_for_root_preparation_incl_gate".into(), json!(prep_commands));
    extra.insert("commands_exit_0".into(), json!(ld(&stats.exit_ok)));
    extra.insert("commands_exit_nonzero".into(), json!(ld(&stats.exit_err)));
    extra.insert("commands_refused_because_immutable".into(), json!(ld(&stats.refused_immutable)));
    extra.insert("commands_aimed_at_an_immutable_commit".into(), json!(ld(&stats.target_immutable)));
    extra.insert("commands_aimed_at_mutable_commits_only".into(), json!(ld(&stats.target_mutable)));
    extra.insert("commands_that_rewrote_or_hid_a_mutable_commit".into(), json!(ld(&stats.mutable_commits_rewritten_or_hidden)));
    extra.insert("immutable_commit_visibility_checks".into(), json!(ld(&stats.immutable_commits_checked)));
    extra.insert("snapshots_on_immutable_working_copy_judged".into(), json!(ld(&stats.snapshot_on_immutable_judged)));
    extra.insert("snapshots_on_mutable_working_copy_controls".into(), json!(ld(&stats.snapshot_on_mutable_wc)));
    extra.insert("commands_that_changed_the_immutable_set".into(), json!(ld(&stats.immutable_set_changed_by_command)));
    extra.insert("cross_checks_of_the_definition_against_jj_immutable_revset".into(), json!(ld(&stats.immutable_revset_cross_checks)));
    extra.insert("actions_dropped_because_the_target_no_longer_resolves".into(), json!(ld(&unresolved_targets)));
    extra.insert(
        "per_command_class".into(),
        json!(per_class.iter().map(|(k, v)| (k.clone(), json!({"runs": v[0], "exit_0": v[1], "refused_immutable": v[2], "aimed_at_immutable": v[3], "rewrote_a_mutable_commit": v[4]}))).collect::<BTreeMap<_, _>>()),
    );
    extra.insert("per_depth_new_states".into(), json!(st.per_depth_states));
    extra.insert("max_depth_completed_incl_root_level".into(), json!(st.max_depth_completed));
    extra.insert("wall_cap_s".into(), json!(wall_cap));
    extra.insert("transitions_skipped_by_wall_cap".into(), json!(ld(&skipped)));
    extra.insert("determinism_gate_roots_prepared_twice".into(), json!(gate_ok));
    extra.insert("commands_that_never_changed_the_state".into(), json!(never_changed));
    let cov = Coverage {
        evaluations: st.transitions,
        distinct_nontrivial: nontrivial.load(Ordering::Relaxed),
        rule: "for every immutable_heads() configuration (default, none(), bookmarks(exact:\"lb\"), tags()): every command of the phase's \
               alphabet x every target commit (a b c d2 e w root) from the prepared repositories, and (thorough) every command after every \
               bookmark/tag/tracking/override action that moves the immutable set; one evaluation = one transition = copy of the parent \
               directory + one real jj command + comparison of the immutable set (by definition, from the view before) with the visible \
               commits after; non-trivial = transitions where jj refused because a commit is immutable"
            .into(),
        samples: samples.take(),
        exhaustive: !capped.load(Ordering::Relaxed),
        states: Some(st.states),
        transitions: Some(st.transitions),
        traces_validated_against_impl: Some(st.transitions),
        extra,
        assumptions: vec![
            "one workspace, git backend, one fetched remote `origin` (main = trunk, feat untracked), no colocation".into(),
            "rewritten / abandoned / hidden are all observed as: the commit id is no longer an ancestor of the visible heads".into(),
            "undo / op restore / git fetch / git import are outside the alphabet (they may legitimately hide commits)".into(),
        ],
    };
    ctx.finish(cov);
}
